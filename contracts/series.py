"""C04 / C05 – power-series mode of Engine B: one propagation step, averaged EXACTLY over the Gaussian auxiliary fields, against
exp(-dt (H - E)) on the Fock space, order by order in s = sqrt(dt) (dt is made symbolic by a marker value of the propagator's dt).

Everything is symbolic: walker, h0, h1 per spin, Cholesky matrices, the rdm1 used for the mean-field shift (ANY symmetric matrices), the field
values x_g, the force bias (FREE symbols: the identity must hold for any shift; that the shift used is the force bias is C03), the energy shift.
Trial callees are replaced by their contracts (fresh symbols), so the result holds for every trial kind usable for propagation.
"""
from __future__ import annotations

import math
import time
from fractions import Fraction

import numpy as np

from vc.common import ob, DISCHARGED, REFUTED, UNDECIDED, Unsupported
from vc.jxvc import harness as H
from vc.jxvc.field import Fr, is_obj, det_sym
from vc.jxvc.interp import evaluate
from vc.spec.fock import Fock

DT = 0.0123046875          # marker value of propagator.dt (exactly representable)
SQ = math.sqrt(DT)
MOM = {0: 1, 1: 0, 2: 1, 3: 0, 4: 3, 5: 0, 6: 15, 7: 0, 8: 105, 9: 0, 10: 945, 11: 0, 12: 10395}


class _Stop(Exception):
    pass


class Series:
    def __init__(self, sp, K):
        self.sp, self.K = sp, K
        self.s = sp.sym("s")
        sp.trunc = (sp.names.index("s"), K)
        self.exps = []

    def literal(self, a):
        """marker literals -> powers of s (every dtype copy); other float literals must be plain numbers"""
        if a.dtype.kind not in "fc" or a.shape != ():
            return None
        v = complex(a)
        if v.imag == 0:
            for val, sym in ((DT, self.s * self.s), (-DT, -(self.s * self.s)), (SQ, self.s), (-SQ, -self.s)):
                if v.real == val:
                    r = np.empty((), dtype=object)
                    r[()] = sym
                    return r
        return None

    def sdeg_ok(self, v):
        i = self.sp.names.index("s")
        return all(m[i] > 0 for m in v.n.keys()) and not v.D

    def exp_series(self, v):
        if not isinstance(v, Fr):
            return self.sp.const(complex(np.exp(v)))
        if not self.sdeg_ok(v):
            raise Unsupported("exp of an argument that is not O(s) in the power-series mode")
        acc, term = self.sp.one, self.sp.one
        for k in range(1, self.K + 1):
            term = term * v * self.sp.const(Fraction(1, k))
            acc = acc + term
        return acc

    def prim_exp(self, it, e, ins):
        x = ins[0]
        if not is_obj(x):
            return None
        flat = x.reshape(-1)
        out = np.empty(flat.shape, dtype=object)
        for k, v in enumerate(flat):
            out[k] = self.exp_series(v)
        r = out.reshape(np.shape(x))
        self.exps.append((x, r))
        return r

    def prim_sqrt(self, it, e, ins):
        x = ins[0]
        if is_obj(x):
            flat = x.reshape(-1)
            if all((v - self.s * self.s).iszero() for v in flat):
                out = np.empty(flat.shape, dtype=object)
                out[:] = self.s
                return out.reshape(np.shape(x))
            raise Unsupported("sqrt of a symbolic quantity other than dt")
        if np.ndim(x) == 0 and float(np.real(x)) == DT:
            r = np.empty((), dtype=object)
            r[()] = self.s
            return r
        return None

    def expm(self, it, e, ins):
        A = it.sym(ins[0])
        if A.ndim == 3:
            return [np.stack([self._expm1(A[k]) for k in range(A.shape[0])])]
        return [self._expm1(A)]

    def _expm1(self, A):
        n = A.shape[0]
        I = np.empty((n, n), dtype=object)
        for i in range(n):
            for j in range(n):
                I[i, j] = self.sp.one if i == j else self.sp.zero
        out, term = I, I
        for k in range(1, self.K + 1):
            term = term.dot(A) * self.sp.const(Fraction(1, k))
            out = out + term
            if all(x.iszero() for x in term.reshape(-1)):
                break
        return out

    def expect(self, fr, xnames):
        """exact Gaussian average over independent standard normal fields"""
        idx = [self.sp.names.index(n) for n in xnames]
        d = {}
        for m, c in fr.n.terms():
            f = 1
            for i in idx:
                f *= MOM[m[i]]
                if f == 0:
                    break
            if f == 0:
                continue
            mm = list(m)
            for i in idx:
                mm[i] = 0
            mm = tuple(mm)
            d[mm] = d.get(mm, 0) + c * f
        for at, _ in fr.D:
            if any(any(m[i] for i in idx) for m in at.keys()):
                raise Unsupported("field-dependent denominator in a Gaussian average")
        return Fr(fr.n.ring.from_dict({m: c for m, c in d.items() if c != 0}), fr.D, self.sp)

    def order(self, fr, k):
        i = self.sp.names.index("s")
        return fr.n.ring.from_dict({m[:i] + (0,) + m[i + 1:]: c for m, c in fr.n.terms() if m[i] == k})


def _setup(restricted, norb, nel, nchol, K, seed=0):
    H.setup_repo()
    inp = H.Inputs(seed + 40)
    d = dict(s=inp.declare("s", ()), h0=inp.declare("h0", ()), ha=inp.declare("ha", (2, norb, norb)), la=inp.declare("la", (nchol, norb, norb)),
             ra=inp.declare("ra", (2, norb, norb)), x=inp.declare("x", (1, nchol)), f=inp.declare("f", (1, nchol), "holo"), E=inp.declare("E", ()))
    if restricted:
        d["w"] = inp.declare("w", (1, norb, nel[0]), "holo")
    else:
        d["wu"], d["wd"] = inp.declare("wu", (1, norb, nel[0]), "holo"), inp.declare("wd", (1, norb, nel[1]), "holo")
    d["on"] = inp.declare("on", (1,), "holo")
    d["oo"] = inp.declare("oo", (1,), "holo")
    d["e0"] = inp.declare("e0", ())
    inp.build()
    S = Series(inp.sp, K)
    sym = lambda a: a + np.swapaxes(a, -1, -2)
    V = lambda k: d[k]["V"].s
    h1 = sym(V("ha"))
    if restricted:
        h1 = np.stack([h1[0], h1[0]])
    L = sym(V("la"))
    rho = sym(V("ra"))
    if restricted:
        rho = np.stack([rho[0], rho[0]])
    return inp, S, d, h1, L, rho


def _intermediates(S, inp, prop, trial, h0, h1, L, rho, ene0, norb, nchol):
    import jax.numpy as jnp
    ham_s = dict(h0=h0, h1=h1, chol=L.reshape(nchol, norb * norb), ene0=ene0)
    ham_x = dict(h0=jnp.asarray(0.3), h1=jnp.zeros((2, norb, norb)), chol=jnp.zeros((nchol, norb * norb)), ene0=jnp.asarray(0.0))
    wv_s, wv_x = dict(rdm1=rho), dict(rdm1=jnp.zeros((2, norb, norb)))
    fn = lambda hm, wv: prop._build_propagation_intermediates(hm, trial, wv)
    out, it = evaluate(inp.sp, fn, (ham_s, wv_s), (ham_x, wv_x), intercept={"expm": S.expm}, literal_hook=S.literal, prim_hook={"sqrt": S.prim_sqrt})
    if "expm" not in it.calls:
        raise Unsupported("expm was not called by _build_propagation_intermediates")
    return out, fn(dict(ham_x), wv_x)


def phaseless_step(restricted=False, norb=2, nu=1, nd=1, nchol=1, K=3):
    """C04.prop.step.*: importance factor x propagated walker / new overlap, averaged over the fields, equals exp(-dt (H - E_shift)) |phi>/O through s^3
    (first non-matching order is s^4 = dt^2); structure of the importance function and of theta"""
    t0 = time.time()
    nel = (nu, nd)
    inp, S, d, h1, L, rho = _setup(restricted, norb, nel, nchol, K)
    import jax
    import jax.numpy as jnp
    from ad_afqmc import propagation, wavefunctions as wf
    sp = inp.sp
    V = lambda k: d[k]["V"].s
    pcls = propagation.propagator_restricted if restricted else propagation.propagator_unrestricted
    prop = pcls(dt=DT, n_walkers=1)
    trial = (wf.rhf if restricted else wf.uhf)(norb, nel)
    ham_s, ham_x = _intermediates(S, inp, prop, trial, V("h0")[()], h1, L, rho, sp.zero, norb, nchol)
    wave_mi = dict(mo_coeff=jnp.eye(norb)[:, :nu] if restricted else [jnp.eye(norb)[:, :nu], jnp.eye(norb)[:, :nd]])
    ham_x = trial._build_measurement_intermediates(dict(ham_x), wave_mi)       # only so that the (intercepted) trial callees can be traced
    for k_ in ham_x:
        if k_ not in ham_s:
            ham_s[k_] = jax.tree_util.tree_map(np.asarray, ham_x[k_])
    ham_s["h1"] = ham_s["h1"] if is_obj(np.asarray(ham_s["h1"], dtype=object)) else ham_s["h1"]
    walkers_s = V("w") if restricted else [V("wu"), V("wd")]
    walkers_x = jnp.zeros((1, norb, nu)) + 0j if restricted else [jnp.zeros((1, norb, nu)) + 0j, jnp.zeros((1, norb, nd)) + 0j]
    pd_s = dict(walkers=walkers_s, overlaps=V("oo"), weights=np.ones(1), pop_control_ene_shift=V("E")[()], e_estimate=np.array(0.0))
    pd_x = dict(walkers=walkers_x, overlaps=jnp.ones(1) + 0j, weights=jnp.ones(1), pop_control_ene_shift=jnp.asarray(0.1), e_estimate=jnp.asarray(0.0))
    wave_x = dict(mo_coeff=jnp.eye(norb)[:, :nu] if restricted else [jnp.eye(norb)[:, :nu], jnp.eye(norb)[:, :nd]], rdm1=jnp.zeros((2, norb, norb)))
    wave_s = jax.tree_util.tree_map(np.asarray, wave_x)
    cap = {}
    sfx = "_restricted" if restricted else ""

    def h_fb(it, e, ins):
        return [V("f").reshape(tuple(e.outvars[0].aval.shape))]

    def h_ov(it, e, ins):
        nwk = 1 if restricted else 2
        cap["walkers_new"] = [it.sym(x) for x in ins[:nwk]]
        return [V("on").reshape(tuple(e.outvars[0].aval.shape))]

    def h_angle(it, e, ins):
        cap["theta_arg"] = ins[0]
        return [np.zeros(tuple(e.outvars[0].aval.shape))]

    def p_abs(it, e, ins):
        if is_obj(ins[0]):
            cap["imp"] = ins[0]
            raise _Stop()
        return None
    fn = lambda hm, pdd, ff, wv: prop.propagate(trial, hm, pdd, ff, wv)
    try:
        evaluate(sp, fn, (ham_s, pd_s, V("x"), wave_s), (ham_x, pd_x, jnp.zeros((1, nchol)), wave_x),
                 intercept={"_calc_force_bias" + sfx: h_fb, "_calc_overlap" + sfx: h_ov, "angle": h_angle},
                 literal_hook=S.literal, prim_hook={"sqrt": S.prim_sqrt, "exp": S.prim_exp, "abs": p_abs})
        raise Unsupported("propagate() ended without taking |importance function|")
    except _Stop:
        pass
    tagn = f"[{'restricted' if restricted else 'unrestricted'},norb={norb},nel={nu}+{nd},nchol={nchol}]"
    fns = [f"propagation.propagator.propagate", f"propagation.{pcls.__name__}._build_propagation_intermediates", f"propagation.{pcls.__name__}._apply_trotprop",
           "propagation.propagator._apply_trotprop_det"]
    out = []
    if len(S.exps) < 2 or "theta_arg" not in cap or "walkers_new" not in cap:
        return [ob(f"C04.prop.step.structure{tagn}", UNDECIDED, kind="bounded", detail=f"expected callees not seen: exps={len(S.exps)} captured={sorted(cap)}", functions=fns)]
    on, oo = V("on").reshape(-1)[0], V("oo").reshape(-1)[0]
    P1 = S.exps[0][1].reshape(-1)[0]
    P2 = S.exps[1][1].reshape(-1)[0]
    imp = cap["imp"].reshape(-1)[0]
    out.append(H.identity(f"C04.prop.imp.structure{tagn}", imp * oo, P1 * on, functions=fns, inputs=None, t0=t0,
                          note="importance function = exp(-sqrt(dt) shift_term + fb_term + dt (E_shift + h0_prop)) * O_new / O_old"))
    th = np.asarray(cap["theta_arg"], dtype=object).reshape(-1)[0]
    out.append(H.identity(f"C04.prop.theta.structure{tagn}", th * oo, P2 * on, functions=fns, inputs=None, t0=t0,
                          note="theta = phase of exp(-sqrt(dt) shift_term) * O_new / O_old (mean-field phase removed)"))
    # field average: E_x[ P1(x) Phi(phi'(x)) ] == Phi(phi) - dt (H - E) Phi(phi) through s^K
    F = Fock(norb, nel)
    wn = cap["walkers_new"]
    wu_n, wd_n = (wn[0][0], wn[0][0]) if restricted else (wn[0][0], wn[1][0])
    phin = F.det_vec(wu_n, wd_n)
    w0u, w0d = (V("w")[0], V("w")[0]) if restricted else (V("wu")[0], V("wd")[0])
    phi0 = F.det_vec(w0u, w0d)
    Hphi = F.ham(V("h0")[()], h1, L, phi0)
    xn = [d["x"]["names"].reshape(-1)[g] for g in range(nchol)]
    E = V("E")[()]
    s2 = S.s * S.s
    bad = []
    for I in range(F.dim):
        lhs = S.expect(P1 * phin[I], xn)
        rhs = phi0[I] - s2 * (Hphi[I] - E * phi0[I])
        diff = lhs - rhs
        for k in range(K + 1):
            if S.order(diff, k) != 0:
                bad.append((I, k))
    st = REFUTED if bad else DISCHARGED
    o = ob(f"C04.prop.step.series{tagn}", st, kind="bounded", backend="ring-series", wall=time.time() - t0, functions=fns, witness_class="series-order",
           detail=(f"orders s^0..s^{K} of E_x[imp * |phi'> / O'] match exp(-dt(H - E_shift))|phi>/O in all {F.dim} Fock components, for any force bias, any rdm1 "
                   f"(first unmatched order is s^{K + 1}); dt symbolic via marker {DT}") if not bad else
                  f"mismatch at (Fock component, order of s): {bad[:6]}", witness=dict(mismatch=bad[:10]) if bad else None)
    if bad:
        _replay_c04(o, restricted, nchol)
    out.append(o)
    return out


def _replay_c04(o, restricted, nchol):
    """native replay: Gauss-Hermite average of the REAL propagate() (importance factor recovered through the guarded hook if present, else via the
    weights of six rotated overlap phases) is costly; here the cheaper native witness: compare h0_prop / mf_shifts / exp_h1 of the real
    _build_propagation_intermediates against the operator identity  -h0_prop + sum h1_mod a+a + 1/2 sum (L_g - l_g)^2 = H  on the Fock space."""
    try:
        from contracts import native
        native.setup()
        import jax.numpy as jnp
        import scipy.linalg as sla
        from ad_afqmc import propagation, wavefunctions as wf
        rng = np.random.default_rng(5)
        norb, nel = 2, (1, 1)
        h = rng.normal(size=(2, norb, norb)); h = h + h.transpose(0, 2, 1)
        if restricted:
            h[1] = h[0]
        L = rng.normal(size=(nchol, norb, norb)); L = L + L.transpose(0, 2, 1)
        rho = rng.normal(size=(2, norb, norb)); rho = rho + rho.transpose(0, 2, 1)
        if restricted:
            rho[1] = rho[0]
        dt = 0.01
        pcls = propagation.propagator_restricted if restricted else propagation.propagator_unrestricted
        prop = pcls(dt=dt, n_walkers=1)
        trial = (wf.rhf if restricted else wf.uhf)(norb, nel)
        ham = prop._build_propagation_intermediates(dict(h0=0.37, h1=jnp.array(h), chol=jnp.array(L.reshape(nchol, -1)), ene0=0.0), trial, dict(rdm1=jnp.array(rho)))
        F = Fock(norb, nel)
        I = np.eye(F.dim)
        Hm = np.array([F.ham(0.37, h, L, I[:, k].astype(complex)) for k in range(F.dim)]).T
        eh = np.asarray(ham["exp_h1"])
        eh = [eh, eh] if eh.ndim == 2 else [eh[0], eh[1]]
        h1mod = [-2.0 / dt * sla.logm(eh[s]).real for s in range(2)]
        lg = (-1j * np.asarray(ham["mf_shifts"])).real
        Hrec = -complex(ham["h0_prop"]).real * I
        for s in range(2):
            Hrec = Hrec + np.array([F.one_body(h1mod[s].astype(complex), s, I[:, k].astype(complex)) for k in range(F.dim)]).T
        for g in range(nchol):
            Lh = np.array([F.one_body_both(L[g].astype(complex), I[:, k].astype(complex)) for k in range(F.dim)]).T - lg[g] * I
            Hrec = Hrec + 0.5 * Lh @ Lh
        dev = float(np.abs(Hrec - Hm).max())
        # second native witness: one real propagate() step against the importance-sampling formula of the statement
        dev2, rec2 = native.phaseless_weight_deviation(restricted)
        dev3, rec3 = (0.0, {}) if restricted else native.trotprop_deviation()
        o["replayed"] = bool(dev > 1e-6 or dev2 > 1e-9 or dev3 > 1e-10)
        rec2 = dict(rec2, trotter_propagator=rec3)
        o["witness"] = dict(o.get("witness") or {}, native=dict(check="-h0_prop + sum h1_mod a+a + 1/2 sum (L_g - l_g)^2 == H on the Fock space (norb 2, (1,1))", max_deviation=dev, nchol=nchol),
                            native_step=dict(check="weights after one real propagate() step == w |I| max(0, cos theta) with I, theta written out from the statement", **rec2))
    except Exception as e:   # noqa
        o["witness"] = dict(o.get("witness") or {}, native_error=repr(e)[:300])


# ====================================================================================== C05: free projection
def free_step(norb=2, nu=2, nd=1, nchol=1, K=3):
    """C05.fp.step.series: the field average of the un-normalised walkers produced by propagate_free (constants x Trotter propagator, captured at the
    operand of the re-orthonormalisation) equals exp(-dt (H - ene0)) |phi> through s^3, for any rdm1 in the mean-field shift"""
    t0 = time.time()
    nel = (nu, nd)
    inp, S, d, h1, L, rho = _setup(False, norb, nel, nchol, K, seed=7)
    import jax
    import jax.numpy as jnp
    from ad_afqmc import propagation, wavefunctions as wf
    sp = inp.sp
    V = lambda k: d[k]["V"].s
    prop = propagation.propagator_unrestricted(dt=DT, n_walkers=1)
    trial = wf.uhf(norb, nel)
    e0 = V("e0")[()]
    ham_s, ham_x = _intermediates(S, inp, prop, trial, V("h0")[()], h1, L, rho, e0, norb, nchol)
    pd_s = dict(walkers=[V("wu"), V("wd")], norms=np.ones(1) + 0j, overlaps=V("oo"))
    pd_x = dict(walkers=[jnp.zeros((1, norb, nu)) + 0j, jnp.zeros((1, norb, nd)) + 0j], norms=jnp.ones(1) + 0j, overlaps=jnp.ones(1) + 0j)
    wave_x = dict(mo_coeff=[jnp.eye(norb)[:, :nu], jnp.eye(norb)[:, :nd]])
    wave_s = jax.tree_util.tree_map(np.asarray, wave_x)
    cap = {"qr": []}

    def h_qr(it, e, ins):
        cap["qr"].append(it.sym(ins[0]))
        if len(cap["qr"]) == 2:
            raise _Stop()
        a = ins[0]
        k = a.shape[-1]
        q = np.empty(tuple(e.outvars[0].aval.shape), dtype=object)
        q[...] = sp.zero
        r = np.empty(tuple(e.outvars[1].aval.shape), dtype=object)
        r[...] = sp.zero
        return [q, r]
    fn = lambda hm, pdd, ff, wv: prop.propagate_free(trial, hm, pdd, ff, wv)
    try:
        evaluate(sp, fn, (ham_s, pd_s, V("x"), wave_s), (ham_x, pd_x, jnp.zeros((1, nchol)), wave_x), intercept={"qr": h_qr},
                 literal_hook=S.literal, prim_hook={"sqrt": S.prim_sqrt, "exp": S.prim_exp})
        raise Unsupported("propagate_free ended without re-orthonormalising")
    except _Stop:
        pass
    F = Fock(norb, nel)
    wu_n, wd_n = cap["qr"][0][0], cap["qr"][1][0]
    phin = F.det_vec(wu_n, wd_n)
    phi0 = F.det_vec(V("wu")[0], V("wd")[0])
    Hphi = F.ham(V("h0")[()], h1, L, phi0)
    xn = [d["x"]["names"].reshape(-1)[g] for g in range(nchol)]
    s2 = S.s * S.s
    bad = []
    for I in range(F.dim):
        diff = S.expect(phin[I], xn) - (phi0[I] - s2 * (Hphi[I] - e0 * phi0[I]))
        for k in range(K + 1):
            if S.order(diff, k) != 0:
                bad.append((I, k))
    tagn = f"[norb={norb},nel={nu}+{nd},nchol={nchol}]"
    fns = ["propagation.propagator_unrestricted.propagate_free", "propagation.propagator_unrestricted._build_propagation_intermediates",
           "propagation.propagator_unrestricted._multiply_constant", "propagation.propagator_unrestricted._apply_trotprop"]
    o = ob(f"C05.fp.step.series{tagn}", REFUTED if bad else DISCHARGED, kind="bounded", backend="ring-series", wall=time.time() - t0, functions=fns, witness_class="series-order",
           detail=(f"orders s^0..s^{K} of E_x[un-normalised walker] match exp(-dt (H - ene0)) |phi> in all {F.dim} Fock components, any rdm1, open shell") if not bad else
                  f"mismatch at (Fock component, order of s): {bad[:6]}", witness=dict(mismatch=bad[:10]) if bad else None)
    if bad:
        _replay_c05(o)
    return [o]


def _replay_c05(o):
    """native witness: product over the electrons of the per-column constants must be exp(-sqrt(dt) x.mf_shifts) exp(dt (h0_prop + ene0))"""
    try:
        from contracts import native
        native.setup()
        import jax.numpy as jnp
        from ad_afqmc import propagation, wavefunctions as wf
        rng = np.random.default_rng(6)
        norb, nel, nchol, dt = 3, (2, 1), 2, 0.01
        h = rng.normal(size=(2, norb, norb)); h = h + h.transpose(0, 2, 1)
        L = rng.normal(size=(nchol, norb, norb)); L = L + L.transpose(0, 2, 1)
        rho = rng.normal(size=(2, norb, norb)); rho = rho + rho.transpose(0, 2, 1)
        prop = propagation.propagator_unrestricted(dt=dt, n_walkers=1)
        trial = wf.uhf(norb, nel)
        ham = prop._build_propagation_intermediates(dict(h0=0.2, h1=jnp.array(h), chol=jnp.array(L.reshape(nchol, -1)), ene0=-0.7), trial, dict(rdm1=jnp.array(rho)))
        x = rng.normal(size=(1, nchol))
        st = np.einsum("wg,sg->sw", x, np.asarray(ham["mf_shifts_fp"]))
        c = np.exp(-np.sqrt(dt) * st) * np.exp(dt * np.asarray(ham["h0_prop_fp"]))[:, None]
        total = c[0, 0] ** nel[0] * c[1, 0] ** nel[1]
        want = np.exp(-np.sqrt(dt) * (x[0] @ np.asarray(ham["mf_shifts"]))) * np.exp(dt * (complex(ham["h0_prop"]) - 0.7))
        dev = abs(total - want) / abs(want)
        o["replayed"] = bool(dev > 1e-10)
        o["witness"] = dict(o.get("witness") or {}, native=dict(nelec=nel, product_of_column_constants=str(total), expected=str(want), rel_dev=float(dev)))
    except Exception as e:   # noqa
        o["witness"] = dict(o.get("witness") or {}, native_error=repr(e)[:300])


def free_bookkeeping(norb=2, nu=1, nd=1):
    """C05.fp.norm / fp.overlap: with qr replaced by its contract (fresh Q, upper triangular R): walkers' = Q, norms' = norms * det R_up * det R_dn,
    overlaps' = overlap(Q) * norms' (so, with C13 covariance overlap(QR) = overlap(Q) det R, the stored overlap is the overlap of the
    un-normalised product); k consecutive steps follow by induction since norms only ever multiplies"""
    t0 = time.time()
    H.setup_repo()
    sfx = "" if (norb, nu, nd) == (2, 1, 1) else f"[norb={norb},nel={nu}+{nd}]"
    import jax
    import jax.numpy as jnp
    from ad_afqmc import propagation, wavefunctions as wf
    inp = H.Inputs(11)
    nel = (nu, nd)
    hq = [inp.declare("qu", (1, norb, nu), "holo"), inp.declare("qd", (1, norb, nd), "holo")]
    hr = [inp.declare("ru", (1, nu, nu), "holo"), inp.declare("rd", (1, nd, nd), "holo")]
    hn, hon, hw = inp.declare("nrm", (1,), "holo"), inp.declare("on", (1,), "holo"), [inp.declare("au", (1, norb, nu), "holo"), inp.declare("ad", (1, norb, nd), "holo")]
    inp.build()
    sp = inp.sp
    R = []
    for h in hr:
        r = h["V"].s.copy()
        for i in range(r.shape[1]):
            for j in range(i):
                r[0, i, j] = sp.zero
        R.append(r)
    prop = propagation.propagator_unrestricted(dt=0.01, n_walkers=1)
    trial = wf.uhf(norb, nel)
    calls = {"qr": 0, "ov": []}

    def _block_of(arr):
        """which propagated spin block a matrix depends on (the contract of qr is applied to the block that is actually passed)"""
        names = sp.names
        seen = set()
        for v in np.asarray(arr, dtype=object).reshape(-1):
            if isinstance(v, Fr):
                for mono in v.n.keys():
                    seen.update(names[i] for i, ex in enumerate(mono) if ex)
        # a block is recognised by the propagated walker symbols or, for a re-orthonormalisation of an already orthonormal block, by its Q symbols
        ks = {k for k in range(2) if any(nm in seen for nm in list(np.asarray(hw[k]["names"]).reshape(-1)) + list(np.asarray(hq[k]["names"]).reshape(-1)))}
        if len(ks) != 1:
            raise Unsupported(f"qr called on a matrix that depends on {sorted(ks)} propagated spin blocks")
        return ks.pop()

    def h_qr(it, e, ins):
        k = _block_of(ins[0])
        calls["qr"] += 1
        return [hq[k]["V"].s, R[k]]

    def h_ov(it, e, ins):
        calls["ov"].append([it.sym(x) if not is_obj(x) else x for x in ins[:2]])
        return [hon["V"].s.reshape(tuple(e.outvars[0].aval.shape))]

    def h_trot(it, e, ins):
        return [hw[0]["V"].s, hw[1]["V"].s]
    ham_x = dict(mf_shifts_fp=jnp.zeros((2, 1)) + 0j, h0_prop_fp=jnp.zeros(2) + 0j, chol=jnp.zeros((1, norb * norb)), exp_h1=jnp.array([jnp.eye(norb)] * 2))
    ham_s = jax.tree_util.tree_map(np.asarray, ham_x)
    pd_s = dict(walkers=[hw[0]["V"].s, hw[1]["V"].s], norms=hn["V"].s, overlaps=np.ones(1) + 0j)
    pd_x = dict(walkers=[jnp.zeros((1, norb, nu)) + 0j, jnp.zeros((1, norb, nd)) + 0j], norms=jnp.ones(1) + 0j, overlaps=jnp.ones(1) + 0j)
    wave_x = dict(mo_coeff=[jnp.eye(norb)[:, :nu], jnp.eye(norb)[:, :nd]])
    wave_s = jax.tree_util.tree_map(np.asarray, wave_x)
    fn = lambda hm, pdd, ff, wv: prop.propagate_free(trial, hm, pdd, ff, wv)
    out, it = evaluate(sp, fn, (ham_s, pd_s, np.zeros((1, 1)), wave_s), (ham_x, pd_x, jnp.zeros((1, 1)), wave_x),
                       intercept={"qr": h_qr, "_calc_overlap": h_ov, "_apply_trotprop": h_trot})
    fns = ["propagation.propagator_unrestricted.propagate_free", "propagation.propagator_unrestricted._orthogonalize_walkers", "linalg_utils.qr_vmap_uhf"]
    detR = det_sym(R[0][0]) * det_sym(R[1][0])
    nrm_new = hn["V"].s[0] * detR
    res = [H.identity("C05.fp.norm" + sfx, np.asarray(out["norms"], dtype=object).reshape(-1), np.array([nrm_new], dtype=object), functions=fns, inputs=inp, t0=t0,
                      note="norms' = norms * det R_up * det R_dn"),
           H.identity("C05.fp.walkers" + sfx, np.concatenate([np.asarray(out["walkers"][0], dtype=object).reshape(-1), np.asarray(out["walkers"][1], dtype=object).reshape(-1)]),
                      np.concatenate([hq[0]["V"].s.reshape(-1), hq[1]["V"].s.reshape(-1)]), functions=fns, inputs=inp, t0=t0, note="stored walkers are the orthonormal Q factors"),
           H.identity("C05.fp.overlap" + sfx, np.asarray(out["overlaps"], dtype=object).reshape(-1), np.array([hon["V"].s[0] * nrm_new], dtype=object), functions=fns, inputs=inp, t0=t0,
                      note="overlaps' = overlap(Q) * norms'  (= overlap of the un-normalised product, by the covariance contract of C13)")]
    if any(o["status"] == REFUTED for o in res):
        try:
            from contracts import native
            dev, rec = native.free_projection_deviation()
            for o in res:
                if o["status"] == REFUTED:
                    o["replayed"] = bool(dev > 1e-9)
                    o["witness"] = dict(o.get("witness") or {}, native=rec)
        except Exception as e:   # noqa
            for o in res:
                if o["status"] == REFUTED:
                    o["witness"] = dict(o.get("witness") or {}, native_error=repr(e)[:300])
    ok_arg = len(calls["ov"]) >= 1 and all((a - b).iszero() for a, b in zip(calls["ov"][0][0].reshape(-1), hq[0]["V"].s.reshape(-1)))
    res.append(ob("C05.fp.overlap.arg" + sfx, DISCHARGED if ok_arg else REFUTED, kind="bounded", backend="ring", functions=fns,
                  detail="the overlap is evaluated on the orthonormalised walkers returned by the QR"))
    return res


def taylor(n_exp_terms=6, norb=2, nocc=1):
    """C05.fp.taylor: _apply_trotprop_det(B, vhs, phi) == B sum_{n < n_exp_terms} vhs^n/n! B phi  (polynomial identity in B, vhs, phi)"""
    t0 = time.time()
    H.setup_repo()
    import jax.numpy as jnp
    from ad_afqmc import propagation
    inp = H.Inputs(12)
    hb, hv, hw = inp.declare("b", (norb, norb)), inp.declare("v", (norb, norb), "holo"), inp.declare("w", (norb, nocc), "holo")
    inp.build()
    sp = inp.sp
    prop = propagation.propagator_restricted(dt=0.01, n_walkers=1, n_exp_terms=n_exp_terms)
    name = f"C05.fp.taylor[n_exp_terms={n_exp_terms}]"
    fns = ["propagation.propagator._apply_trotprop_det"]
    try:
        out, _ = evaluate(sp, prop._apply_trotprop_det, (hb["V"].s, hv["V"].s, hw["V"].s), (jnp.asarray(hb["V"].x), jnp.asarray(hv["V"].x) + 0j, jnp.asarray(hw["V"].x) + 0j))
    except Unsupported:
        raise
    except Exception as e:   # noqa  - the real function cannot be traced for this (valid) number of terms: its native behaviour
        return [ob(name, REFUTED, kind="bounded", backend="jax-trace", functions=fns, wall=time.time() - t0, replayed=True, witness_class="raises",
                   detail=f"tracing _apply_trotprop_det with n_exp_terms={n_exp_terms} raises {type(e).__name__}: {str(e)[:200]}", witness=dict(error=repr(e)[:300]))]
    B, Vh, w = hb["V"].s, hv["V"].s, hw["V"].s
    acc = B.dot(w)
    term = acc
    tot = acc
    for n in range(1, n_exp_terms):
        term = Vh.dot(term) * sp.const(Fraction(1, n))
        tot = tot + term
    want = B.dot(tot)
    o = H.identity(name, out, want, functions=fns, inputs=inp, t0=t0,
                   note="B (sum_{n<n_exp_terms} vhs^n/n!) B phi; the distance to the exact exponential is the Taylor remainder (stated lemma)")
    if o["status"] == REFUTED:
        from contracts.allsizes import _replay_taylor
        o["replayed"] = _replay_taylor(n_exp_terms)
    return [o]


def c04_canary():
    """vacuity guard: at order s^4 = dt^2 the identity must FAIL (the Trotter / Hubbard-Stratonovich error is really there)"""
    o = [x for x in phaseless_step(restricted=False, nchol=1, K=4) if ".step.series" in x["name"]][0]
    o["name"] = "C04.canary.order_s4_must_differ"
    o["kind"] = "canary"
    return [o]


def c05_canary():
    o = free_step(norb=2, nu=1, nd=1, nchol=1, K=4)[0]
    o["name"] = "C05.canary.order_s4_must_differ"
    o["kind"] = "canary"
    return [o]


def free_coherence(**kw):
    """C08.free.*: the free-projection path keeps (walkers, norms, overlaps) coherent: after propagate_free the cached overlap equals
    overlap(stored orthonormal walkers) x norms with norms' = norms x det R_up x det R_dn, i.e. the overlap of the un-normalised walker that the
    block estimator weights with.  Same contract as C05.fp.norm / fp.overlap (shape-bounded, kind bounded), claimed under C08 for the free path."""
    out = []
    for o in free_bookkeeping(**kw):
        o = dict(o)
        o["name"] = o["name"].replace("C05.fp.", "C08.free.")
        out.append(o)
    return out

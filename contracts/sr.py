"""C07 – sidecar contracts for ad_afqmc/sr.py, the SR wrappers in propagation.py and config.not_a_comm (Engine A, reals).

Ghost definitions (statement of the property):  c_k = sum_{j<=k} |w_j|,  W = c_{N-1},  z_i = W (i+zeta)/N,
idx_i = min{k : c_k >= z_i}.  The real function bodies are executed symbolically over arrays of symbolic length N
(walkers = uninterpreted tags, weights = uninterpreted reals); cumsum / searchsorted / vmap / gather are library models
(assumed contracts, vc/pyvc/arrmodels.py).
"""
from __future__ import annotations

import z3

from vc.pyvc.engine import run_scenario, to_z3, is_z3, SymSeq, Obj, Interp, discharge
from vc.pyvc import arrmodels as AM
from vc.pyvc.arrmodels import arr, HostObj
from vc.common import ob, DISCHARGED, REFUTED, UNDECIDED, Unsupported

SR = "sr"
IMPLS = {
    "jit": ("sr.stochastic_reconfiguration", False, False),
    "jit_uhf": ("sr.stochastic_reconfiguration_uhf", True, False),
    "np": ("sr.stochastic_reconfiguration_np", False, False),
    "mpi_stub": ("sr.stochastic_reconfiguration_mpi", False, True),
    "mpi_uhf_stub": ("sr.stochastic_reconfiguration_mpi_uhf", True, True),
}


def _setup(run, uhf, zeta_open=True):
    N = run.int("N")
    run.assume(N >= 1)
    w = z3.Function("w", z3.IntSort(), z3.RealSort())
    Wu = z3.Function("Wu", z3.IntSort(), z3.RealSort())
    Wd = z3.Function("Wd", z3.IntSort(), z3.RealSort())
    d1, d2, d3 = run.int("d1"), run.int("d2"), run.int("d3")
    run.assume(d1 >= 1, d2 >= 1, d3 >= 1)
    weights = arr(N, lambda i: w(to_z3(i)))
    wu = arr(N, lambda i: Wu(to_z3(i)), (d1, d2))
    wd = arr(N, lambda i: Wd(to_z3(i)), (d1, d3))
    zeta = run.real("zeta")
    run.assume(zeta >= 0, zeta < 1)
    walkers = [wu, wd] if uhf else wu
    return dict(N=N, w=w, Wu=Wu, Wd=Wd, weights=weights, walkers=walkers, zeta=zeta)


def _ghost(run, S):
    """the cumulative array the code built must be the cumsum of |w| (checked), and serves as the ghost c"""
    cs = run.registry.get("cumsum", [])
    if len(cs) != 1:
        raise Unsupported(f"expected exactly one cumsum in the body, found {len(cs)}")
    c = cs[0]
    j = run.fresh("gj")
    N = S["Ntot"]
    arg = to_z3(c["arg"].at(j))
    wj = S["wglob"](j)
    run.prove("ghost.cumsum_of_abs", z3.Implies(z3.And(j >= 0, j < N), arg == z3.If(wj >= 0, wj, -wj)),
              note="the array handed to cumsum is |weights| (so c_k = sum_{j<=k} |w_j|)")
    run.prove("ghost.cumsum_len", to_z3(c["arg"].length) == N, note="cumsum over the whole (global) population")
    return c["func"]


def _post(run, S, res, uhf, strict_zeta):
    """postconditions taken from the property statement"""
    N, zeta = S["Ntot"], S["zeta"]
    c = _ghost(run, S)
    Wt = c(N - 1)
    run.assume(Wt > 0)                                   # total absolute weight positive (statement: population alive)
    walkers2, weights2 = res
    i, k = run.int("i"), run.int("k")
    run.assume(i >= S["lo"], i < S["hi"], k >= 0, k < N)  # i: global tooth number handled by this rank
    z = Wt * (z3.ToReal(i) + zeta) / z3.ToReal(N)
    loc = i - S["lo"]
    # the index the code used for tooth i
    spec_k = z3.And(c(k) >= z, z3.Or(k == 0, c(k - 1) < z))        # k = min{k: c_k >= z_i}
    outs = [walkers2[0], walkers2[1]] if uhf else [walkers2]
    srcs = [S["Wu"], S["Wd"]] if uhf else [S["Wu"]]
    for tagn, o, src in zip(("up", "dn"), outs, srcs):
        run.prove(f"copy.{tagn}" if uhf else "copy", z3.Implies(spec_k, to_z3(o.at(loc)) == src(k)),
                  note="walkers'[i] = walkers[idx_i], idx_i = min{k : c_k >= z_i} (same idx for both spin blocks)")
        run.prove(f"len.{tagn}" if uhf else "len", to_z3(o.length) == S["hi"] - S["lo"], note="population size unchanged")
    run.prove("uniform", to_z3(weights2.at(loc)) == Wt / z3.ToReal(N), note="every survivor gets W/N")
    run.prove("len.weights", to_z3(weights2.length) == S["hi"] - S["lo"])
    run.prove("sum", z3.ToReal(N) * (Wt / z3.ToReal(N)) == Wt, note="N survivors of weight W/N: total absolute weight conserved")
    # existence of idx_i in range: z_i <= c_{N-1}
    run.prove("range", z <= Wt, note="z_i <= W = c_{N-1}: the comb never runs off the end (so idx_i <= N-1)")


def impl(which):
    """C07.sr.<impl>.*: one implementation against the comb spec"""
    qual, uhf, mpi = IMPLS[which]

    def sc(run):
        S = _setup(run, uhf)
        S.update(Ntot=S["N"], wglob=S["w"], lo=z3.IntVal(0), hi=S["N"])
        args = [S["walkers"], S["weights"], S["zeta"]]
        if mpi:
            comm = run.construct("config", "not_a_comm")
            args.append(comm)
        res = run.call(qual, *args)
        _post(run, S, res, uhf, False)
    return run_scenario(f"C07.sr.{which}", sc, functions=[qual] + (["config.not_a_comm.Gather", "config.not_a_comm.Scatter",
                        "config.not_a_comm.Get_size", "config.not_a_comm.Get_rank"] if mpi else []), no_exception="noexc", timeout_ms=30000)


class MpiComm(HostObj):
    """ASSUMED mpi4py contract, seen from one rank of R: Gather(send, recv, root=0) concatenates the ranks' send buffers in
    rank order into root's recv; Scatter(send, recv, root=0) gives rank r rows [r n, (r+1) n) of root's send buffer.
    The other ranks' data are the uninterpreted global population; root's send buffers are recorded on the root run."""

    def __init__(self, run, R, r, n, glob, root_send=None):
        self.run, self.R, self.r, self.n, self.glob = run, R, r, n, glob
        self.root_send = root_send
        self.sent = []
        self.gathers = 0

    def Get_size(self):
        return self.R

    def Get_rank(self):
        return self.r

    def Gather(self, sendbuf, recvbuf, root=0):
        g = self.glob[self.gathers]
        self.gathers += 1
        run = self.run
        # what this rank contributes must be its slice of the global population (consistency of the model)
        j = run.fresh("gs")
        run.prove("mpi.gather.send", z3.Implies(z3.And(j >= 0, j < self.n), to_z3(sendbuf.at(j)) == g(self.r * self.n + j)))
        if recvbuf is not None:
            run.prove("mpi.gather.len", to_z3(recvbuf.length) == self.R * self.n, note="root's receive buffer holds R*n rows")
            recvbuf.fn = lambda a, g=g: g(to_z3(a))

    def Scatter(self, sendbuf, recvbuf, root=0):
        k = len(self.sent)
        self.sent.append(sendbuf)
        src = sendbuf if self.root_send is None else self.root_send[k]
        if self.root_send is None and sendbuf is None:
            raise Unsupported("root scatters None")
        recvbuf.fn = lambda a, src=src: src.at(self.r * self.n + to_z3(a))


def ranks(uhf=False):
    """C07.sr.ranks: under the assumed Gather/Scatter contract, rank r of R receives rows [r n, (r+1) n) of the serial comb on
    the rank-ordered concatenated population; the comb offset used is root's."""
    qual = "sr.stochastic_reconfiguration_mpi_uhf" if uhf else "sr.stochastic_reconfiguration_mpi"

    def sc(run):
        n, R, r = run.int("n"), run.int("R"), run.int("r")
        run.assume(n >= 1, R >= 1, r >= 0, r < R)
        w = z3.Function("w", z3.IntSort(), z3.RealSort())
        Wu = z3.Function("Wu", z3.IntSort(), z3.RealSort())
        Wd = z3.Function("Wd", z3.IntSort(), z3.RealSort())
        d1, d2, d3 = run.int("d1"), run.int("d2"), run.int("d3")
        run.assume(d1 >= 1, d2 >= 1, d3 >= 1)
        zeta, zeta_other = run.real("zeta"), run.real("zeta_r")
        run.assume(zeta >= 0, zeta < 1, zeta_other >= 0, zeta_other < 1)
        glob = [Wu, Wd, w] if uhf else [Wu, w]

        def local(rr):
            wu = arr(n, lambda i: Wu(rr * n + to_z3(i)), (d1, d2))
            wd = arr(n, lambda i: Wd(rr * n + to_z3(i)), (d1, d3))
            ws = arr(n, lambda i: w(rr * n + to_z3(i)))
            return ([wu, wd] if uhf else wu), ws
        # root run (rank 0): records what root scatters
        root = MpiComm(run, R, z3.IntVal(0), n, glob)
        wk, ws = local(z3.IntVal(0))
        run.call(qual, wk, ws, zeta, root)
        n_root_cumsum = len(run.registry.get("cumsum", []))
        # rank r run: its own zeta must not matter
        me = MpiComm(run, R, r, n, glob, root_send=root.sent)
        run.assume(r >= 1)
        wk, ws = local(r)
        res = run.call(qual, wk, ws, zeta_other, me)
        run.registry["cumsum"] = run.registry["cumsum"][:n_root_cumsum]
        S = dict(N=n, Ntot=n * R, wglob=w, Wu=Wu, Wd=Wd, zeta=zeta, lo=r * n, hi=(r + 1) * n)
        _post(run, S, res, uhf, False)
    return run_scenario(f"C07.sr.ranks{'.uhf' if uhf else ''}", sc, functions=[qual], no_exception="noexc", timeout_ms=30000)


def wrappers():
    """C07.sr.key: the local/global wrappers split the key, draw zeta from the sub-key and hand walkers, weights, zeta to
    the matching sr routine; the carried key is the other half (never reused).  The wrapper bodies are EXECUTED with
    random.split / random.uniform modelled as opaque deterministic functions and the sr routine replaced by a recording contract."""
    from vc.pyvc.engine import Opaque
    from vc.pyvc import libmodels as LM
    LM._MODELS["jax.random.split"] = lambda it, a, kw: (Opaque("split0", [a[0]]), Opaque("split1", [a[0]]))
    LM._MODELS["jax.random.uniform"] = lambda it, a, kw: Opaque("uniform", [a[0]])
    out = []
    expect = {("propagator_restricted", "stochastic_reconfiguration_local"): "stochastic_reconfiguration",
              ("propagator_restricted", "stochastic_reconfiguration_global"): "stochastic_reconfiguration_mpi",
              ("propagator_unrestricted", "stochastic_reconfiguration_local"): "stochastic_reconfiguration_uhf",
              ("propagator_unrestricted", "stochastic_reconfiguration_global"): "stochastic_reconfiguration_mpi_uhf"}
    for (cls, meth), target in expect.items():
        def sc(run, cls=cls, meth=meth, target=target):
            calls = []
            for nm in ("stochastic_reconfiguration", "stochastic_reconfiguration_mpi", "stochastic_reconfiguration_uhf",
                       "stochastic_reconfiguration_mpi_uhf", "stochastic_reconfiguration_np"):
                def contract(it, *args, nm=nm, **kw):
                    calls.append((nm, args))
                    return (Opaque("sr.walkers", list(args)), Opaque("sr.weights", list(args)))
                run.contracts["sr." + nm] = contract
            key0, WK, WT, comm = Opaque("key0"), Opaque("walkers0"), Opaque("weights0"), Opaque("comm")
            pd = {"key": key0, "walkers": WK, "weights": WT}
            P = run.construct("propagation", cls)
            res = run.method(P, meth, pd, *([comm] if meth.endswith("global") else []))
            eq = lambda a, b: bool(run.equal(a, b)) if not is_z3(run.equal(a, b)) else False
            run.prove("one_call", len(calls) == 1 and calls[0][0] == target, note=f"exactly one call, of sr.{target}")
            if len(calls) == 1:
                nm, args = calls[0]
                run.prove("args.population", args[0] is WK and args[1] is WT, note="walkers and weights of prop_data are handed over")
                run.prove("args.zeta", eq(args[2], Opaque("uniform", [Opaque("split1", [key0])])), note="zeta ~ U(subkey), subkey = split(key)[1]")
                if meth.endswith("global"):
                    run.prove("args.comm", len(args) == 4 and args[3] is comm, note="the communicator is passed through")
                run.prove("result", isinstance(res, dict) and eq(res["walkers"], Opaque("sr.walkers", list(args)))
                          and eq(res["weights"], Opaque("sr.weights", list(args))), note="(walkers, weights) := result of the sr routine")
            run.prove("key.carried", isinstance(res, dict) and eq(res["key"], Opaque("split0", [key0])),
                      note="the carried key is the other half of the split (the sub-key is never reused)")
        out += run_scenario(f"C07.sr.key.{cls}.{meth}", sc, functions=[f"propagation.{cls}.{meth}"], no_exception="noexc")
    return out


def lemmas():
    """Mathematical lemmas of the comb (reals, floors); pure z3, no code."""
    out = []
    import time

    def lem(name, hyps, goal, note):
        t0 = time.time()
        st, be, det, mod, w = discharge(dict(hyps=hyps, goal=goal), 20000)
        out.append(ob("C07.sr.lemma." + name, st, backend=be, wall=w, detail=note if st == DISCHARGED else det, witness=mod, functions=[]))
    a, b, ze, x = z3.Reals("a b ze x")
    fl = lambda t: z3.ToReal(z3.ToInt(t))
    # number of teeth on walker k: integers i with a < i + zeta <= b, i.e. in (a - zeta, b - zeta]  -> floor(b-ze) - floor(a-ze)
    cnt = fl(b - ze) - fl(a - ze)
    ceil = lambda t: -fl(-t)
    lem("count.floor_or_ceil", [a <= b, ze > 0, ze < 1, a >= 0], z3.Or(cnt == fl(b - a), cnt == ceil(b - a)),
        "floor(b-z) - floor(a-z) is floor(b-a) or ceil(b-a) for 0<z<1")
    lem("count.zero_weight", [a == b, ze > 0, ze < 1], cnt == 0, "a zero-weight walker (a == b) is selected 0 times")
    # membership: integer i is counted iff a - ze < i <= b - ze
    i = z3.Int("i")
    lem("count.membership", [a <= b], z3.And(z3.Implies(z3.And(a - ze < z3.ToReal(i), z3.ToReal(i) <= b - ze),
                                                         z3.And(z3.ToReal(i) > fl(a - ze), z3.ToReal(i) <= fl(b - ze))),
                                             z3.Implies(z3.And(z3.ToReal(i) > fl(a - ze), z3.ToReal(i) <= fl(b - ze)),
                                                        z3.And(a - ze < z3.ToReal(i), z3.ToReal(i) <= b - ze))),
        "the integers in (a-z, b-z] are exactly floor(a-z)+1 .. floor(b-z)  (their number is the difference of the floors)")
    # mean over the offset: floor(x - ze) = floor(x) for ze <= frac(x), floor(x) - 1 for ze > frac(x)
    fr = x - fl(x)
    lem("mean.piece1", [ze >= 0, ze <= fr], fl(x - ze) == fl(x), "floor(x-z) = floor(x) for 0 <= z <= frac(x)")
    lem("mean.piece2", [ze > fr, ze < 1], fl(x - ze) == fl(x) - 1, "floor(x-z) = floor(x)-1 for frac(x) < z < 1")
    lem("mean.integral", [], fl(x) * fr + (fl(x) - 1) * (1 - fr) == x - 1,
        "so int_0^1 floor(x-z) dz = floor(x) frac(x) + (floor(x)-1)(1-frac(x)) = x - 1, and the mean count is (b-1)-(a-1) = b-a")
    return out


def char(which="jit"):
    """C07.sr.char / zero: idx_i = k  <=>  c_{k-1} < z_i <= c_k ; w_k = 0 => walker k never selected (0 < zeta < 1)"""
    qual, uhf, mpi = IMPLS[which]

    def sc(run):
        S = _setup(run, uhf)
        N = S["N"]
        run.assume(S["zeta"] > 0)
        res = run.call(qual, S["walkers"], S["weights"], S["zeta"])
        S.update(Ntot=N, wglob=S["w"], lo=z3.IntVal(0), hi=N)
        c = _ghost(run, S)
        Wt = c(N - 1)
        run.assume(Wt > 0)
        i, k = run.int("i"), run.int("k")
        run.assume(i >= 0, i < N, k >= 0, k < N)
        z = Wt * (z3.ToReal(i) + S["zeta"]) / z3.ToReal(N)
        # make the tags injective so that 'selected k' is observable: assume Wu(k) distinct from Wu(k') for k != k'
        k2 = run.fresh("k2")
        run.assume(z3.ForAll([k2], z3.Implies(z3.And(k2 >= 0, k2 < N, k2 != k), S["Wu"](k2) != S["Wu"](k))))
        sel = to_z3((res[0][0] if uhf else res[0]).at(i)) == S["Wu"](k)
        inter = z3.And(z <= c(k), z3.Or(k == 0, c(k - 1) < z))
        run.prove("char.fwd", z3.Implies(inter, sel), note="c_{k-1} < z_i <= c_k  =>  tooth i selects walker k")
        # nonnegativity of increments (cumsum of abs) gives the converse
        run.prove("zero", z3.Implies(z3.And(S["w"](k) == 0, k >= 1), z3.Not(inter)),
                  note="w_k = 0 => c_k = c_{k-1} => no tooth lands on k (k>=1)")
        run.prove("zero.k0", z3.Implies(z3.And(S["w"](0) == 0, k == 0), z3.Not(inter)),
                  note="w_0 = 0 => c_0 = 0 < z_i for zeta > 0")
    return run_scenario(f"C07.sr.{which}", sc, functions=[qual], timeout_ms=30000)


def canary():
    def sc(run):
        S = _setup(run, False)
        res = run.call("sr.stochastic_reconfiguration", S["walkers"], S["weights"], S["zeta"])
        S.update(Ntot=S["N"], wglob=S["w"], lo=z3.IntVal(0), hi=S["N"])
        c = _ghost(run, S)
        Wt = c(S["N"] - 1)
        run.assume(Wt > 0)
        i = run.int("i")
        run.assume(i >= 0, i < S["N"])
        run.prove("uniform_plus_1", to_z3(res[1].at(i)) == Wt / z3.ToReal(S["N"]) + 1, kind="canary")
        run.prove("sum_plus_1", z3.ToReal(S["N"]) * (Wt / z3.ToReal(S["N"])) == Wt + 1, kind="canary")
    return run_scenario("C07.canary", sc)


# ------------------------------------------------------------------ native replay / counterexample search
def native_violations(which, max_cases=60):
    """Runs the REAL implementation on a battery of concrete populations (zeros, negative signs, wild magnitudes, N=1..6,
    several offsets) and compares with the comb spec evaluated in numpy.  Returns the list of failing inputs."""
    import sys
    import numpy as np
    from vc.common import REPO
    if REPO not in sys.path:
        sys.path.insert(0, REPO)
    from ad_afqmc import config
    config.setup_jax()
    import jax.numpy as jnp
    from ad_afqmc import sr as SRM
    qual, uhf, mpi = IMPLS[which]
    fn = getattr(SRM, qual.split(".")[1])
    rng = np.random.default_rng(7)
    cases = []
    for N in (1, 2, 3, 5, 6):
        for kind in ("pos", "zeros", "signs", "wild"):
            w = rng.uniform(0.1, 2.0, size=N)
            if kind == "zeros" and N > 1:
                w[rng.integers(0, N)] = 0.0
            if kind == "signs":
                w = w * rng.choice([-1.0, 1.0], size=N)
                w[0] = -abs(w[0])
            if kind == "wild":
                w = w * 10.0 ** rng.integers(-6, 6, size=N)
            for zeta in (0.03, 0.5, 0.97):
                cases.append((w, zeta))
    bad = []
    for w, zeta in cases[:max_cases]:
        N = len(w)
        wu = np.arange(N, dtype=float).reshape(N, 1, 1) * np.ones((N, 2, 1)) + 0.25
        wd = -np.arange(N, dtype=float).reshape(N, 1, 1) * np.ones((N, 2, 1)) - 0.5
        c = np.cumsum(np.abs(w))
        W = c[-1]
        idx = [int(np.searchsorted(c, W * (i + zeta) / N)) for i in range(N)]
        try:
            if uhf:
                args = [[jnp.array(wu), jnp.array(wd)], jnp.array(w), zeta]
            else:
                args = [jnp.array(wu), jnp.array(w), zeta]
            if mpi:
                args.append(config.not_a_comm())
            wk, wt = fn(*args)
            outs = [np.asarray(wk[0]), np.asarray(wk[1])] if uhf else [np.asarray(wk)]
            refs = [wu[idx], wd[idx]] if uhf else [wu[idx]]
            ok = all(np.array_equal(o, r) for o, r in zip(outs, refs)) and np.allclose(np.asarray(wt), W / N, rtol=1e-12, atol=0)
        except Exception as e:   # noqa
            ok = False
            wt = repr(e)
        if not ok:
            bad.append(dict(impl=which, weights=w.tolist(), zeta=zeta, expected_indices=idx, expected_weight=W / N,
                            got_weights=str(np.asarray(wt))[:200]))
            if len(bad) >= 3:
                break
    return bad


def replay(o):
    """native replay for a refuted or undecided C07 obligation of one implementation"""
    parts = o["name"].split(".")
    which = next((w for w in IMPLS if w in parts), None)
    if which is None and "ranks" in parts:
        which = "mpi_uhf_stub" if "uhf" in parts else "mpi_stub"
    if which is None:
        return
    bad = native_violations(which)
    if bad:
        o["replayed"] = True
        if o["status"] == UNDECIDED:
            o["detail"] = "solver undecided (" + (o["detail"] or "")[:120] + "); native search found a failing input"
            o["status"] = REFUTED
        o["witness"] = dict(o.get("witness") or {}, native=bad[:2]) if isinstance(o.get("witness"), dict) else dict(model=o.get("witness"), native=bad[:2])
    elif o["status"] == REFUTED:
        o["replayed"] = False

"""All-sizes obligations (kind 'proof'): tensor normal forms with symbolic sizes (vc/jxvc/tensorform.py) of the REAL traced functions.

uhf_wick(what)   uhf._build_measurement_intermediates composed with uhf._calc_energy / _calc_force_bias, the Green's-function callee
                 replaced by fresh half Green's functions G_s (its contract is C02.green):  the result equals the Wick form
                   E = h0 + sum_s tr(h1_s^T Gf_s) + 1/2 sum_g [(sum_s tr(L_g^T Gf_s))^2 - sum_s tr(L_g Gf_s^T... )],  Gf_s = conj(C_s) G_s
                 for ALL norb, electron numbers and numbers of Cholesky vectors (complex orbitals, symmetric h1 and Cholesky matrices).
"""
from __future__ import annotations

import time
from fractions import Fraction

import numpy as np

from vc.common import ob, DISCHARGED, REFUTED, UNDECIDED, Unsupported
from vc.jxvc import harness as H
from vc.jxvc import tensorform as T

WF = "wavefunctions"


def _trace_uhf(what, sizes, restricted_kind=False):
    import jax
    import jax.numpy as jnp
    from ad_afqmc import wavefunctions as wf
    n, a, b, g = sizes["n"], sizes["a"], sizes["b"], sizes["g"]
    trial = wf.uhf(n, (a, b))
    ham = dict(chol=jnp.zeros((g, n * n)), h0=jnp.zeros(()), h1=jnp.zeros((2, n, n)))
    wave = dict(mo_coeff=[jnp.zeros((n, a)) + 0j, jnp.zeros((n, b)) + 0j])
    wu, wd = jnp.zeros((n, a)) + 0j, jnp.zeros((n, b)) + 0j
    meth = trial._calc_energy if what == "energy" else trial._calc_force_bias

    def f(hm, wv, x, y):
        hm = trial._build_measurement_intermediates(hm, wv)
        return meth(x, y, hm, wv), hm["rot_h1"], hm["rot_chol"]
    closed = jax.make_jaxpr(f)(ham, wave, wu, wd)
    return closed


def _atoms():
    T.SYMMETRIC.update({"h1_up": (0, 1), "h1_dn": (0, 1), "L": (1, 2)})
    A = dict(
        L=T.atom("L", ["g", "n", "n"], composite=[[0], [1, 2]]), h0=T.atom("h0", []),
        h1=T.Stack([T.atom("h1_up", ["n", "n"]), T.atom("h1_dn", ["n", "n"])]),
        Cu=T.atom("Cu", ["n", "a"]), Cd=T.atom("Cd", ["n", "b"]), wu=T.atom("wu", ["n", "a"]), wd=T.atom("wd", ["n", "b"]),
        Gu=T.atom("Gu", ["a", "n"]), Gd=T.atom("Gd", ["b", "n"]))
    return A


def uhf_wick(what="energy"):
    """C02.en.allsizes.uhf / C03.fb.allsizes.uhf (PROOF: all norb, n_up, n_dn, nchol; all values)"""
    t0 = time.time()
    H.setup_repo()
    prop = "C02.en" if what == "energy" else "C03.fb"
    name = f"{prop}.allsizes.uhf"
    fns = [f"{WF}.uhf._build_measurement_intermediates", f"{WF}.uhf._calc_energy" if what == "energy" else f"{WF}.uhf._calc_force_bias"]
    results = []
    for sizes in (dict(n=5, a=2, b=3, g=7), dict(n=7, a=3, b=2, g=5)):
        try:
            closed = _trace_uhf(what, sizes)
        except Exception as e:   # noqa  - the real function cannot even be traced at these (valid) sizes: that is its native behaviour
            return [ob(name, REFUTED, kind="proof", backend="jax-trace", functions=fns, wall=time.time() - t0, replayed=True, witness_class="raises",
                       detail=f"tracing the real function at (norb, n_up, n_dn, nchol) = {tuple(sizes[k] for k in 'nabg')} raises {type(e).__name__}: {str(e)[:200]}",
                       witness=dict(sizes=sizes, error=repr(e)[:300]))]
        A = _atoms()
        green_calls = []

        def h_green(it, e, ins):
            # contract of the callee applied only to the arguments it is stated for: (walker_up, walker_dn, mo_coeff...)
            if not (_is(ins[0], A["wu"]) and _is(ins[1], A["wd"])):
                raise Unsupported("the Green's-function callee is not called with (walker_up, walker_dn)")
            green_calls.append(len(ins))
            return [A["Gu"], A["Gd"]]
        def h_trace(it, e, ins):
            # jnp.trace (possibly batched by vmap over leading axes): contract of the library callee = sum of the diagonal of the last two axes
            x = ins[0]
            if not isinstance(x, T.TT) or len(e.outvars) != 1:
                return None
            nd = len(x.axes)
            if len(e.outvars[0].aval.shape) != nd - 2:
                return None
            return [T.trace(x, nd - 2, nd - 1)]
        it = T.Interp(sizes, intercept={"_calc_green": h_green, "trace": h_trace})
        try:
            # pytree leaf order: ham (chol, h0, h1), wave (mo_coeff[0], mo_coeff[1]), walkers
            val, rot_h1_u, rot_h1_d, rot_chol_u, rot_chol_d = it.run(closed.jaxpr, closed.consts, [A["L"], A["h0"], A["h1"], A["Cu"], A["Cd"], A["wu"], A["wd"]])
        except Unsupported as e:
            return [ob(name, UNDECIDED, kind="proof", backend="tensor-normal-form", detail=f"Unsupported: {e}", functions=fns, wall=time.time() - t0)]
        if len(green_calls) != 1:
            return [ob(name, UNDECIDED, kind="proof", backend="tensor-normal-form", detail=f"Green's-function callee seen {len(green_calls)} times", functions=fns)]
        # spec (independent einsum builder)
        Cb = [T.conj(A["Cu"]), T.conj(A["Cd"])]
        G = [A["Gu"], A["Gd"]]
        Gf = [T.ein("pi,iq->pq", Cb[s], G[s]) for s in range(2)]
        L = A["L"]
        X = [T.ein("gpq,pq->g", L, Gf[s]) for s in range(2)]
        if what == "fb":
            want = T.add(X[0], X[1])
        else:
            e1 = T.add(T.ein("pq,pq->", A["h1"][0], Gf[0]), T.ein("pq,pq->", A["h1"][1], Gf[1]))
            Xs = T.add(X[0], X[1])
            coul = T.ein("g,g->", Xs, Xs)
            exc = T.add(T.ein("gpq,grt,pt,rq->", L, L, Gf[0], Gf[0]), T.ein("gpq,grt,pt,rq->", L, L, Gf[1], Gf[1]))
            want = T.add(T.add(A["h0"], e1), T.scale(T.add(coul, exc, -1), Fraction(1, 2)))
        rot_ok = all(T.equal(got, w) for got, w in ((rot_h1_u, T.ein("pi,pq->iq", Cb[0], A["h1"][0])), (rot_h1_d, T.ein("pi,pq->iq", Cb[1], A["h1"][1])),
                                                    (rot_chol_u, T.ein("pi,gpq->giq", Cb[0], L)), (rot_chol_d, T.ein("pi,gpq->giq", Cb[1], L))))
        results.append((val, want, rot_ok, dict(it.seen)))
    (v1, w1, r1, s1), (v2, w2, r2, s2) = results
    out = []
    uniform = T.describe(v1) == T.describe(v2) and s1 == s2
    out.append(ob(name + ".uniform", DISCHARGED if uniform else UNDECIDED, kind="proof", backend="tensor-normal-form", functions=fns, wall=time.time() - t0,
                  detail=f"same traced program and normal form at (norb, n_up, n_dn, nchol) = (5,2,3,7) and (7,3,2,5); primitives {s1}"))
    out.append(ob(name + ".rot", DISCHARGED if (r1 and r2) else REFUTED, kind="proof", backend="tensor-normal-form", functions=fns[:1], wall=time.time() - t0,
                  replayed=None, detail="rot_h1[s] == conj(C_s)^T h1_s and rot_chol[s][g] == conj(C_s)^T L_g for all sizes (h1 symmetric per spin)", witness_class="" if (r1 and r2) else "normal-form"))
    ok = T.equal(v1, w1)
    nterms = len(T.canonical(v1)[1])
    o = ob(name, DISCHARGED if ok else REFUTED, kind="proof", backend="tensor-normal-form", functions=fns, wall=time.time() - t0,
           detail=(f"{'energy' if what == 'energy' else 'force bias'} of the real code == Wick form in the full Green's function conj(C_s) G_s: {nterms} canonical terms agree, for all sizes and all values "
                   f"(complex orbitals and walkers, spin-dependent symmetric h1, symmetric Cholesky matrices)") if ok else
                  f"normal forms differ: code {str(T.describe(v1))[:500]} vs Wick form {str(T.describe(w1))[:500]}",
           witness=None if ok else dict(got=str(T.describe(v1))[:800], want=str(T.describe(w1))[:800]), witness_class="" if ok else "normal-form")
    if not ok:
        _replay_uhf(o, what)
    out.append(o)
    return out


def _replay_uhf(o, what):
    """native replay of a refuted all-sizes identity: the real functions at a random point against the Wick form evaluated with numpy"""
    try:
        import jax.numpy as jnp
        from ad_afqmc import wavefunctions as wf
        rng = np.random.default_rng(11)
        n, a, b, g = 5, 3, 2, 2
        trial = wf.uhf(n, (a, b))
        h1 = rng.normal(size=(2, n, n)); h1 = h1 + h1.transpose(0, 2, 1)
        L = rng.normal(size=(g, n, n)); L = L + L.transpose(0, 2, 1)
        C = [rng.normal(size=(n, a)) + 1j * rng.normal(size=(n, a)), rng.normal(size=(n, b)) + 1j * rng.normal(size=(n, b))]
        w = [rng.normal(size=(n, a)) + 1j * rng.normal(size=(n, a)), rng.normal(size=(n, b)) + 1j * rng.normal(size=(n, b))]
        ham = dict(h0=0.3, h1=jnp.asarray(h1), chol=jnp.asarray(L.reshape(g, -1)))
        wave = dict(mo_coeff=[jnp.asarray(C[0]), jnp.asarray(C[1])])
        hm = trial._build_measurement_intermediates(dict(ham), wave)
        got = np.asarray((trial._calc_energy if what == "energy" else trial._calc_force_bias)(jnp.asarray(w[0]), jnp.asarray(w[1]), hm, wave))
        Gf = [C[s].conj() @ np.linalg.inv(C[s].conj().T @ w[s]).T @ w[s].T for s in range(2)]     # Gf[p,q] = <a+_p a_q>
        Gf = [(w[s] @ np.linalg.inv(C[s].conj().T @ w[s]) @ C[s].conj().T).T for s in range(2)]
        X = sum(np.einsum("gpq,pq->g", L, Gf[s]) for s in range(2))
        if what == "fb":
            want = X
        else:
            want = 0.3 + sum(np.sum(h1[s] * Gf[s]) for s in range(2)) + 0.5 * (np.sum(X * X) - sum(np.einsum("gpq,grt,pt,rq->", L, L, Gf[s], Gf[s]) for s in range(2)))
        dev = float(np.max(np.abs(got - want)))
        o["replayed"] = bool(dev > 1e-9)
        o["witness"] = dict(o.get("witness") or {}, native=dict(norb=n, nelec=(a, b), nchol=g, max_abs_deviation=dev))
    except Exception as e:   # noqa
        o["witness"] = dict(o.get("witness") or {}, native_error=repr(e)[:300])


def _is(x, atom_tt):
    """x is (symbolically) the given input tensor"""
    try:
        return isinstance(x, T.TT) and T.equal(x, atom_tt)
    except Unsupported:
        return False


def _wick_spec(what, h0, h1, L, Gf):
    X = [T.ein("gpq,pq->g", L, Gf[s]) for s in range(2)]
    if what == "fb":
        return T.add(X[0], X[1])
    e1 = T.add(T.ein("pq,pq->", h1[0], Gf[0]), T.ein("pq,pq->", h1[1], Gf[1]))
    Xs = T.add(X[0], X[1])
    coul = T.ein("g,g->", Xs, Xs)
    exc = T.add(T.ein("gpq,grt,pt,rq->", L, L, Gf[0], Gf[0]), T.ein("gpq,grt,pt,rq->", L, L, Gf[1], Gf[1]))
    return T.add(T.add(h0, e1), T.scale(T.add(coul, exc, -1), Fraction(1, 2)))


def rhf_wick(what="energy", restricted=True):
    """C02.en.allsizes.rhf / C03.fb.allsizes.rhf (PROOF, all norb, nocc, nchol): restricted entry point (one walker block standing for both spins)
    and unrestricted entry point (two blocks); spin-independent h1 (as the statement lists RHF), complex orbitals and walkers."""
    t0 = time.time()
    H.setup_repo()
    import jax
    import jax.numpy as jnp
    from ad_afqmc import wavefunctions as wf
    prop = "C02.en" if what == "energy" else "C03.fb"
    name = f"{prop}.allsizes.rhf[r={int(restricted)}]"
    base = {"energy": "_calc_energy", "fb": "_calc_force_bias"}[what] + ("_restricted" if restricted else "")
    fns = [f"{WF}.rhf._build_measurement_intermediates", f"{WF}.rhf.{base}"]
    results = []
    for sizes in (dict(n=5, a=2, g=7), dict(n=7, a=3, g=5)):
        n, a, g = sizes["n"], sizes["a"], sizes["g"]
        trial = wf.rhf(n, (a, a))
        ham = dict(chol=jnp.zeros((g, n * n)), h0=jnp.zeros(()), h1=jnp.zeros((2, n, n)))
        wave = dict(mo_coeff=jnp.zeros((n, a)) + 0j)
        w = jnp.zeros((n, a)) + 0j
        meth = getattr(trial, base)

        def f(hm, wv, *ws):
            hm = trial._build_measurement_intermediates(hm, wv)
            return meth(*ws, hm, wv)
        try:
            closed = jax.make_jaxpr(f)(ham, wave, *([w] if restricted else [w, w]))
        except Exception as e:   # noqa
            return [ob(name, REFUTED, kind="proof", backend="jax-trace", functions=fns, wall=time.time() - t0, replayed=True, witness_class="raises",
                       detail=f"tracing the real function at (norb, nocc, nchol) = {(n, a, g)} raises {type(e).__name__}: {str(e)[:200]}", witness=dict(sizes=sizes, error=repr(e)[:300]))]
        T.SYMMETRIC.update({"h1": (0, 1), "L": (1, 2)})
        h1a = T.atom("h1", ["n", "n"])
        A = dict(L=T.atom("L", ["g", "n", "n"], composite=[[0], [1, 2]]), h0=T.atom("h0", []), h1=T.Stack([h1a, h1a]), C=T.atom("C", ["n", "a"]),
                 wu=T.atom("wu", ["n", "a"]), wd=T.atom("wd", ["n", "a"]), G=[T.atom("Gu", ["a", "n"]), T.atom("Gd", ["a", "n"])])
        calls = []

        def h_green(it, e, ins):
            # the half Green's function of the walker block that is actually passed
            calls.append(1)
            if _is(ins[0], A["wu"]):
                return [A["G"][0]]
            if _is(ins[0], A["wd"]):
                return [A["G"][1]]
            raise Unsupported("the Green's-function callee is called with something that is not a walker block")

        def h_trace(it, e, ins):
            x = ins[0]
            if not isinstance(x, T.TT) or len(e.outvars) != 1 or len(e.outvars[0].aval.shape) != len(x.axes) - 2:
                return None
            return [T.trace(x, len(x.axes) - 2, len(x.axes) - 1)]
        it = T.Interp(sizes, intercept={"_calc_green": h_green, "trace": h_trace})
        try:
            val, = it.run(closed.jaxpr, closed.consts, [A["L"], A["h0"], A["h1"], A["C"]] + ([A["wu"]] if restricted else [A["wu"], A["wd"]]))
        except Unsupported as e:
            return [ob(name, UNDECIDED, kind="proof", backend="tensor-normal-form", detail=f"Unsupported: {e}", functions=fns, wall=time.time() - t0)]
        if len(calls) != (1 if restricted else 2):
            return [ob(name, UNDECIDED, kind="proof", backend="tensor-normal-form", detail=f"Green's-function callee seen {len(calls)} times", functions=fns)]
        Cb = T.conj(A["C"])
        G = [A["G"][0], A["G"][0]] if restricted else A["G"]
        Gf = [T.ein("pi,iq->pq", Cb, G[s]) for s in range(2)]
        want = _wick_spec(what, A["h0"], A["h1"], A["L"], Gf)
        results.append((val, want, dict(it.seen)))
    (v1, w1, s1), (v2, w2, s2) = results
    out = []
    uniform = T.describe(v1) == T.describe(v2) and s1 == s2
    out.append(ob(name + ".uniform", DISCHARGED if uniform else UNDECIDED, kind="proof", backend="tensor-normal-form", functions=fns, wall=time.time() - t0,
                  detail=f"same traced program and normal form at (norb, nocc, nchol) = (5,2,7) and (7,3,5); primitives {s1}"))
    ok = T.equal(v1, w1)
    o = ob(name, DISCHARGED if ok else REFUTED, kind="proof", backend="tensor-normal-form", functions=fns, wall=time.time() - t0,
           detail=(f"{what} of the real rhf code ({'restricted' if restricted else 'unrestricted'} entry point) == Wick form with Gf_s = conj(C) G_s"
                   f"{' (G_up = G_dn)' if restricted else ''}: {len(T.canonical(v1)[1])} canonical terms, all sizes, all values") if ok else
                  f"normal forms differ: code {str(T.describe(v1))[:500]} vs Wick form {str(T.describe(w1))[:500]}",
           witness=None if ok else dict(got=str(T.describe(v1))[:800], want=str(T.describe(w1))[:800]), witness_class="" if ok else "normal-form")
    if not ok:
        _replay_rhf(o, what, restricted)
    out.append(o)
    return out


def _replay_rhf(o, what, restricted):
    try:
        import jax.numpy as jnp
        from ad_afqmc import wavefunctions as wf
        rng = np.random.default_rng(12)
        n, a, g = 4, 2, 2
        trial = wf.rhf(n, (a, a))
        h = rng.normal(size=(n, n)); h = h + h.T
        L = rng.normal(size=(g, n, n)); L = L + L.transpose(0, 2, 1)
        C = rng.normal(size=(n, a)) + 1j * rng.normal(size=(n, a))
        w = [rng.normal(size=(n, a)) + 1j * rng.normal(size=(n, a)) for _ in range(2)]
        if restricted:
            w[1] = w[0]
        ham = dict(h0=0.3, h1=jnp.asarray(np.array([h, h])), chol=jnp.asarray(L.reshape(g, -1)))
        wave = dict(mo_coeff=jnp.asarray(C))
        hm = trial._build_measurement_intermediates(dict(ham), wave)
        base = {"energy": "_calc_energy", "fb": "_calc_force_bias"}[what] + ("_restricted" if restricted else "")
        got = np.asarray(getattr(trial, base)(*([jnp.asarray(w[0])] if restricted else [jnp.asarray(w[0]), jnp.asarray(w[1])]), hm, wave))
        Gf = [(w[s] @ np.linalg.inv(C.conj().T @ w[s]) @ C.conj().T).T for s in range(2)]
        X = sum(np.einsum("gpq,pq->g", L, Gf[s]) for s in range(2))
        want = X if what == "fb" else 0.3 + sum(np.sum(h * Gf[s]) for s in range(2)) + 0.5 * (np.sum(X * X) - sum(np.einsum("gpq,grt,pt,rq->", L, L, Gf[s], Gf[s]) for s in range(2)))
        dev = float(np.max(np.abs(got - want)))
        o["replayed"] = bool(dev > 1e-9)
        o["witness"] = dict(o.get("witness") or {}, native=dict(norb=n, nocc=a, nchol=g, max_abs_deviation=dev))
    except Exception as e:   # noqa
        o["witness"] = dict(o.get("witness") or {}, native_error=repr(e)[:300])


def prop_intermediates(restricted=True):
    """C04.prop.const.allsizes (PROOF, all norb and nchol): the REAL _build_propagation_intermediates gives, with rho = rdm1[0] + rdm1[1] and
    l_g = sum_ij L_g[i,j] rho[i,j]:   mf_shifts[g] = i l_g,   h0_prop = -h0 + 1/2 sum_g l_g^2,
    exp_h1[s] = expm(-dt/2 (h1_s - 1/2 sum_g L_g L_g^T + sum_g l_g L_g))   (restricted: h1_s replaced by the spin average)
    which is the mean-field-subtracted splitting  H = -h0_prop + sum h1_mod a+a + 1/2 sum_g (L_g - l_g)^2  used by C04/C05 (real h1, L, rdm1)."""
    t0 = time.time()
    H.setup_repo()
    import jax
    import jax.numpy as jnp
    from ad_afqmc import wavefunctions as wf, propagation
    cls = "propagator_restricted" if restricted else "propagator_unrestricted"
    name = f"C04.prop.const.allsizes[{cls}]"
    fns = [f"propagation.{cls}._build_propagation_intermediates"]
    dt = 0.015625
    results = []
    for sizes in (dict(n=5, g=7), dict(n=7, g=5)):
        n, g = sizes["n"], sizes["g"]
        prop = getattr(propagation, cls)(dt=dt, n_walkers=2)
        trial = (wf.rhf if restricted else wf.uhf)(n, (2, 2) if restricted else (3, 2))
        ham = dict(chol=jnp.zeros((g, n * n)), ene0=jnp.zeros(()), h0=jnp.zeros(()), h1=jnp.zeros((2, n, n)))
        wave = dict(rdm1=jnp.zeros((2, n, n)))

        def f(hm, wv):
            o = prop._build_propagation_intermediates(hm, trial, wv)
            return o["mf_shifts"], o["h0_prop"], o["exp_h1"]
        try:
            closed = jax.make_jaxpr(f)(ham, wave)
        except Exception as e:   # noqa
            return [ob(name, REFUTED, kind="proof", backend="jax-trace", functions=fns, wall=time.time() - t0, replayed=True, witness_class="raises",
                       detail=f"tracing at (norb, nchol) = {(n, g)} raises {type(e).__name__}: {str(e)[:200]}", witness=dict(error=repr(e)[:300]))]
        T.SYMMETRIC.update({"L": (1, 2)})
        T.REAL.update({"L", "rho_up", "rho_dn", "h1_up", "h1_dn", "h0", "ene0"})
        A = dict(L=T.atom("L", ["g", "n", "n"], composite=[[0], [1, 2]]), ene0=T.atom("ene0", []), h0=T.atom("h0", []),
                 h1=T.Stack([T.atom("h1_up", ["n", "n"]), T.atom("h1_dn", ["n", "n"])]), rho=T.Stack([T.atom("rho_up", ["n", "n"]), T.atom("rho_dn", ["n", "n"])]))
        args_of_expm = []

        def h_expm(it, e, ins):
            args_of_expm.append(ins[0])
            return [ins[0]]          # uninterpreted: its argument is what is compared
        it = T.Interp(sizes, intercept={"expm": h_expm})
        try:
            mf, h0p, eh = it.run(closed.jaxpr, closed.consts, [A["L"], A["ene0"], A["h0"], A["h1"], A["rho"]])
        except Unsupported as e:
            return [ob(name, UNDECIDED, kind="proof", backend="tensor-normal-form", detail=f"Unsupported: {e}", functions=fns, wall=time.time() - t0)]
        rho = T.add(A["rho"][0], A["rho"][1])
        l = T.ein("gij,ij->g", A["L"], rho)
        want_mf = T.scale(l, 1j)
        want_h0 = T.add(T.scale(A["h0"], -1), T.scale(T.ein("g,g->", l, l), Fraction(1, 2)))
        v0 = T.scale(T.ein("gik,gjk->ij", A["L"], A["L"]), Fraction(1, 2))
        v1 = T.ein("g,gik->ik", l, A["L"])
        hs = [T.scale(T.add(A["h1"][0], A["h1"][1]), Fraction(1, 2))] * 2 if restricted else [A["h1"][0], A["h1"][1]]
        want_arg = [T.scale(T.add(T.add(h, v0, -1), v1), Fraction(-dt) / 2) for h in hs]
        got_arg = [eh, eh] if restricted else list(eh)
        results.append(((mf, h0p, got_arg), (want_mf, want_h0, want_arg), dict(it.seen), len(args_of_expm)))
    (g1, w1, s1, n1), (g2, w2, s2, n2) = results
    out = []
    uniform = all(T.describe(x) == T.describe(y) for x, y in zip((g1[0], g1[1], *g1[2]), (g2[0], g2[1], *g2[2]))) and s1 == s2
    out.append(ob(name + ".uniform", DISCHARGED if uniform else UNDECIDED, kind="proof", backend="tensor-normal-form", functions=fns, wall=time.time() - t0,
                  detail=f"same traced program and normal forms at (norb, nchol) = (5,7) and (7,5); primitives {s1}"))
    if n1 != (1 if restricted else 2):
        out.append(ob(name, UNDECIDED, kind="proof", detail=f"expm callee seen {n1} times", functions=fns))
        return out
    parts = [("mf_shifts", g1[0], w1[0]), ("h0_prop", g1[1], w1[1]), ("exp_h1.up", g1[2][0], w1[2][0]), ("exp_h1.dn", g1[2][1], w1[2][1])]
    for nm, got, want in parts:
        ok = T.equal(got, want)
        o = ob(f"{name}.{nm}", DISCHARGED if ok else REFUTED, kind="proof", backend="tensor-normal-form", functions=fns, wall=time.time() - t0,
               detail=(f"{nm}: {len(T.canonical(got)[1])} canonical terms agree with the mean-field-subtracted form, all sizes, all values (dt = 1/64 in the trace)") if ok else
                      f"{nm}: code {str(T.describe(got))[:400]} vs spec {str(T.describe(want))[:400]}",
               witness=None if ok else dict(got=str(T.describe(got))[:700], want=str(T.describe(want))[:700]), witness_class="" if ok else "normal-form")
        if not ok:
            _replay_prop(o, restricted, nm)
        out.append(o)
    return out


def _replay_prop(o, restricted, nm):
    try:
        import jax.numpy as jnp
        import scipy.linalg as sla
        from ad_afqmc import wavefunctions as wf, propagation
        rng = np.random.default_rng(13)
        n, g, dt = 3, 2, 0.01
        cls = "propagator_restricted" if restricted else "propagator_unrestricted"
        prop = getattr(propagation, cls)(dt=dt, n_walkers=2)
        trial = (wf.rhf if restricted else wf.uhf)(n, (1, 1))
        h1 = rng.normal(size=(2, n, n)); h1 = h1 + h1.transpose(0, 2, 1)
        L = rng.normal(size=(g, n, n)); L = L + L.transpose(0, 2, 1)
        rho = rng.normal(size=(2, n, n)); rho = rho + rho.transpose(0, 2, 1)
        out = prop._build_propagation_intermediates(dict(h0=0.37, h1=jnp.asarray(h1), chol=jnp.asarray(L.reshape(g, -1)), ene0=0.0), trial, dict(rdm1=jnp.asarray(rho)))
        l = np.einsum("gij,ij->g", L, rho[0] + rho[1])
        v = 0.5 * np.einsum("gik,gjk->ij", L, L) - np.einsum("g,gik->ik", l, L)
        hs = [(h1[0] + h1[1]) / 2] * 2 if restricted else [h1[0], h1[1]]
        eh = np.asarray(out["exp_h1"])
        eh = [eh, eh] if eh.ndim == 2 else [eh[0], eh[1]]
        dev = dict(mf_shifts=np.abs(np.asarray(out["mf_shifts"]) - 1j * l).max(), h0_prop=abs(complex(out["h0_prop"]) - (-0.37 + 0.5 * np.sum(l * l))),
                   **{f"exp_h1.{'ud'[s]}{'pn'[s]}": np.abs(eh[s] - sla.expm(-dt / 2 * (hs[s] - v))).max() for s in range(2)})
        d = float(dev.get(nm, max(dev.values())))
        o["replayed"] = bool(d > 1e-10)
        o["witness"] = dict(o.get("witness") or {}, native=dict(norb=n, nchol=g, deviations={k: float(v_) for k, v_ in dev.items()}))
    except Exception as e:   # noqa
        o["witness"] = dict(o.get("witness") or {}, native_error=repr(e)[:300])


def ru_prop_allsizes():
    """C14.ru.prop.allsizes (PROOF, all norb / nchol): with h1[0] = h1[1] the restricted and the unrestricted propagator build the same mean-field shifts,
    the same h0_prop and the same expm argument (for both spin blocks)."""
    t0 = time.time()
    H.setup_repo()
    import jax
    import jax.numpy as jnp
    from ad_afqmc import wavefunctions as wf, propagation
    name = "C14.ru.prop.allsizes"
    fns = ["propagation.propagator_restricted._build_propagation_intermediates", "propagation.propagator_unrestricted._build_propagation_intermediates"]
    sizes = dict(n=5, g=7)
    n, g = 5, 7
    T.SYMMETRIC.update({"L": (1, 2)})
    T.REAL.update({"L", "rho_up", "rho_dn", "h1", "h0", "ene0"})
    h1a = T.atom("h1", ["n", "n"])
    A = dict(L=T.atom("L", ["g", "n", "n"], composite=[[0], [1, 2]]), ene0=T.atom("ene0", []), h0=T.atom("h0", []), h1=T.Stack([h1a, h1a]),
             rho=T.Stack([T.atom("rho_up", ["n", "n"]), T.atom("rho_dn", ["n", "n"])]))
    forms = {}
    for cls, trial in (("propagator_restricted", wf.rhf(n, (2, 2))), ("propagator_unrestricted", wf.uhf(n, (2, 2)))):
        prop = getattr(propagation, cls)(dt=0.015625, n_walkers=2)
        ham = dict(chol=jnp.zeros((g, n * n)), ene0=jnp.zeros(()), h0=jnp.zeros(()), h1=jnp.zeros((2, n, n)))
        wave = dict(rdm1=jnp.zeros((2, n, n)))

        def f(hm, wv):
            o = prop._build_propagation_intermediates(hm, trial, wv)
            return o["mf_shifts"], o["h0_prop"], o["exp_h1"]
        closed = jax.make_jaxpr(f)(ham, wave)
        it = T.Interp(sizes, intercept={"expm": lambda it_, e, ins: [ins[0]]})
        try:
            mf, h0p, eh = it.run(closed.jaxpr, closed.consts, [A["L"], A["ene0"], A["h0"], A["h1"], A["rho"]])
        except Unsupported as e:
            return [ob(name, UNDECIDED, kind="proof", backend="tensor-normal-form", detail=f"Unsupported: {e}", functions=fns, wall=time.time() - t0)]
        forms[cls] = (mf, h0p, [eh, eh] if isinstance(eh, T.TT) else list(eh))
    a, b = forms["propagator_restricted"], forms["propagator_unrestricted"]
    out = []
    for nm, x, y in (("mf_shifts", a[0], b[0]), ("h0_prop", a[1], b[1]), ("exp_h1.up", a[2][0], b[2][0]), ("exp_h1.dn", a[2][1], b[2][1])):
        ok = T.equal(x, y)
        out.append(ob(f"{name}.{nm}", DISCHARGED if ok else REFUTED, kind="proof", backend="tensor-normal-form", functions=fns, wall=time.time() - t0,
                      replayed=None, detail=f"{nm}: restricted and unrestricted normal forms {'agree' if ok else 'DIFFER: ' + str(T.describe(x))[:300] + ' vs ' + str(T.describe(y))[:300]} (all sizes, all values, h1[0] = h1[1])",
                      witness=None if ok else dict(restricted=str(T.describe(x))[:600], unrestricted=str(T.describe(y))[:600]), witness_class="" if ok else "normal-form"))
    if any(o["status"] == REFUTED for o in out):
        rng = np.random.default_rng(3)
        n_, g_ = 3, 2
        h = rng.normal(size=(n_, n_)); h = h + h.T
        L = rng.normal(size=(g_, n_, n_)); L = L + L.transpose(0, 2, 1)
        rho = rng.normal(size=(2, n_, n_)); rho = rho + rho.transpose(0, 2, 1)
        hd = dict(h0=0.2, h1=jnp.asarray(np.array([h, h])), chol=jnp.asarray(L.reshape(g_, -1)), ene0=0.0)
        pr, pu = propagation.propagator_restricted(dt=0.01, n_walkers=2), propagation.propagator_unrestricted(dt=0.01, n_walkers=2)
        ra = pr._build_propagation_intermediates(dict(hd), wf.rhf(n_, (1, 1)), dict(rdm1=jnp.asarray(rho)))
        ua = pu._build_propagation_intermediates(dict(hd), wf.uhf(n_, (1, 1)), dict(rdm1=jnp.asarray(rho)))
        devs = {"mf_shifts": float(np.abs(np.asarray(ra["mf_shifts"]) - np.asarray(ua["mf_shifts"])).max()), "h0_prop": float(abs(complex(ra["h0_prop"]) - complex(ua["h0_prop"]))),
                "exp_h1.up": float(np.abs(np.asarray(ra["exp_h1"]) - np.asarray(ua["exp_h1"])[0]).max()), "exp_h1.dn": float(np.abs(np.asarray(ra["exp_h1"]) - np.asarray(ua["exp_h1"])[1]).max())}
        for o in out:
            if o["status"] == REFUTED:
                d = next(v for k, v in devs.items() if o["name"].endswith(k))
                o["replayed"] = bool(d > 1e-10)
                o["witness"] = dict(o["witness"], native=dict(max_abs_restricted_minus_unrestricted=d))
    return out


def rdm_allsizes(kind="uhf"):
    """C01.rdm.allsizes.<kind> (PROOF, all norb / electron numbers): _calc_rdm1 returns rdm1[s][p,q] = sum_i C_s[p,i] conj(C_s)[q,i]
    (for orthonormal orbitals this is <psi| a+_q a_p |psi>: mathematics; the shape-bounded rdm.true obligations check that link on exact orbitals)."""
    t0 = time.time()
    H.setup_repo()
    import jax
    import jax.numpy as jnp
    from ad_afqmc import wavefunctions as wf
    name = f"C01.rdm.allsizes.{kind}"
    fns = [f"{WF}.{kind}._calc_rdm1"]
    sizes = dict(n=5, a=2, b=3)
    n, a, b = 5, 2, 3
    if kind == "rhf":
        trial, wave, atoms = wf.rhf(n, (a, a)), dict(mo_coeff=jnp.zeros((n, a)) + 0j), [T.atom("C", ["n", "a"])]
        want = lambda at: T.Stack([T.ein("pi,qi->pq", at[0], T.conj(at[0]))] * 2)
    elif kind == "uhf":
        trial, wave, atoms = wf.uhf(n, (a, b)), dict(mo_coeff=[jnp.zeros((n, a)) + 0j, jnp.zeros((n, b)) + 0j]), [T.atom("Cu", ["n", "a"]), T.atom("Cd", ["n", "b"])]
        want = lambda at: T.Stack([T.ein("pi,qi->pq", at[0], T.conj(at[0])), T.ein("pi,qi->pq", at[1], T.conj(at[1]))])
    else:
        raise Unsupported(kind)
    closed = jax.make_jaxpr(lambda wv: trial._calc_rdm1(wv))(wave)
    it = T.Interp(sizes)
    try:
        got, = it.run(closed.jaxpr, closed.consts, atoms)
    except Unsupported as e:
        return [ob(name, UNDECIDED, kind="proof", backend="tensor-normal-form", detail=f"Unsupported: {e}", functions=fns, wall=time.time() - t0)]
    ok = T.equal(got, want(atoms))
    o = ob(name, DISCHARGED if ok else REFUTED, kind="proof", backend="tensor-normal-form", functions=fns, wall=time.time() - t0,
           detail=f"rdm1[s] == C_s C_s^dagger for all sizes and all complex orbitals" if ok else f"normal form {str(T.describe(got))[:400]} is not C C^dagger",
           witness=None if ok else dict(got=str(T.describe(got))[:600]), witness_class="" if ok else "normal-form")
    if not ok:
        rng = np.random.default_rng(5)
        Cs = [rng.normal(size=(4, 2)) + 1j * rng.normal(size=(4, 2)), rng.normal(size=(4, 2)) + 1j * rng.normal(size=(4, 2))]
        tr = (wf.rhf if kind == "rhf" else wf.uhf)(4, (2, 2))
        nat = np.asarray(tr._calc_rdm1(dict(mo_coeff=jnp.asarray(Cs[0]) if kind == "rhf" else [jnp.asarray(Cs[0]), jnp.asarray(Cs[1])])))
        ref = [Cs[0] @ Cs[0].conj().T, (Cs[0] if kind == "rhf" else Cs[1]) @ (Cs[0] if kind == "rhf" else Cs[1]).conj().T]
        dev = float(max(np.abs(nat[s] - ref[s]).max() for s in range(2)))
        o["replayed"] = bool(dev > 1e-10)
        o["witness"]["native"] = dict(max_abs_deviation=dev)
    return [o]


def noci_wick(what="energy"):
    """C02.en.allsizes.noci / C03.fb.allsizes.noci (PROOF: all norb, n_up, n_dn, nchol and all numbers of determinants):
    the real _build_measurement_intermediates + _calc_energy / _calc_force_bias equal
        sum_k c_k O_k W(Gf^k) / sum_k c_k O_k,   Gf^k_s = D^k_s G^k_s,   W = Wick form of the energy / force bias,
    with the per-determinant half Green's functions G^k_s and overlaps O_k as fresh symbols (their contracts: green.noci, ov.*); REAL determinants and
    coefficients as the class documents; the quotient is compared by cross-multiplication."""
    t0 = time.time()
    H.setup_repo()
    import jax
    import jax.numpy as jnp
    from ad_afqmc import wavefunctions as wf
    prop = "C02.en" if what == "energy" else "C03.fb"
    name = f"{prop}.allsizes.noci"
    fns = [f"{WF}.noci._build_measurement_intermediates", f"{WF}.noci._calc_energy" if what == "energy" else f"{WF}.noci._calc_force_bias"]
    results = []
    for sizes in (dict(n=5, a=2, b=3, g=7, d=11), dict(n=7, a=3, b=2, g=5, d=13)):
        n, a, b, g, d = (sizes[k] for k in "nabgd")
        trial = wf.noci(n, (a, b), d)
        ham = dict(chol=jnp.zeros((g, n * n)), h0=jnp.zeros(()), h1=jnp.zeros((2, n, n)))
        wave = dict(ci_coeffs_dets=[jnp.zeros((d,)), [jnp.zeros((d, n, a)), jnp.zeros((d, n, b))]])
        wu, wd = jnp.zeros((n, a)) + 0j, jnp.zeros((n, b)) + 0j
        meth = trial._calc_energy if what == "energy" else trial._calc_force_bias

        def f(hm, wv, x, y):
            hm = trial._build_measurement_intermediates(hm, wv)
            return meth(x, y, hm, wv)
        try:
            closed = jax.make_jaxpr(f)(ham, wave, wu, wd)
        except Exception as e:   # noqa
            return [ob(name, REFUTED, kind="proof", backend="jax-trace", functions=fns, wall=time.time() - t0, replayed=True, witness_class="raises",
                       detail=f"tracing at {sizes} raises {type(e).__name__}: {str(e)[:200]}", witness=dict(error=repr(e)[:300]))]
        T.SYMMETRIC.update({"h1_up": (0, 1), "h1_dn": (0, 1), "L": (1, 2)})
        T.REAL.update({"Du", "Dd", "ci"})
        A = dict(L=T.atom("L", ["g", "n", "n"], composite=[[0], [1, 2]]), h0=T.atom("h0", []), h1=T.Stack([T.atom("h1_up", ["n", "n"]), T.atom("h1_dn", ["n", "n"])]),
                 ci=T.atom("ci", ["d"]), Du=T.atom("Du", ["d", "n", "a"]), Dd=T.atom("Dd", ["d", "n", "b"]), wu=T.atom("wu", ["n", "a"]), wd=T.atom("wd", ["n", "b"]),
                 Gu=T.atom("Gu", ["d", "a", "n"]), Gd=T.atom("Gd", ["d", "b", "n"]), ok=T.atom("ok", ["d"]))
        seen = dict(green=0, ov=0)

        def _args_ok(ins):
            return len(ins) >= 4 and _is(ins[0], A["wu"]) and _is(ins[1], A["wd"]) and _is(ins[2], A["Du"]) and _is(ins[3], A["Dd"])

        def h_green(it, e, ins):
            if len(e.outvars) != 2 or len(e.outvars[0].aval.shape) != 3:
                return None
            if not _args_ok(ins):
                raise Unsupported("per-determinant Green's function not called with (walker_up, walker_dn, dets_up, dets_dn)")
            seen["green"] += 1
            return [A["Gu"], A["Gd"]]

        def h_ov(it, e, ins):
            if len(e.outvars) != 1 or tuple(e.outvars[0].aval.shape) != (d,):
                return None
            if not _args_ok(ins):
                raise Unsupported("per-determinant overlap not called with (walker_up, walker_dn, dets_up, dets_dn)")
            seen["ov"] += 1
            return [A["ok"]]

        def h_trace(it, e, ins):
            x = ins[0]
            if not isinstance(x, T.TT) or len(e.outvars) != 1 or len(e.outvars[0].aval.shape) != len(x.axes) - 2:
                return None
            return [T.trace(x, len(x.axes) - 2, len(x.axes) - 1)]
        it = T.Interp(sizes, intercept={"_calc_green_single_det": h_green, "_calc_overlap_single_det": h_ov, "trace": h_trace})
        try:
            val, = it.run(closed.jaxpr, closed.consts, [A["L"], A["h0"], A["h1"], A["ci"], A["Du"], A["Dd"], A["wu"], A["wd"]])
        except Unsupported as e:
            return [ob(name, UNDECIDED, kind="proof", backend="tensor-normal-form", detail=f"Unsupported: {e}", functions=fns, wall=time.time() - t0)]
        if seen["green"] != 1 or seen["ov"] != 1:
            return [ob(name, UNDECIDED, kind="proof", backend="tensor-normal-form", detail=f"callees seen {seen}", functions=fns)]
        # spec: per-determinant Wick forms weighted by c_k O_k
        Gf = [T.ein("kpi,kiq->kpq", A["Du"], A["Gu"]), T.ein("kpi,kiq->kpq", A["Dd"], A["Gd"])]
        L = A["L"]
        X = [T.ein("gpq,kpq->kg", L, Gf[s]) for s in range(2)]
        Xs = T.add(X[0], X[1])
        wgt = T.ein("k,k->k", A["ci"], A["ok"])
        den = T.ein("k->", wgt)
        if what == "fb":
            num = T.ein("k,kg->g", wgt, Xs)
        else:
            e1 = T.add(T.ein("pq,kpq->k", A["h1"][0], Gf[0]), T.ein("pq,kpq->k", A["h1"][1], Gf[1]))
            coul = T.ein("kg,kg->k", Xs, Xs)
            exc = T.add(T.ein("gpq,grt,kpt,krq->k", L, L, Gf[0], Gf[0]), T.ein("gpq,grt,kpt,krq->k", L, L, Gf[1], Gf[1]))
            Ek = T.add(T.add(_bcast_scalar(A["h0"], "d"), e1), T.scale(T.add(coul, exc, -1), Fraction(1, 2)))
            num = T.ein("k,k->", wgt, Ek)
        want = T.Frac(num, den)
        results.append((val, want, dict(it.seen)))
    (v1, w1, s1), (v2, w2, s2) = results
    out = []

    def desc(v):
        return (T.describe(v.num), T.describe(v.den)) if isinstance(v, T.Frac) else T.describe(v)
    uniform = desc(v1) == desc(v2) and s1 == s2
    out.append(ob(name + ".uniform", DISCHARGED if uniform else UNDECIDED, kind="proof", backend="tensor-normal-form", functions=fns, wall=time.time() - t0,
                  detail=f"same traced program and normal form at two size sets (norb, n_up, n_dn, nchol, ndets) = (5,2,3,7,11), (7,3,2,5,13); primitives {s1}"))
    ok = T.frac_equal(v1, w1)
    o = ob(name, DISCHARGED if ok else REFUTED, kind="proof", backend="tensor-normal-form", functions=fns, wall=time.time() - t0,
           detail=(f"{what} of the real noci code == sum_k c_k O_k W(D^k G^k) / sum_k c_k O_k (cross-multiplied normal forms agree), all sizes incl. the number of determinants, all values") if ok else
                  f"normal forms differ: code {str(desc(v1))[:500]} vs spec {str(desc(w1))[:500]}",
           witness=None if ok else dict(got=str(desc(v1))[:800], want=str(desc(w1))[:800]), witness_class="" if ok else "normal-form")
    if not ok:
        _replay_noci(o, what)
    out.append(o)
    return out


def _bcast_scalar(x, sym):
    """scalar tensor broadcast along a new axis of symbolic size"""
    return T.TT([((T.fresh(), sym),)], x.terms)


def _replay_noci(o, what):
    try:
        import jax.numpy as jnp
        from ad_afqmc import wavefunctions as wf
        rng = np.random.default_rng(14)
        n, a, b, g, d = 4, 2, 2, 2, 3        # two electrons per spin: transpositions inside an occupied block are visible
        trial = wf.noci(n, (a, b), d)
        h1 = rng.normal(size=(2, n, n)); h1 = h1 + h1.transpose(0, 2, 1)
        L = rng.normal(size=(g, n, n)); L = L + L.transpose(0, 2, 1)
        ci = rng.normal(size=d)
        Du, Dd = rng.normal(size=(d, n, a)), rng.normal(size=(d, n, b))
        w = [rng.normal(size=(n, a)) + 1j * rng.normal(size=(n, a)), rng.normal(size=(n, b)) + 1j * rng.normal(size=(n, b))]
        ham = dict(h0=0.3, h1=jnp.asarray(h1), chol=jnp.asarray(L.reshape(g, -1)))
        wave = dict(ci_coeffs_dets=[jnp.asarray(ci), [jnp.asarray(Du), jnp.asarray(Dd)]])
        hm = trial._build_measurement_intermediates(dict(ham), wave)
        got = np.asarray((trial._calc_energy if what == "energy" else trial._calc_force_bias)(jnp.asarray(w[0]), jnp.asarray(w[1]), hm, wave))
        num, den = 0, 0
        for k in range(d):
            D = [Du[k], Dd[k]]
            O = np.linalg.det(D[0].T @ w[0]) * np.linalg.det(D[1].T @ w[1])
            Gf = [(w[s] @ np.linalg.inv(D[s].T @ w[s]) @ D[s].T).T for s in range(2)]
            X = sum(np.einsum("gpq,pq->g", L, Gf[s]) for s in range(2))
            W = X if what == "fb" else 0.3 + sum(np.sum(h1[s] * Gf[s]) for s in range(2)) + 0.5 * (np.sum(X * X) - sum(np.einsum("gpq,grt,pt,rq->", L, L, Gf[s], Gf[s]) for s in range(2)))
            num, den = num + ci[k] * O * W, den + ci[k] * O
        dev = float(np.max(np.abs(got - num / den)))
        o["replayed"] = bool(dev > 1e-9)
        o["witness"] = dict(o.get("witness") or {}, native=dict(norb=n, nelec=(a, b), nchol=g, ndets=d, max_abs_deviation=dev))
    except Exception as e:   # noqa
        o["witness"] = dict(o.get("witness") or {}, native_error=repr(e)[:300])


class _Stop(Exception):
    pass


def fock_allsizes(kind="uhf"):
    """C18.opt.fock.allsizes.<kind> (PROOF, all norb, electron numbers, nchol): the matrices handed to the eigen-solver in the first SCF iteration of the REAL
    optimize() are the Hartree-Fock Fock operators of the trial density rho_s = C_s C_s^T (real orbitals):
        uhf: F_s = h1_s + J[rho_up + rho_dn] - K[rho_s];   rhf: F = h1 + J[rho] - K[rho]/2, rho = 2 C C^T;   J[r] = sum_g tr(L_g r) L_g, K[r] = sum_g L_g r L_g
    so a converged solution (eigenvectors of its own Fock matrix) is a fixed point of the update."""
    t0 = time.time()
    H.setup_repo()
    import jax
    import jax.numpy as jnp
    from ad_afqmc import wavefunctions as wf
    name = f"C18.opt.fock.allsizes.{kind}"
    fns = [f"{WF}.{kind}.optimize"]
    results = []
    for sizes in (dict(n=5, a=2, b=3, g=7), dict(n=7, a=3, b=2, g=5)):
        n, a, b, g = (sizes[k] for k in "nabg")
        T.SYMMETRIC.update({"h1_up": (0, 1), "h1_dn": (0, 1), "h1": (0, 1), "L": (1, 2)})
        T.REAL.update({"Cu", "Cd", "C", "L", "h1_up", "h1_dn", "h1"})
        L = T.atom("L", ["g", "n", "n"], composite=[[0], [1, 2]])
        if kind == "uhf":
            trial = wf.uhf(n, (a, b))
            wave = dict(mo_coeff=[jnp.zeros((n, a)), jnp.zeros((n, b))])
            h1 = T.Stack([T.atom("h1_up", ["n", "n"]), T.atom("h1_dn", ["n", "n"])])
            Cs = [T.atom("Cu", ["n", "a"]), T.atom("Cd", ["n", "b"])]
            args = [L, h1] + Cs
            nexp = 2
        else:
            trial = wf.rhf(n, (a, a))
            wave = dict(mo_coeff=jnp.zeros((n, a)))
            ha = T.atom("h1", ["n", "n"])
            h1 = T.Stack([ha, ha])
            Cs = [T.atom("C", ["n", "a"])]
            args = [L, h1] + Cs
            nexp = 1
        ham = dict(chol=jnp.zeros((g, n * n)), h1=jnp.zeros((2, n, n)))
        try:
            closed = jax.make_jaxpr(lambda hm, wv: trial.optimize(hm, wv))(ham, wave)
        except Exception as e:   # noqa
            return [ob(name, REFUTED, kind="proof", backend="jax-trace", functions=fns, wall=time.time() - t0, replayed=True, witness_class="raises",
                       detail=f"tracing at {sizes} raises {type(e).__name__}: {str(e)[:200]}", witness=dict(error=repr(e)[:300]))]
        caps = []

        def h_eigh(it, e, ins):
            caps.append(ins[0])
            if len(caps) == nexp:
                raise _Stop()
            shp = e.outvars
            # the first solver's results are not used by the second Fock matrix: hand back opaque placeholders
            return [T.atom(f"eig{len(caps)}_{k}", ["n"] * len(v.aval.shape)) for k, v in enumerate(shp)]

        def h_trace(it, e, ins):
            x = ins[0]
            if not isinstance(x, T.TT) or len(e.outvars) != 1 or len(e.outvars[0].aval.shape) != len(x.axes) - 2:
                return None
            return [T.trace(x, len(x.axes) - 2, len(x.axes) - 1)]
        it = T.Interp(sizes, intercept={"trace": h_trace}, prim_hook={"eigh": h_eigh})
        it.scan_first_only = True
        try:
            it.run(closed.jaxpr, closed.consts, args)
            return [ob(name, UNDECIDED, kind="proof", backend="tensor-normal-form", detail="the eigen-solver was not reached", functions=fns)]
        except _Stop:
            pass
        except Unsupported as e:
            return [ob(name, UNDECIDED, kind="proof", backend="tensor-normal-form", detail=f"Unsupported: {e}", functions=fns, wall=time.time() - t0)]
        if kind == "uhf":
            rho = [T.ein("pi,qi->pq", Cs[s], Cs[s]) for s in range(2)]
            rt = T.add(rho[0], rho[1])
            J = T.ein("g,gpq->pq", T.ein("gij,ij->g", L, rt), L)
            want = [T.add(T.add(h1[s], J), T.ein("gpi,ij,gjq->pq", L, rho[s], L), -1) for s in range(2)]
        else:
            rho = T.scale(T.ein("pi,qi->pq", Cs[0], Cs[0]), 2)
            J = T.ein("g,gpq->pq", T.ein("gij,ij->g", L, rho), L)
            want = [T.add(T.add(h1[0], J), T.scale(T.ein("gpi,ij,gjq->pq", L, rho, L), Fraction(1, 2)), -1)]
        results.append((caps, want, dict(it.seen)))
    (c1, w1, s1), (c2, w2, s2) = results
    out = []
    uniform = all(T.describe(x) == T.describe(y) for x, y in zip(c1, c2)) and s1 == s2
    out.append(ob(name + ".uniform", DISCHARGED if uniform else UNDECIDED, kind="proof", backend="tensor-normal-form", functions=fns, wall=time.time() - t0,
                  detail=f"same traced program and normal forms at two size sets; primitives {s1}"))
    for s_, (got, want) in enumerate(zip(c1, w1)):
        # jnp.linalg.eigh symmetrises its input: compare the symmetrised spec as well (the Fock matrix is symmetric for symmetric h1, L and rho)
        ok = T.equal(got, want) or T.equal(got, T.scale(T.add(want, T.transpose(want, [1, 0])), Fraction(1, 2)))
        nm = name + (f".{'up' if s_ == 0 else 'dn'}" if kind == "uhf" else "")
        o = ob(nm, DISCHARGED if ok else REFUTED, kind="proof", backend="tensor-normal-form", functions=fns, wall=time.time() - t0,
               detail=(f"operand of the eigen-solver == h1 + J - K of the trial density: {len(T.canonical(got)[1])} canonical terms, all sizes, all values") if ok else
                      f"operand {str(T.describe(got))[:500]} vs Fock operator {str(T.describe(want))[:500]}",
               witness=None if ok else dict(got=str(T.describe(got))[:700], want=str(T.describe(want))[:700]), witness_class="" if ok else "normal-form")
        if not ok:
            _replay_fock(o, kind)
        out.append(o)
    return out


def _replay_fock(o, kind):
    """native replay: a converged Hartree-Fock solution (plain numpy SCF) must be left unchanged by one optimize() iteration"""
    try:
        import jax.numpy as jnp
        from ad_afqmc import wavefunctions as wf
        rng = np.random.default_rng(21)
        n, g = 4, 3
        nel = (2, 1) if kind == "uhf" else (2, 2)
        h = rng.normal(size=(n, n)); h = (h + h.T) / 2
        L = 0.4 * rng.normal(size=(g, n, n)); L = (L + L.transpose(0, 2, 1)) / 2

        def fock(rs):
            rt = rs[0] + rs[1]
            J = np.einsum("g,gpq->pq", np.einsum("gij,ij->g", L, rt), L)
            return [h + J - np.einsum("gpi,ij,gjq->pq", L, rs[s], L) for s in range(2)]
        C = [np.eye(n)[:, :nel[0]], np.eye(n)[:, :nel[1]]]
        for _ in range(400):
            rs = [C[s] @ C[s].T for s in range(2)]
            F = fock(rs)
            if kind == "rhf":
                F = [(F[0] + F[1]) / 2] * 2
            Cn = [np.linalg.eigh(F[s])[1][:, :nel[s]] for s in range(2)]
            if max(np.abs(Cn[s] @ Cn[s].T - rs[s]).max() for s in range(2)) < 1e-13:
                C = Cn
                break
            C = Cn
        trial = (wf.uhf if kind == "uhf" else wf.rhf)(n, nel, n_opt_iter=1)
        wave = dict(mo_coeff=[jnp.asarray(C[0]), jnp.asarray(C[1])] if kind == "uhf" else jnp.asarray(C[0]))
        ham = dict(h1=jnp.asarray(np.array([h, h])), chol=jnp.asarray(L.reshape(g, -1)))
        new = trial.optimize(ham, wave)["mo_coeff"]
        new = [np.asarray(new[0]), np.asarray(new[1])] if kind == "uhf" else [np.asarray(new)] * 2
        dev = float(max(np.abs(new[s] @ new[s].T - C[s] @ C[s].T).max() for s in range(2)))
        o["replayed"] = bool(dev > 1e-8)
        o["witness"] = dict(o.get("witness") or {}, native=dict(norb=n, nelec=nel, projector_change_of_a_converged_solution=dev))
    except Exception as e:   # noqa
        o["witness"] = dict(o.get("witness") or {}, native_error=repr(e)[:300])


def taylor_allsizes(n_exp_terms=6):
    """C05.fp.taylor.allsizes / C04 (PROOF, all norb and nocc): the REAL _apply_trotprop_det(B, vhs, phi) == B sum_{m < n_exp_terms} vhs^m / m! B phi
    (the scan over Taylor terms is unrolled: its length is the static n_exp_terms)"""
    t0 = time.time()
    H.setup_repo()
    import math
    import jax
    import jax.numpy as jnp
    from ad_afqmc import propagation
    name = f"C05.fp.taylor.allsizes[n_exp_terms={n_exp_terms}]"
    fns = ["propagation.propagator._apply_trotprop_det"]
    results = []
    for sizes in (dict(n=5, a=2), dict(n=7, a=3)):
        n, a = sizes["n"], sizes["a"]
        prop = propagation.propagator_restricted(dt=0.01, n_walkers=1, n_exp_terms=n_exp_terms)
        closed = jax.make_jaxpr(lambda B, v, w: prop._apply_trotprop_det(B, v, w))(jnp.zeros((n, n)), jnp.zeros((n, n)) + 0j, jnp.zeros((n, a)) + 0j)
        B, V_, W = T.atom("B", ["n", "n"]), T.atom("vhs", ["n", "n"]), T.atom("phi", ["n", "a"])
        it = T.Interp(sizes)
        try:
            got, = it.run(closed.jaxpr, closed.consts, [B, V_, W])
        except Unsupported as e:
            return [ob(name, UNDECIDED, kind="proof", backend="tensor-normal-form", detail=f"Unsupported: {e}", functions=fns, wall=time.time() - t0)]
        cur = T.ein("pq,qi->pi", B, W)
        acc = cur
        for m in range(1, n_exp_terms):
            cur = T.ein("pq,qi->pi", V_, cur)
            acc = T.add(acc, T.scale(cur, Fraction(1, math.factorial(m))))
        want = T.ein("pq,qi->pi", B, acc)
        results.append((got, want, dict(it.seen)))
    (g1, w1, s1), (g2, w2, s2) = results
    uniform = T.describe(g1) == T.describe(g2) and s1 == s2
    ok = T.equal(g1, w1)
    out = [ob(name + ".uniform", DISCHARGED if uniform else UNDECIDED, kind="proof", backend="tensor-normal-form", functions=fns, wall=time.time() - t0,
              detail=f"same traced program and normal form at (norb, nocc) = (5,2), (7,3); primitives {s1}"),
           ob(name, DISCHARGED if ok else REFUTED, kind="proof", backend="tensor-normal-form", functions=fns, wall=time.time() - t0, replayed=None if ok else _replay_taylor(n_exp_terms),
              detail=(f"{len(T.canonical(g1)[1])} canonical terms: B sum_(m<{n_exp_terms}) vhs^m/m! B phi, all sizes, all values") if ok else
                     f"normal form {str(T.describe(g1))[:500]} vs spec {str(T.describe(w1))[:300]}",
              witness=None if ok else dict(got=str(T.describe(g1))[:700]), witness_class="" if ok else "normal-form")]
    return out


def _replay_taylor(n_exp_terms):
    try:
        import math
        import jax.numpy as jnp
        from ad_afqmc import propagation
        rng = np.random.default_rng(2)
        n, a = 3, 2
        prop = propagation.propagator_restricted(dt=0.01, n_walkers=1, n_exp_terms=n_exp_terms)
        B = np.eye(n) + 0.1 * rng.normal(size=(n, n)); V_ = 0.3 * (rng.normal(size=(n, n)) + 1j * rng.normal(size=(n, n))); W = rng.normal(size=(n, a)) + 0j
        got = np.asarray(prop._apply_trotprop_det(jnp.asarray(B), jnp.asarray(V_), jnp.asarray(W)))
        cur = B @ W; acc = cur.copy()
        for m in range(1, n_exp_terms):
            cur = V_ @ cur; acc = acc + cur / math.factorial(m)
        return bool(np.abs(got - B @ acc).max() > 1e-10)
    except Exception:   # noqa
        return None

"""Sidecar contracts for ad_afqmc/wavefunctions.py (Engine B): trial kinds, their spec states and obligations for
C01 (overlap), C02 (local energy), C03 (force bias).

Every obligation traces the REAL method of a REAL trial object (imported from REPO) with jax.make_jaxpr and
interprets the jaxpr over Q(i)(symbols); the right-hand side is the Fock-space spec of vc/spec/fock.py built from the
SAME symbols.  All obligations here are SHAPE-BOUNDED (kind='bounded'): all values, enumerated shapes.
"""
from __future__ import annotations

import time
from fractions import Fraction

import numpy as np

from vc.common import ob, DISCHARGED, REFUTED, UNDECIDED, CRASH, Unsupported
from vc.jxvc import harness as H
from vc.jxvc.field import Fr, det_sym, inv_sym, is_obj
from vc.jxvc.interp import evaluate, batched
from vc.spec.fock import Fock

WF = "wavefunctions"


def jn(x):
    import jax.numpy as jnp
    import jax
    return jax.tree_util.tree_map(lambda a: jnp.asarray(a), x)


def T(a):
    return a.T


def sym_mat(a):
    """a + a^T  (every symmetric matrix over a field of characteristic != 2 has this form)"""
    return a + np.swapaxes(a, -1, -2)


# ====================================================================================== cases
class Case:
    """One trial kind at one shape: symbolic + numeric inputs, the real trial object, the spec bra."""

    def __init__(self, kind, norb, nel, nchol=1, ndets=2, seed=0, complex_trial=True, spin_dep=True, restricted=False,
                 general_walker=True, nP=2, walker_partner=False, **opts):
        H.setup_repo()
        from ad_afqmc import wavefunctions as wf
        self.kind, self.norb, self.nel, self.nchol, self.ndets = kind, norb, tuple(nel), nchol, ndets
        self.restricted = restricted
        self.inp = inp = H.Inputs(seed)
        self.F = Fock(norb, nel)
        nu, nd = nel
        d = {}
        # ---- walkers (holomorphic symbols: the code never conjugates a walker)
        wmode = True if walker_partner else "holo"
        if restricted:
            d["w"] = inp.declare("w", (norb, nu), wmode)
        else:
            d["wu"] = inp.declare("wu", (norb, nu), wmode)
            d["wd"] = inp.declare("wd", (norb, nd), wmode)
        # ---- hamiltonian (real symbols)
        d["h0"] = inp.declare("h0", ())
        d["ha"] = inp.declare("ha", (2 if spin_dep else 1, norb, norb))
        d["la"] = inp.declare("la", (nchol, norb, norb))
        cplx = True if complex_trial else False
        # ---- trial parameters
        no, nv = nu, norb - nu
        if kind == "rhf":
            d["c"] = inp.declare("c", (norb, nu), cplx)
        elif kind in ("uhf", "uhf_cpmc"):
            d["cu"] = inp.declare("cu", (norb, nu), cplx)
            d["cd"] = inp.declare("cd", (norb, nd), cplx)
        elif kind in ("ghf", "ghf_cpmc"):
            d["c"] = inp.declare("c", (2 * norb, nu + nd), cplx if (kind == "ghf" and opts.get("ghf_complex", True)) else False)    # ghf_cpmc: constrained-path trials are real
        elif kind == "noci":
            d["ci"] = inp.declare("ci", (ndets,))
            # the class documents "both ci_coeffs and dets are assumed to be real": real symbols (complex determinants are outside the admissible set)
            ncx = cplx if opts.get("noci_complex", False) else False
            d["du"] = inp.declare("du", (ndets, norb, nu), ncx)
            d["dd"] = inp.declare("dd", (ndets, norb, nd), ncx)
        elif kind in ("cisd", "cisd_faster", "CISD"):
            d["c1"] = inp.declare("c1", (no, nv))
            d["c2a"] = inp.declare("c2a", (no, nv, no, nv))
        elif kind == "CISD_THC":
            d["c1"] = inp.declare("c1", (no, nv))
            d["xo"] = inp.declare("xo", (nP, no))
            d["xv"] = inp.declare("xv", (nP, nv))
            d["va"] = inp.declare("va", (nP, nP))
        elif kind in ("UCISD", "ucisd"):
            nvb = norb - nd
            d["c1a"] = inp.declare("c1a", (nu, nv))
            d["c1b"] = inp.declare("c1b", (nd, nvb))
            d["aa"] = inp.declare("aa", (nu, nv, nu, nv))
            d["bb"] = inp.declare("bb", (nd, nvb, nd, nvb))
            d["ab"] = inp.declare("ab", (nu, nv, nd, nvb))
            if opts.get("moB") == "symbolic":
                d["mb"] = inp.declare("mb", (norb, norb))
        elif kind == "GCISD":
            n = nu + nd
            d["g1"] = inp.declare("g1", (n, 2 * norb - n))
            d["g2a"] = inp.declare("g2a", (n, 2 * norb - n, n, 2 * norb - n))
        elif kind == "bra":       # arbitrary bra vector in Fock space (used by the wave_function_auto lemma)
            d["psi"] = inp.declare("psi", (self.F.dim,))
        else:
            raise Unsupported("kind " + kind)
        inp.build()
        self.d = d
        V = lambda k: d[k]["V"]
        self.h0 = V("h0")
        ha = V("ha")
        h1 = ha.map(lambda a: sym_mat(a))
        if not spin_dep:
            h1 = h1.map(lambda a: np.concatenate([a, a], axis=0))
        self.h1 = h1                                         # (2, norb, norb), symmetric per spin
        self.L = V("la").map(sym_mat)                        # (nchol, norb, norb) symmetric
        self.chol = self.L.map(lambda a: a.reshape(nchol, norb * norb))
        if restricted:
            self.w = V("w")
            self.wu = self.wd = self.w
        else:
            self.wu, self.wd = V("wu"), V("wd")
        # ---- the real trial object + wave_data + spec bra (conjugated coefficients of |psi_T>)
        F = self.F
        if kind == "rhf":
            self.trial = wf.rhf(norb, nel)
            self.wave = dict(mo_coeff=V("c"))
            cb = d["c"]["Vc"] if cplx else V("c")
            self.psibar = H.both(lambda c: F.det_vec(c, c), cb)
            self.C = [V("c"), V("c")]; self.Cb = [cb, cb]
        elif kind in ("uhf", "uhf_cpmc"):
            self.trial = getattr(wf, kind)(norb, nel)
            self.wave = dict(mo_coeff=[V("cu"), V("cd")])
            cbu, cbd = (d["cu"]["Vc"], d["cd"]["Vc"]) if cplx else (V("cu"), V("cd"))
            self.psibar = H.both(lambda a, b: F.det_vec(a, b), cbu, cbd)
            self.C = [V("cu"), V("cd")]; self.Cb = [cbu, cbd]
        elif kind in ("ghf", "ghf_cpmc"):
            self.trial = getattr(wf, kind)(norb, nel)
            self.wave = dict(mo_coeff=V("c"))
            # bra of |psi_T> = prod_k (sum_p C_pk a+_p)|0>: conjugated orbital coefficients (complex GHF orbitals are admissible parameters)
            self.psibar = (d["c"]["Vc"] if d["c"].get("partner") else V("c")).map(lambda c: F.ghf_vec(c))
        elif kind == "noci":
            self.trial = wf.noci(norb, nel, ndets)
            self.wave = dict(ci_coeffs_dets=[V("ci"), [V("du"), V("dd")]])

            def bra(ci, du, dd):
                tot = None
                for k in range(ndets):
                    v = F.det_vec(du[k], dd[k]) * ci[k]
                    tot = v if tot is None else tot + v
                return tot
            cbu, cbd = (d["du"]["Vc"], d["dd"]["Vc"]) if d["du"].get("partner") else (V("du"), V("dd"))
            self.psibar = H.both(bra, V("ci"), cbu, cbd)
            self.psiket = H.both(bra, V("ci"), V("du"), V("dd"))
            self.Db = [cbu, cbd]          # conjugated determinants (as symbols)
        elif kind in ("cisd", "cisd_faster", "CISD", "CISD_THC"):
            self.trial = getattr(wf, kind)(norb, nel)
            c1 = V("c1")
            if kind == "CISD_THC":
                vkl = V("va").map(sym_mat)
                self.wave = dict(ci1=c1, Xocc=V("xo"), Xvirt=V("xv"), VKL=vkl)
                c2 = H.both(lambda xo, xv, v: np.einsum("Pi,Pa,PQ,Qj,Qb->iajb", xo, xv, v, xo, xv), V("xo"), V("xv"), vkl)
            else:
                c2 = V("c2a").map(lambda a: a + a.transpose(2, 3, 0, 1))     # symmetric ci2
                self.wave = dict(ci1=c1, ci2=c2)
            self.psibar = H.both(lambda a, b: cisd_state(F, a, b), c1, c2)
        elif kind in ("UCISD", "ucisd"):
            self.trial = getattr(wf, kind)(norb, nel)
            anti = lambda a: (lambda b: b - b.transpose(0, 3, 2, 1))(a - a.transpose(2, 1, 0, 3))
            aa, bb = V("aa").map(anti), V("bb").map(anti)
            if opts.get("moB") == "symbolic":
                mb = V("mb")
            else:
                M = rational_orthogonal(norb, opts.get("moB", "rot"))
                mb = H.V(H.lift_array(inp.sp, M, force=True) if False else _lift(inp.sp, M), np.array(M, dtype=float))
            eye = H.V(_lift(inp.sp, np.eye(norb)), np.eye(norb))
            self.moB = mb
            self.wave = dict(mo_coeff=[eye, mb], ci1A=V("c1a"), ci1B=V("c1b"), ci2AA=aa, ci2BB=bb, ci2AB=V("ab"))
            if opts.get("moB") == "symbolic":
                self.psibar = None    # only the (moB, walker_dn) -> moB^T walker_dn reduction lemma uses this case
            else:
                self.psibar = H.both(lambda a, b, x, y, z, m: ucisd_state(F, a, b, x, y, z, m), V("c1a"), V("c1b"), aa, bb, V("ab"), mb)
        elif kind == "GCISD":
            self.trial = wf.GCISD(norb, nel)
            anti = lambda a: (lambda b: b - b.transpose(0, 3, 2, 1))(a - a.transpose(2, 1, 0, 3))
            g2 = V("g2a").map(anti)
            M = rational_orthogonal(2 * norb, opts.get("moG", "rot"))
            mg = H.V(_lift(inp.sp, M), np.array(M, dtype=float))
            self.wave = dict(mo_coeff=mg, ci1=V("g1"), ci2=g2)
            self.psibar = H.both(lambda a, b, m: gcisd_state(F, a, b, m), V("g1"), g2, mg)
        elif kind == "bra":
            self.trial = None
            self.wave = None
            self.psibar = V("psi")
        # numeric/symbolic pytrees
        self.ham0 = dict(h0=self.h0, h1=self.h1, chol=self.chol, ene0=H.V(_lift(inp.sp, np.array(0.0)), np.array(0.0)))

    # pytrees of symbolic / numeric leaves
    def sx(self, tree):
        import jax
        leaves = lambda t, f: jax.tree_util.tree_map(f, t, is_leaf=lambda x: isinstance(x, H.V))
        return leaves(tree, lambda v: v.s), jn(leaves(tree, lambda v: np.asarray(v.x)))

    def phi(self):
        return H.both(lambda a, b: self.F.det_vec(a, b), self.wu, self.wd)

    def walkers(self):
        return (self.w,) if self.restricted else (self.wu, self.wd)


def _lift(sp, M):
    from vc.jxvc.field import lift_array
    return lift_array(sp, np.asarray(M, dtype=object) if False else _fr_array(sp, M), force=True)


def _fr_array(sp, M):
    M = np.asarray(M, dtype=object)
    out = np.empty(M.shape, dtype=object)
    for idx in np.ndindex(*M.shape):
        v = M[idx]
        out[idx] = sp.const(v if isinstance(v, Fraction) else Fraction(v).limit_denominator(10 ** 9) if isinstance(v, float) else v)
    return out


def rational_orthogonal(n, how="rot"):
    """exact rational orthogonal matrix (product of Givens rotations with Pythagorean entries)"""
    if how == "identity":
        return np.array([[Fraction(int(i == j)) for j in range(n)] for i in range(n)], dtype=object)
    trip = [(Fraction(3, 5), Fraction(4, 5)), (Fraction(5, 13), Fraction(12, 13)), (Fraction(8, 17), Fraction(15, 17)),
            (Fraction(7, 25), Fraction(24, 25)), (Fraction(20, 29), Fraction(21, 29))]
    M = np.array([[Fraction(int(i == j)) for j in range(n)] for i in range(n)], dtype=object)
    k = 0
    for i in range(n):
        for j in range(i + 1, n):
            c, s = trip[k % len(trip)]
            k += 1
            G = np.array([[Fraction(int(a == b)) for b in range(n)] for a in range(n)], dtype=object)
            G[i, i], G[j, j], G[i, j], G[j, i] = c, c, s, -s
            M = M.dot(G)
    return M


# ====================================================================================== spec states of the CI kinds
def _add(v, t):
    return t if v is None else v + t


def cisd_state(F, c1, c2):
    """(1 + sum c1[i,a] E_{a i} + 1/2 sum c2[i,a,j,b] E_{a i} E_{b j}) |Phi0>,  E spin-summed, real amplitudes"""
    no = F.nel[0]
    nv = F.norb - no
    I = np.eye(F.norb)
    obj = getattr(c1, "dtype", None) == object
    ref = F.det_vec(I[:, :no], I[:, :no]).astype(object if obj else complex)
    if obj:
        one = c1.reshape(-1)[0] * 0 + 1 if c1.size else None
        ref = np.array([one * int(round(complex(x).real)) if one is not None else x for x in ref], dtype=object)
    E = lambda a, i, v: F.apply_E(a, i, 0, v) + F.apply_E(a, i, 1, v)
    psi = ref.copy()
    for i in range(no):
        for a in range(nv):
            psi = psi + E(no + a, i, ref) * c1[i, a]
    half = Fraction(1, 2) if obj else 0.5
    for j in range(no):
        for b in range(nv):
            t = E(no + b, j, ref)
            for i in range(no):
                for a in range(nv):
                    psi = psi + E(no + a, i, t) * (c2[i, a, j, b] * half)
    return psi


def ucisd_state(F, c1a, c1b, aa, bb, ab, moB):
    """same-spin amplitudes antisymmetric with weight 1/4, opposite spin weight 1; beta orbitals = columns of moB"""
    norb = F.norb
    nA, nB = F.nel
    vA, vB = norb - nA, norb - nB
    obj = any(getattr(x, "dtype", None) == object for x in (c1a, c1b, aa, bb, ab, moB))
    I = np.eye(norb)
    refB = moB[:, :nB]
    ref = F.det_vec(I[:, :nA].astype(object) if obj else I[:, :nA], refB)
    if obj:
        one = next(x for x in list(np.asarray(moB, dtype=object).reshape(-1)) if isinstance(x, Fr)) * 0 + 1
        ref = np.array([x if isinstance(x, Fr) else one * x for x in ref], dtype=object)
    EA = lambda a, i, v: F.apply_E(a, i, 0, v)

    def EB(a, i, v):
        A = np.outer(moB[:, a], moB[:, i])
        return F.one_body(A, 1, v)
    q = Fraction(1, 4) if obj else 0.25
    psi = ref.copy()
    for i in range(nA):
        for a in range(vA):
            psi = psi + EA(nA + a, i, ref) * c1a[i, a]
    for i in range(nB):
        for a in range(vB):
            psi = psi + EB(nB + a, i, ref) * c1b[i, a]
    for j in range(nA):
        for b in range(vA):
            t = EA(nA + b, j, ref)
            for i in range(nA):
                for a in range(vA):
                    psi = psi + EA(nA + a, i, t) * (aa[i, a, j, b] * q)
    for j in range(nB):
        for b in range(vB):
            t = EB(nB + b, j, ref)
            for i in range(nB):
                for a in range(vB):
                    psi = psi + EB(nB + a, i, t) * (bb[i, a, j, b] * q)
            for i in range(nA):
                for a in range(vA):
                    psi = psi + EA(nA + a, i, t) * ab[i, a, j, b]
    return psi


def gcisd_state(F, g1, g2, M):
    """GCISD in the GHF MO basis M (2norb x 2norb orthogonal): (1 + g1 E + 1/4 g2 E E)|ref>, projected on (nu,nd)"""
    import itertools
    norb = F.norb
    n = F.nel[0] + F.nel[1]
    so = 2 * norb
    nvv = so - n
    obj = any(getattr(x, "dtype", None) == object for x in (g1, g2, M))
    strings = list(itertools.combinations(range(so), n))
    sidx = {t: k for k, t in enumerate(strings)}

    def apply(A, v):    # sum_PQ A[P,Q] a+_P a_Q |v>  in the spin-orbital string basis
        out = np.array([v[0] * 0] * len(strings), dtype=object if obj else complex)
        for t in strings:
            vt = v[sidx[t]]
            for Q in t:
                r = Fock._ann(t, Q)
                for P in range(so):
                    a = A[P, Q]
                    if not isinstance(a, Fr) and a == 0:
                        continue
                    r2 = Fock._cre(r[1], P)
                    if r2 is None:
                        continue
                    term = vt * a
                    k = sidx[r2[1]]
                    out[k] = out[k] + term if r[0] * r2[0] > 0 else out[k] - term
        return out
    from vc.spec.fock import _det
    ref = np.array([_det(M[list(t), :n]) for t in strings], dtype=object if obj else complex)
    if obj:
        one = next(x for x in list(np.asarray(g1, dtype=object).reshape(-1)) + list(np.asarray(g2, dtype=object).reshape(-1)) if isinstance(x, Fr)) * 0 + 1
        ref = np.array([x if isinstance(x, Fr) else one * x for x in ref], dtype=object)
    EMO = lambda a, i, v: apply(np.outer(M[:, a], M[:, i]), v)
    q = Fraction(1, 4) if obj else 0.25
    psi = ref.copy()
    for i in range(n):
        for a in range(nvv):
            psi = psi + EMO(n + a, i, ref) * g1[i, a]
    for j in range(n):
        for b in range(nvv):
            t = EMO(n + b, j, ref)
            for i in range(n):
                for a in range(nvv):
                    psi = psi + EMO(n + a, i, t) * (g2[i, a, j, b] * q)
    out = np.empty(F.dim, dtype=object if obj else complex)
    for a in F.sa:
        for b in F.sb:
            out[F.idx(a, b)] = psi[sidx[tuple(list(a) + [norb + x for x in b])]]
    return out


# ====================================================================================== helpers
def run_real(case, method, args_V, intercept=None):
    """evaluate trial.<method>(*args) symbolically (+ natively at the point for the engine self-check)"""
    fn = getattr(case.trial, method)
    s, x = case.sx(tuple(args_V))
    out, it = evaluate(case.inp.sp, fn, s, x, intercept=intercept)
    nat = fn(*x) if intercept is None else None
    return out, nat, it


def fq(case, *methods):
    """qualified names (resolved through the MRO in wavefunctions.py) of the methods under contract"""
    from vc import front
    cls = type(case.trial).__name__
    out = []
    for m in methods:
        q = front.resolve_method(WF, cls, m)
        out.append(q or f"{WF}.{cls}.{m}")
    return out


def tag(kind, norb, nel, **kw):
    extra = "".join(f",{k}={v}" for k, v in sorted(kw.items()) if v is not None)
    return f"{kind}[norb={norb},nel={nel[0]}+{nel[1]}{extra}]"


def finish(obs, extra):
    return [o for o in obs + [e for e in extra if e is not None]]


# ====================================================================================== C01 obligations
def ov_fock(kind, norb, nu, nd, restricted=False, **kw):
    """C01.ov.fock: the overlap entry point == <psi_T(params)|Fock(walker)>"""
    t0 = time.time()
    nel = (nu, nd)
    c = Case(kind, norb, nel, restricted=restricted, **kw)
    meth = "_calc_overlap_restricted" if restricted else "_calc_overlap"
    args = list(c.walkers()) + [c.wave]
    out, nat, it = run_real(c, meth, args)
    spec = c.F.inner(c.psibar.s, c.phi().s)
    name = f"C01.ov.fock.{tag(kind, norb, nel, r=int(restricted), **{k: v for k, v in kw.items() if k in ('moB', 'moG', 'ndets')})}"
    o = H.identity(name, out, spec, functions=fq(c, meth), inputs=c.inp, t0=t0,
                   note=f"jaxpr primitives {sum(it.count.values())}, callees {sorted(set(it.calls))}")
    x = H.crosscheck(name, c.inp, out, nat, functions=fq(c, meth))
    if o["status"] == REFUTED:
        replay_overlap(o, c, meth, args)
    return finish([o], [x])


def replay_overlap(o, c, meth, args):
    """native replay: the real function at the rational point vs the numeric Fock spec (float twin of the spec)"""
    s, x = c.sx(tuple(args))
    got = complex(getattr(c.trial, meth)(*x))
    want = complex(c.F.inner(c.psibar.x, c.phi().x))
    err = abs(got - want) / (1 + abs(want))
    o["replayed"] = bool(err > 1e-8)
    o["witness"] = dict(o.get("witness") or {}, native=dict(method=meth, got=str(got), expected_fock=str(want), rel_err=err,
                                                            walker=np.asarray(x[0]).tolist().__repr__()[:400]))


def ov_ru(kind, norb, nocc, **kw):
    """C01.ov.ru: _calc_overlap_restricted(w) == _calc_overlap(w, w)"""
    t0 = time.time()
    c = Case(kind, norb, (nocc, nocc), restricted=True, **kw)
    a, nat_a, _ = run_real(c, "_calc_overlap_restricted", [c.w, c.wave])
    b, nat_b, _ = run_real(c, "_calc_overlap", [c.w, c.w, c.wave])
    name = f"C01.ov.ru.{tag(kind, norb, (nocc, nocc))}"
    o = H.identity(name, a, b, functions=fq(c, "_calc_overlap_restricted", "_calc_overlap"), inputs=c.inp, t0=t0)
    if o["status"] == REFUTED:
        o["replayed"] = bool(abs(complex(nat_a) - complex(nat_b)) > 1e-8 * (1 + abs(complex(nat_b))))
        o["witness"] = dict(o.get("witness") or {}, native=dict(restricted=str(complex(nat_a)), unrestricted=str(complex(nat_b))))
    return finish([o], [H.crosscheck(name + ".r", c.inp, a, nat_a), H.crosscheck(name + ".u", c.inp, b, nat_b)])


# ====================================================================================== C02 / C03: single-determinant kinds
def green_spec(C_b, w):
    """half Green's function of the contract:  (w (C^dagger w)^-1)^T   (C_b = conj(C) as symbols)"""
    M = C_b.T.dot(w)
    inv = inv_sym(M) if M.shape[0] else M
    return w.dot(inv).T


def full_green(C_b, G_half):
    """G[p,q] = <psi|a+_p a_q|phi>/<psi|phi> = sum_i conj(C)[p,i] G_half[i,q]"""
    return C_b.dot(G_half)


def wick_energy(h0, h1, L, G):
    """h0 + sum_s tr(h1[s]^T G_s) + 1/2 sum_g [(sum_s sum_pq L_pq G_s[p,q])^2 - sum_s sum L_pq L_rs G_s[p,s] G_s[r,q]]
    G = [G_up, G_dn] full mixed Green's functions (norb x norb), G_s[p,q] = <a+_p a_q>"""
    e = h0
    for s in range(2):
        e = e + np.sum(h1[s] * G[s])
    half = Fraction(1, 2) if is_obj(G[0]) or isinstance(h0, Fr) else 0.5
    for g in range(L.shape[0]):
        c = np.sum(L[g] * G[0]) + np.sum(L[g] * G[1])
        ex = 0
        for s in range(2):
            A = L[g].T.dot(G[s])          # A[q,s'] = sum_p L[p,q] G[p,s']
            ex = ex + np.sum(A * A.T)     # sum_{q,s'} A[q,s'] A[s',q] = sum L_pq L_rs G_ps G_rq
        e = e + (c * c - ex) * half
    return e


def wick_fb(L, G):
    return np.array([np.sum(L[g] * G[0]) + np.sum(L[g] * G[1]) for g in range(L.shape[0])], dtype=object)


def _same(a, b):
    fa, fb_ = np.asarray(a, dtype=object).reshape(-1), np.asarray(b, dtype=object).reshape(-1)
    if fa.size == 0 and fb_.size == 0:
        return np.shape(a) == np.shape(b)          # an empty spin channel: identified by its shape
    return fa.size == fb_.size and fa.size > 0 and fa[0] is fb_[0]


def _fresh(c, name, shape):
    return c.d[name]["V"]


class SDCase(Case):
    """single-determinant kinds with fresh Green's function symbols declared"""

    def __init__(self, kind, norb, nel, **kw):
        self._fresh_shapes = None
        super().__init__(kind, norb, nel, **kw)


def _declare_fresh(kind, norb, nel, ndets):
    nu, nd = nel
    if kind == "noci":
        return {"gu": (ndets, nu, norb), "gd": (ndets, nd, norb), "ok": (ndets,)}
    if kind in ("ghf",):
        return {"gg": (nu + nd, 2 * norb)}
    return {"gu": (nu, norb), "gd": (nd, norb)}


_orig_case_init = Case.__init__


def _case_init(self, kind, norb, nel, fresh=False, **kw):
    if fresh:
        # piggy-back extra holomorphic symbols for callee results (declared before the ring is built)
        shapes = _declare_fresh(kind, norb, nel, kw.get("ndets", 2))
        import vc.jxvc.harness as HH
        orig_build = HH.Inputs.build

        def build(inp):
            self._fresh = {k: inp.declare(k, s, "holo") for k, s in shapes.items()}
            return orig_build(inp)
        HH.Inputs.build = build
        try:
            _orig_case_init(self, kind, norb, nel, **kw)
        finally:
            HH.Inputs.build = orig_build
    else:
        _orig_case_init(self, kind, norb, nel, **kw)


Case.__init__ = _case_init


def green(kind, norb, nu, nd, **kw):
    """C02.green: the Green's-function helper returns (w (C^dagger w)^-1)^T per spin"""
    t0 = time.time()
    nel = (nu, nd)
    c = Case(kind, norb, nel, **kw)
    name = f"C02.green.{tag(kind, norb, nel)}"
    obs = []
    if kind == "rhf":
        out, nat, _ = run_real(c, "_calc_green", [c.wu, c.wave])
        spec = green_spec(c.Cb[0].s, c.wu.s)
    elif kind in ("uhf", "uhf_cpmc"):
        out, nat, _ = run_real(c, "_calc_green", [c.wu, c.wd, c.wave])
        spec = [green_spec(c.Cb[0].s, c.wu.s), green_spec(c.Cb[1].s, c.wd.s)]
        out = np.concatenate([np.asarray(o).reshape(-1) for o in out])
        spec = np.concatenate([np.asarray(o).reshape(-1) for o in spec])
        nat = np.concatenate([np.asarray(o).reshape(-1) for o in nat])
    elif kind == "noci":
        out, nat, _ = run_real(c, "_calc_green", [c.wu, c.wd, c.wave])
        du, dd = c.Db[0].s, c.Db[1].s
        gu = np.stack([green_spec(du[k], c.wu.s) for k in range(c.ndets)])
        gd = np.stack([green_spec(dd[k], c.wd.s) for k in range(c.ndets)])
        ok = np.array([det_sym(du[k].T.dot(c.wu.s)) * (det_sym(dd[k].T.dot(c.wd.s)) if nd else 1) for k in range(c.ndets)], dtype=object)
        spec = np.concatenate([gu.reshape(-1), gd.reshape(-1), ok.reshape(-1)])
        out = np.concatenate([np.asarray(o, dtype=object).reshape(-1) for o in out])
        nat = np.concatenate([np.asarray(o).reshape(-1) for o in nat])
    else:
        raise Unsupported(kind)
    o = H.identity(name, out, spec, functions=fq(c, "_calc_green"), inputs=c.inp, t0=t0)
    _replay_vs_spec(o, c.inp, spec, nat)
    return finish([o], [H.crosscheck(name, c.inp, out, nat)])


def _replay_vs_spec(o, inp, spec, nat, tol=1e-8):
    """native replay of a refuted identity: the REAL function's float64 output at the numeric point of the symbols against the spec evaluated there"""
    if o["status"] != REFUTED or o.get("replayed"):
        return
    try:
        want = np.asarray(inp.val(np.asarray(spec, dtype=object))).reshape(-1)
        got = np.asarray(nat).reshape(-1)
        dev = float(np.max(np.abs(got - want) / (1 + np.abs(want))))
        o["replayed"] = bool(dev > tol)
        o["witness"] = dict(o.get("witness") or {}, native=dict(max_rel_deviation_real_function_vs_spec=dev))
    except ZeroDivisionError:
        pass


def _intercepts(c):
    """contract substitution: Green's-function helpers return FRESH symbols (their own contract is C02.green)"""
    kind = c.kind
    fr = c._fresh

    def h_green_rhf(it, e, ins):
        if len(e.outvars) != 1:
            return None
        # a callee's contract is applied to the arguments it is stated for: the walker block decides which Green's function comes back
        if _same(ins[0], c.wu.s):
            return [fr["gu"]["V"].s]
        if _same(ins[0], c.wd.s):
            return [fr["gd"]["V"].s]
        raise Unsupported("Green's-function callee called with something that is not a walker block")

    def _walkers_first(ins):
        if not (len(ins) >= 2 and _same(ins[0], c.wu.s) and _same(ins[1], c.wd.s)):
            raise Unsupported("callee not called with (walker_up, walker_dn, ...)")

    def h_green_uhf(it, e, ins):
        if len(e.outvars) != 2:
            return None
        _walkers_first(ins)
        return [fr["gu"]["V"].s, fr["gd"]["V"].s]

    def h_green_sd(it, e, ins):       # noci: batched over determinants
        if len(e.outvars) != 2:
            return None
        _walkers_first(ins)
        return [fr["gu"]["V"].s, fr["gd"]["V"].s]

    def h_ov_sd(it, e, ins):
        if len(e.outvars) != 1:
            return None
        _walkers_first(ins)
        return [fr["ok"]["V"].s]
    if kind == "rhf":
        return {"_calc_green": h_green_rhf}
    if kind in ("uhf", "uhf_cpmc"):
        return {"_calc_green": h_green_uhf}
    if kind == "noci":
        return {"_calc_green_single_det": h_green_sd, "_calc_overlap_single_det": h_ov_sd}
    raise Unsupported(kind)


def _ham_sym(c):
    """the REAL _build_measurement_intermediates, evaluated symbolically (caller establishes the callee's requires)"""
    out, nat, _ = run_real(c, "_build_measurement_intermediates", [c.ham0, c.wave])
    return out, nat


def _sd_wick_terms(c, what):
    """Wick-form value of energy / force bias in terms of the fresh Green's symbols"""
    fr = c._fresh
    L, h1, h0 = c.L.s, c.h1.s, c.h0.s[()] if is_obj(c.h0.s) else c.h0.s
    if c.kind == "noci":
        du, dd, ci = c.Db[0].s, c.Db[1].s, c.d["ci"]["V"].s
        num = den = None
        for k in range(c.ndets):
            G = [full_green(du[k], fr["gu"]["V"].s[k]), full_green(dd[k], fr["gd"]["V"].s[k])]
            val = wick_energy(h0, h1, L, G) if what == "energy" else wick_fb(L, G)
            wgt = ci[k] * fr["ok"]["V"].s[k]
            num = val * wgt if num is None else num + val * wgt
            den = wgt if den is None else den + wgt
        return num / den
    G = [full_green(c.Cb[0].s, fr["gu"]["V"].s), full_green(c.Cb[1].s, fr["gd"]["V"].s)]
    return wick_energy(h0, h1, L, G) if what == "energy" else wick_fb(L, G)


def en_wick(kind, norb, nu, nd, restricted=False, what="energy", **kw):
    """C02.en.wick / C03.fb.wick: the energy / force-bias function, with the Green's-function helper replaced by fresh
    symbols (its contract), equals the Wick form in (G, trial, h1, chol, h0) - every symbol free."""
    t0 = time.time()
    nel = (nu, nd)
    c = Case(kind, norb, nel, fresh=True, restricted=restricted, **kw)
    ham, _ = _ham_sym(c)
    meth = {"energy": "_calc_energy", "fb": "_calc_force_bias"}[what] + ("_restricted" if restricted else "")
    fn = getattr(c.trial, meth)
    ws, wx = c.sx(tuple(c.walkers()))
    wvs, wvx = c.sx(c.wave)
    # example ham_data for tracing: run the real intermediates natively
    h0s, h0x = c.sx(c.ham0)
    ham_x = c.trial._build_measurement_intermediates(dict(h0x), wvx)
    out, it = evaluate(c.inp.sp, fn, tuple(ws) + (ham, wvs), tuple(wx) + (ham_x, wvx), intercept=_intercepts(c))
    if restricted:
        # restricted entry point: both spins share one Green's function; h1 is seen only through its average
        c._fresh["gd"] = c._fresh["gu"]
        hav = (c.h1.s[0] + c.h1.s[1]) * Fraction(1, 2)
        c.h1 = H.V(np.stack([hav, hav]), c.h1.x)
    spec = _sd_wick_terms(c, what)
    prop = "C02.en.wick" if what == "energy" else "C03.fb.wick"
    name = f"{prop}.{tag(kind, norb, nel, r=int(restricted), nchol=c.nchol)}"
    o = H.identity(name, out, spec, functions=fq(c, meth, "_build_measurement_intermediates"), inputs=c.inp, t0=t0,
                   note=f"callees replaced by contract: {sorted(set(it.calls) & set(_intercepts(c)))}")
    if o["status"] == REFUTED:
        replay_observable(o, kind, norb, nel, restricted, what, kw)
    return [o]


def replay_observable(o, kind, norb, nel, restricted, what, kw):
    """native replay: the real function vs the numeric Fock-space mixed estimator at a random rational point"""
    try:
        kw = {k: v for k, v in kw.items() if k not in ("fresh",)}
        c = Case(kind, norb, nel, restricted=restricted, **kw)
        s, x = c.sx(tuple(c.walkers()) + (c.ham0, c.wave))
        wx, h0x, wvx = x[:-2], x[-2], x[-1]
        ham_x = c.trial._build_measurement_intermediates(dict(h0x), wvx)
        meth = {"energy": "_calc_energy", "fb": "_calc_force_bias"}[what] + ("_restricted" if restricted else "")
        got = np.asarray(getattr(c.trial, meth)(*wx, ham_x, wvx))
        F = c.F
        phi = c.phi().x
        ovl = F.inner(c.psibar.x, phi)
        h1x = np.asarray(c.h1.x)
        if restricted:
            h1x = np.stack([(h1x[0] + h1x[1]) / 2] * 2)
        if what == "energy":
            want = F.inner(c.psibar.x, F.ham(complex(c.h0.x), h1x, np.asarray(c.L.x), phi)) / ovl
        else:
            want = np.array([F.inner(c.psibar.x, F.one_body_both(np.asarray(c.L.x)[g], phi)) / ovl for g in range(c.nchol)])
        err = float(np.max(np.abs(got - want) / (1 + np.abs(want))))
        o["replayed"] = bool(err > 1e-5)
        o["witness"] = dict(o.get("witness") or {}, native=dict(method=meth, got=str(got), expected_fock=str(want), rel_err=err,
                                                                point_seed=0))
    except Exception as e:  # noqa
        o["replayed"] = False
        o["witness"] = dict(o.get("witness") or {}, native_error=repr(e)[:300])


def wick_lemma(norb, nu, nd, order=2, part=None, prop="C02"):
    """Lemma (generalised Wick theorem at this shape), variables (trial C complex, walker):
       <psi|a+_p a_q|phi>/<psi|phi> = G[p,q]  and the two-body analogue with G = conj(C) (w (C^dagger w)^-1)^T."""
    t0 = time.time()
    nel = (nu, nd)
    c = Case("uhf", norb, nel, nchol=1)
    F = c.F
    phi, psib = c.phi().s, c.psibar.s
    O = F.inner(psib, phi)
    G = [full_green(c.Cb[0].s, green_spec(c.Cb[0].s, c.wu.s)), full_green(c.Cb[1].s, green_spec(c.Cb[1].s, c.wd.s))]
    bad, n = [], 0
    Ephi = {}
    for s in range(2):
        for r in range(norb):
            for q in range(norb):
                Ephi[(s, r, q)] = F.apply_E(r, q, s, phi)
    if order == 1:
        for s in range(2):
            for p in range(norb):
                for q in range(norb):
                    lhs = F.inner(psib, Ephi[(s, p, q)])
                    n += 1
                    if not (lhs - G[s][p, q] * O).iszero():
                        bad.append((s, p, q))
        name = f"{prop}.lemma.wick1[norb={norb},nel={nu}+{nd}]"
    else:
        todo = [(s, s2) for s in range(2) for s2 in range(2)]
        if part is not None:
            todo = [todo[part]]
        for s, s2 in todo:
            for p in range(norb):
                for q in range(norb):
                    for r in range(norb):
                        for t in range(norb):
                            v = F.apply_E(p, q, s, Ephi[(s2, r, t)])
                            if s == s2 and q == r:
                                v = v - Ephi[(s, p, t)]
                            lhs = F.inner(psib, v)
                            rhs = G[s][p, q] * G[s2][r, t]
                            if s == s2:
                                rhs = rhs - G[s][p, t] * G[s2][r, q]
                            n += 1
                            if not (lhs - rhs * O).iszero():
                                bad.append((s, s2, p, q, r, t))
        name = f"{prop}.lemma.wick2[norb={norb},nel={nu}+{nd}{'' if part is None else ',part=%d' % part}]"
    return [ob(name, REFUTED if bad else DISCHARGED, kind="bounded", backend="ring", wall=time.time() - t0,
               detail=f"{n} identities in (trial, walker); failing: {bad[:5]}", functions=["spec:vc/spec/fock.py"])]


# ====================================================================================== wave_function_auto lemma (any bra)
def _det_jvp(A, dA):
    """d det(A)[dA] = sum_k det(A with column k replaced by dA[:,k])"""
    n = A.shape[0]
    if n == 0:
        return 0
    tot = None
    for k in range(n):
        B = A.copy()
        B[:, k] = dA[:, k]
        t = det_sym(B)
        tot = t if tot is None else tot + t
    return tot


def bra_overlap(F, psib, wu, wd, du=None, dd=None):
    """O = sum_ab psib[ab] det(wu[a,:]) det(wd[b,:])  and optionally its directional derivative along (du, dd)"""
    da = {a: (det_sym(wu[list(a), :]) if F.nel[0] else 1) for a in F.sa}
    db = {b: (det_sym(wd[list(b), :]) if F.nel[1] else 1) for b in F.sb}
    O = None
    for a in F.sa:
        for b in F.sb:
            t = psib[F.idx(a, b)] * da[a] * db[b]
            O = t if O is None else O + t
    if du is None:
        return O
    dda = {a: (_det_jvp(wu[list(a), :], du[list(a), :]) if F.nel[0] else 0) for a in F.sa}
    ddb = {b: (_det_jvp(wd[list(b), :], dd[list(b), :]) if F.nel[1] else 0) for b in F.sb}
    dO = None
    for a in F.sa:
        for b in F.sb:
            t = psib[F.idx(a, b)] * (dda[a] * db[b] + da[a] * ddb[b])
            dO = t if dO is None else dO + t
    return O, dO


def split_by_var(poly, idx):
    """polynomial -> {k: coefficient polynomial of var^k} (var = generator number idx)"""
    out = {}
    R = poly.ring
    for m, cf in poly.terms():
        k = m[idx]
        m2 = m[:idx] + (0,) + m[idx + 1:]
        out.setdefault(k, {})[m2] = cf
    return {k: R.from_dict(v) for k, v in out.items()}


EPS_MARK = 0.00048828125 * 1.3125     # exactly representable marker value for trial.eps


def auto_energy_lemma(norb, nu, nd, nchol=1, restricted=False):
    """C02.en.fd.*: wave_function_auto._calc_energy(_restricted), with the (possibly jvp-transformed) overlap callee
    replaced by its C01 contract  O(w) = <bra|Fock(w)>  for an ARBITRARY bra (dim(Fock) free symbols), expanded in the
    finite-difference step eps:  order 0 == <bra|H|phi>/<bra|phi> exactly, order 1 == 0 (error is O(eps^2))."""
    t0 = time.time()
    H.setup_repo()
    import jax.numpy as jnp
    from ad_afqmc import wavefunctions as wf
    from vc import front
    nel = (nu, nd)
    import vc.jxvc.harness as HH
    orig_build = HH.Inputs.build
    holder = {}

    def build(inp):
        holder["eps"] = inp.declare("eps", ())
        return orig_build(inp)
    HH.Inputs.build = build
    try:
        c = Case("bra", norb, nel, nchol=nchol, restricted=restricted, spin_dep=not restricted)
    finally:
        HH.Inputs.build = orig_build
    F, sp = c.F, c.inp.sp
    eps_s = holder["eps"]["V"].s[()]
    eps_idx = sp.names.index("eps")
    # carrier object: any wave_function_auto subclass; its own overlap code is never interpreted (intercepted by contract)
    if restricted:
        carrier = wf.CISD(norb, nel)
        no, nv = nu, norb - nu
        wave_x = dict(ci1=jnp.zeros((no, nv)), ci2=jnp.zeros((no, nv, no, nv)))
        oname, nwalk = "_calc_overlap_restricted", 1
    else:
        carrier = wf.UCISD(norb, nel)
        wave_x = dict(mo_coeff=[jnp.eye(norb), jnp.eye(norb)], ci1A=jnp.zeros((nu, norb - nu)), ci1B=jnp.zeros((nd, norb - nd)),
                      ci2AA=jnp.zeros((nu, norb - nu, nu, norb - nu)), ci2BB=jnp.zeros((nd, norb - nd, nd, norb - nd)),
                      ci2AB=jnp.zeros((nu, norb - nu, nd, norb - nd)))
        oname, nwalk = "_calc_overlap", 2
    carrier.eps = EPS_MARK
    meth = "_calc_energy_restricted" if restricted else "_calc_energy"
    q = front.resolve_method(WF, type(carrier).__name__, meth)
    if q != f"{WF}.wave_function_auto.{meth}":
        raise Unsupported(f"{type(carrier).__name__}.{meth} no longer resolves to wave_function_auto")
    import jax
    nwave = len(jax.tree_util.tree_leaves(wave_x))
    psib = c.psibar.s
    seen = {"plain": 0, "jvp": 0}

    def h_overlap(it, e, ins):
        nin, nout = len(ins), len(e.outvars)
        sym = [it.sym(x) if not is_obj(x) else x for x in ins[:nwalk]]
        wu, wd = (sym[0], sym[0]) if restricted else (sym[0], sym[1])
        if nin == nwalk + nwave and nout == 1:
            seen["plain"] += 1
            r = np.empty((), dtype=object)
            r[()] = bra_overlap(F, psib, wu, wd)
            return [r]
        if nin == 2 * nwalk + nwave and nout == 2:
            seen["jvp"] += 1
            tang = [it.sym(x) if not is_obj(x) else x for x in ins[nwalk + nwave:]]
            du, dd = (tang[0], tang[0]) if restricted else (tang[0], tang[1])
            O, dO = bra_overlap(F, psib, wu, wd, du, dd)
            a, b = np.empty((), dtype=object), np.empty((), dtype=object)
            a[()], b[()] = O, dO
            return [a, b]
        raise Unsupported(f"{oname} callee with unexpected arity in={nin} out={nout}")

    def lit(a):
        # marker literals in every dtype the tracer promoted them to
        if a.shape == () and a.dtype.kind in "fc":
            v = complex(a)
            for sgn in (1, -1):
                if v == sgn * EPS_MARK:
                    r = np.empty((), dtype=object)
                    r[()] = eps_s if sgn > 0 else -eps_s
                    return r
            ok = {0.0, 1.0, -1.0, 2.0, 0.5, -2.0, 4.0, 0.25}
            if v.imag == 0 and v.real in ok:
                return None
            raise Unsupported(f"unexpected float literal {v} in the finite-difference energy (not marker-derived, not whitelisted)")
        return None

    # real intermediates of the auto class (normal ordering term)
    hs, hx = c.sx(c.ham0)
    ham_x = carrier._build_measurement_intermediates(dict(hx), wave_x)
    ham_s, _ = evaluate(sp, carrier._build_measurement_intermediates, (hs, jax.tree_util.tree_map(np.asarray, wave_x)), (hx, wave_x))
    ws, wx = c.sx(tuple(c.walkers()))
    wave_np = jax.tree_util.tree_map(np.asarray, wave_x)
    out, it = evaluate(sp, getattr(carrier, meth), tuple(ws) + (ham_s, wave_np), tuple(wx) + (ham_x, wave_x),
                       intercept={oname: h_overlap}, literal_hook=lit)
    E = out[()] if isinstance(out, np.ndarray) else out
    # spec
    phi = c.phi().s
    h1s = c.h1.s
    Hphi = F.ham(c.h0.s[()], h1s, c.L.s, phi)
    N0, D0 = F.inner(psib, Hphi), F.inner(psib, phi)
    num = split_by_var(E.n, eps_idx)
    Efull = E.d
    den = split_by_var(Efull, eps_idx) if Efull is not None else {0: sp.R.one}
    tagname = f"[norb={norb},nel={nu}+{nd},nchol={nchol},r={int(restricted)}]"
    fns = [q, f"{WF}.wave_function_auto._build_measurement_intermediates",
           f"{WF}.wave_function_auto._overlap_with_single_rot" + ("_restricted" if restricted else ""),
           f"{WF}.wave_function_auto._overlap_with_double_rot" + ("_restricted" if restricted else "")]
    obs = []
    if len(den) != 1:
        return [ob(f"C02.en.fd.order0{tagname}", UNDECIDED, kind="bounded", backend="ring", detail="denominator is not a monomial in eps")]
    m = next(iter(den))
    Dp = den[m]
    low = [k for k in num if k < m and num[k] != 0]
    obs.append(ob(f"C02.en.fd.finite{tagname}", REFUTED if low else DISCHARGED, kind="bounded", backend="ring",
                  detail=f"no negative powers of eps remain (denominator eps^{m}); offending orders {low}", functions=fns))
    c0 = Fr(num.get(m, sp.R.zero), Dp, sp)
    o0 = H.identity(f"C02.en.fd.order0{tagname}", c0, N0 / D0, functions=fns, inputs=c.inp, t0=t0,
                    note=f"eps^0 coefficient == <bra|H|phi>/<bra|phi> for an arbitrary bra; overlap callee replaced by contract "
                         f"({seen['plain']} plain, {seen['jvp']} jvp-transformed calls)")
    if o0["status"] == REFUTED:
        # native replay: the finite-difference energy of an AD trial (UCISD, spin-dependent h1, unrestricted complex walker) against the Fock estimator;
        # tolerance 1e-5: the step size enters at second order
        replay_observable(o0, "CISD" if restricted else "UCISD", 3, (1, 1) if restricted else (2, 1), restricted, "energy", {} if not restricted else {"spin_dep": False})
    obs.append(o0)
    c1 = num.get(m + 1, sp.R.zero)
    obs.append(ob(f"C02.en.fd.odd{tagname}", DISCHARGED if c1 == 0 else REFUTED, kind="bounded", backend="ring",
                  detail="eps^1 coefficient vanishes identically (error is O(eps^2))", functions=fns))
    if seen["plain"] == 0 or seen["jvp"] == 0:
        obs.append(ob(f"C02.en.fd.callees{tagname}", UNDECIDED, kind="bounded", detail=f"expected overlap callees not seen: {seen}"))
    return obs


# ====================================================================================== direct comparisons with the Fock spec
def obs_fock(kind, norb, nu, nd, what="energy", restricted=False, **kw):
    """C02.en.fock / C03.fb.fock: the energy / force-bias entry point, fully interpreted (no callee abstracted), equals
    <psi|H|phi>/<psi|phi> resp. <psi|L_g|phi>/<psi|phi> built on the Fock space from the same symbols."""
    try:
        return _obs_fock(kind, norb, nu, nd, what=what, restricted=restricted, **kw)
    except Unsupported as e:
        if "holomorphic" not in str(e):
            raise
        # the code conjugates / takes the real part of a walker-dependent quantity: decide with Wirtinger pairs for the walker
        # (the result must still be holomorphic in the walker, i.e. independent of the conjugate symbols); doubling the walker
        # symbols is expensive, so this is decided at the smallest shape of the kind
        small = {"GCISD": (2, 1, 1)}.get(kind, (2, 1, 1) if not restricted else (2, 1, 1))
        out = _obs_fock(kind, small[0], small[1], small[2], what=what, restricted=restricted, walker_partner=True, **kw)
        for o in out:
            o["detail"] = f"[non-holomorphic operation on the walker at the requested shape norb={norb},nel={nu}+{nd}: decided with conjugate " \
                          f"walker symbols at the smallest shape] " + (o["detail"] or "")
        return out


def _obs_fock(kind, norb, nu, nd, what="energy", restricted=False, **kw):
    t0 = time.time()
    nel = (nu, nd)
    c = Case(kind, norb, nel, restricted=restricted, **kw)
    meth = {"energy": "_calc_energy", "fb": "_calc_force_bias"}[what] + ("_restricted" if restricted else "")
    hs, hx = c.sx(c.ham0)
    wvs, wvx = c.sx(c.wave)
    ham_x = c.trial._build_measurement_intermediates(dict(hx), wvx)
    ham_s, _ = evaluate(c.inp.sp, c.trial._build_measurement_intermediates, (hs, wvs), (hx, wvx))
    ws, wx = c.sx(tuple(c.walkers()))
    fn = getattr(c.trial, meth)
    out, it = evaluate(c.inp.sp, fn, tuple(ws) + (ham_s, wvs), tuple(wx) + (ham_x, wvx))
    nat = fn(*wx, ham_x, wvx)
    F = c.F
    phi, psib = c.phi().s, c.psibar.s
    D0 = F.inner(psib, phi)
    h1s = c.h1.s
    if restricted:
        hav = (h1s[0] + h1s[1]) * Fraction(1, 2)
        h1s = np.stack([hav, hav])
    if what == "energy":
        spec = F.inner(psib, F.ham(c.h0.s[()], h1s, c.L.s, phi)) / D0
    else:
        spec = np.array([F.inner(psib, F.one_body_both(c.L.s[g], phi)) / D0 for g in range(c.nchol)], dtype=object)
    prop = "C02.en.fock" if what == "energy" else "C03.fb.fock"
    name = f"{prop}.{tag(kind, norb, nel, r=int(restricted), nchol=c.nchol, **{k: v for k, v in kw.items() if k in ('moB', 'moG')})}"
    o = H.identity(name, out, spec, functions=fq(c, meth, "_build_measurement_intermediates"), inputs=c.inp, t0=t0,
                   note=f"primitives {sum(it.count.values())}")
    tol = 1e-4 if kind in ("cisd", "cisd_faster", "ucisd") and what == "energy" else 1e-8   # single-precision casts in the hand-coded CI energies
    x = H.crosscheck(name, c.inp, out, nat, tol=tol)
    if o["status"] == REFUTED:
        replay_observable(o, kind, norb, nel, restricted, what, kw)
    return finish([o], [x])


def auto_inherits(kind):
    """the AD-based kinds evaluate energy through wave_function_auto (so the en.fd lemma applies to them) and define
    their own overlap (C01) - structural fact read from the class table of the current source"""
    from vc import front
    t0 = time.time()
    out = []
    for meth in ("_calc_energy", "_calc_energy_restricted", "_build_measurement_intermediates"):
        q = front.resolve_method(WF, kind, meth)
        ok = q == f"{WF}.wave_function_auto.{meth}"
        out.append(ob(f"C02.en.auto.inherits.{kind}.{meth}", DISCHARGED if ok else UNDECIDED, kind="ground", backend="class-table",
                      detail=f"resolves to {q}", functions=[q or ""], wall=time.time() - t0))
    return out


def ov_mob(kind, norb, nu, nd):
    """C01.ov.mob: UCISD/ucisd depend on (mo_coeff[1], walker_dn) only through mo_coeff[1]^T walker_dn:
       overlap(wu, wd; moB) == overlap(wu, moB^T wd; I)  for an ARBITRARY (symbolic) matrix moB.
    Together with ov.fock at moB = I and at an exact rational orthogonal moB this gives the statement for every
    orthogonal moB (for orthogonal moB the beta-rotated trial satisfies <U psi|phi> = <psi|U^T phi>: Thouless)."""
    t0 = time.time()
    nel = (nu, nd)
    c = Case(kind, norb, nel, moB="symbolic")
    a, nat, _ = run_real(c, "_calc_overlap", [c.wu, c.wd, c.wave])
    wave_I = dict(c.wave)
    eye = c.wave["mo_coeff"][0]
    wave_I["mo_coeff"] = [eye, eye]
    wd2 = H.both(lambda m, w: m.T.dot(w), c.moB, c.wd)
    b, nat_b, _ = run_real(c, "_calc_overlap", [c.wu, wd2, wave_I])
    name = f"C01.ov.mob.{tag(kind, norb, nel)}"
    o = H.identity(name, a, b, functions=fq(c, "_calc_overlap"), inputs=c.inp, t0=t0)
    if o["status"] == REFUTED:
        # native replay: the two real evaluations at the numeric point of the symbols
        d = abs(complex(np.asarray(nat).reshape(-1)[0]) - complex(np.asarray(nat_b).reshape(-1)[0]))
        o["replayed"] = bool(d > 1e-9 * (1 + abs(complex(np.asarray(nat_b).reshape(-1)[0]))))
        o["witness"] = dict(o.get("witness") or {}, native=dict(overlap_with_moB=str(np.asarray(nat).reshape(-1)[0]), overlap_of_rotated_walker_with_identity=str(np.asarray(nat_b).reshape(-1)[0])))
    return finish([o], [H.crosscheck(name, c.inp, a, nat)])


def obs_ru(kind, norb, nocc, what="fb", **kw):
    """C03.fb.ru / C02.en.ru: restricted entry point == unrestricted entry point on equal blocks"""
    t0 = time.time()
    nel = (nocc, nocc)
    c = Case(kind, norb, nel, restricted=True, spin_dep=False, **kw)
    hs, hx = c.sx(c.ham0)
    wvs, wvx = c.sx(c.wave)
    ham_x = c.trial._build_measurement_intermediates(dict(hx), wvx)
    ham_s, _ = evaluate(c.inp.sp, c.trial._build_measurement_intermediates, (hs, wvs), (hx, wvx))
    base = {"energy": "_calc_energy", "fb": "_calc_force_bias"}[what]
    ws, wx = c.sx((c.w,))
    a, _ = evaluate(c.inp.sp, getattr(c.trial, base + "_restricted"), (ws[0], ham_s, wvs), (wx[0], ham_x, wvx))
    b, _ = evaluate(c.inp.sp, getattr(c.trial, base), (ws[0], ws[0], ham_s, wvs), (wx[0], wx[0], ham_x, wvx))
    prop = "C02.en.ru" if what == "energy" else "C03.fb.ru"
    name = f"{prop}.{tag(kind, norb, nel)}"
    o = H.identity(name, a, b, functions=fq(c, base + "_restricted", base), inputs=c.inp, t0=t0)
    if o["status"] == REFUTED:
        na, nb = np.asarray(getattr(c.trial, base + "_restricted")(wx[0], ham_x, wvx)), np.asarray(getattr(c.trial, base)(wx[0], wx[0], ham_x, wvx))
        o["replayed"] = bool(np.max(np.abs(na - nb)) > 1e-8 * (1 + np.max(np.abs(nb))))
        o["witness"] = dict(o.get("witness") or {}, native=dict(restricted=str(na), unrestricted=str(nb)))
    return [o]


def canary(which="overlap"):
    """vacuity guards: perturbed postconditions that MUST be refuted"""
    t0 = time.time()
    c = Case("uhf", 2, (1, 1))
    if which == "overlap":
        out, _, _ = run_real(c, "_calc_overlap", [c.wu, c.wd, c.wave])
        spec = c.F.inner(c.psibar.s, c.phi().s)
        o = H.identity("canary.ov.fock.plus1", out, spec + 1, t0=t0)
    elif which == "conj":
        out, _, _ = run_real(c, "_calc_overlap", [c.wu, c.wd, c.wave])
        spec = c.F.inner(H.both(lambda a, b: c.F.det_vec(a, b), c.C[0], c.Cb[1]).s, c.phi().s)   # bra without conj on one spin
        o = H.identity("canary.ov.fock.noconj", out, spec, t0=t0)
    else:
        c = Case("uhf", 2, (1, 1), fresh=True)
        ham, _ = _ham_sym(c)
        ws, wx = c.sx(tuple(c.walkers()))
        wvs, wvx = c.sx(c.wave)
        h0s, h0x = c.sx(c.ham0)
        ham_x = c.trial._build_measurement_intermediates(dict(h0x), wvx)
        meth = "_calc_energy" if which == "energy" else "_calc_force_bias"
        out, it = evaluate(c.inp.sp, getattr(c.trial, meth), tuple(ws) + (ham, wvs), tuple(wx) + (ham_x, wvx), intercept=_intercepts(c))
        spec = _sd_wick_terms(c, "energy" if which == "energy" else "fb")
        o = H.identity(f"canary.{which}.wick.twice", out, spec * 2, t0=t0)
    o["kind"] = "canary"
    return [o]


# ====================================================================================== C14: restricted == unrestricted descriptions
def ru_trial(what, norb, nocc, nchol=1):
    """C14.ru.<what>: rhf trial on a restricted walker == uhf trial (same orbitals for both spins) on [w, w]"""
    t0 = time.time()
    H.setup_repo()
    from ad_afqmc import wavefunctions as wf
    c = Case("rhf", norb, (nocc, nocc), nchol=nchol, restricted=True, spin_dep=False)
    u = wf.uhf(norb, (nocc, nocc))
    wave_u = dict(mo_coeff=[c.wave["mo_coeff"], c.wave["mo_coeff"]])
    ws, wx = c.sx((c.w,))
    wrs, wrx = c.sx(c.wave)
    wus, wux = c.sx(wave_u)
    hs, hx = c.sx(c.ham0)
    name = f"C14.ru.{what}[norb={norb},nocc={nocc},nchol={nchol}]"
    fns = []
    if what == "overlap":
        a, _ = evaluate(c.inp.sp, c.trial._calc_overlap_restricted, (ws[0], wrs), (wx[0], wrx))
        b, _ = evaluate(c.inp.sp, u._calc_overlap, (ws[0], ws[0], wus), (wx[0], wx[0], wux))
        fns = ["wavefunctions.rhf._calc_overlap_restricted", "wavefunctions.uhf._calc_overlap"]
    else:
        hr_x = c.trial._build_measurement_intermediates(dict(hx), wrx)
        hu_x = u._build_measurement_intermediates(dict(hx), wux)
        hr_s, _ = evaluate(c.inp.sp, c.trial._build_measurement_intermediates, (hs, wrs), (hx, wrx))
        hu_s, _ = evaluate(c.inp.sp, u._build_measurement_intermediates, (hs, wus), (hx, wux))
        base = {"energy": "_calc_energy", "fb": "_calc_force_bias"}[what]
        a, _ = evaluate(c.inp.sp, getattr(c.trial, base + "_restricted"), (ws[0], hr_s, wrs), (wx[0], hr_x, wrx))
        b, _ = evaluate(c.inp.sp, getattr(u, base), (ws[0], ws[0], hu_s, wus), (wx[0], wx[0], hu_x, wux))
        fns = [f"wavefunctions.rhf.{base}_restricted", f"wavefunctions.uhf.{base}"]
    return [H.identity(name, a, b, functions=fns, inputs=c.inp, t0=t0, note="closed shell: restricted description == unrestricted description with equal spin blocks")]


def ru_propagation(norb, nocc, nchol=1):
    """C14.ru.prop: restricted and unrestricted _build_propagation_intermediates agree when h1[0]=h1[1], rdm1[0]=rdm1[1]
    (the argument handed to expm is compared: expm is an uninterpreted function)"""
    t0 = time.time()
    H.setup_repo()
    import jax.numpy as jnp
    from ad_afqmc import propagation, wavefunctions as wf
    inp = H.Inputs(4)
    hh0, hha, hla, hr = inp.declare("h0", ()), inp.declare("ha", (norb, norb)), inp.declare("la", (nchol, norb, norb)), inp.declare("ra", (norb, norb))
    inp.build()
    sp = inp.sp
    h1 = hha["V"].map(lambda a: np.stack([a + a.T, a + a.T]))
    L = hla["V"].map(lambda a: (a + np.swapaxes(a, -1, -2)).reshape(nchol, norb * norb))
    rdm = hr["V"].map(lambda a: np.stack([a + a.T, a + a.T]))
    zero = H.V(_lift(sp, np.array(0.0)), np.array(0.0))
    ham = dict(h0=hh0["V"], h1=h1, chol=L, ene0=zero)
    wave = dict(rdm1=rdm)
    import jax
    leaves = lambda t, f: jax.tree_util.tree_map(f, t, is_leaf=lambda x: isinstance(x, H.V))
    hs, hx = leaves(ham, lambda v: v.s), leaves(ham, lambda v: jnp.asarray(v.x))
    ws_, wx_ = leaves(wave, lambda v: v.s), leaves(wave, lambda v: jnp.asarray(v.x))
    trial = wf.rhf(norb, (nocc, nocc))

    def h_expm(it, e, ins):
        return [ins[0]]          # uninterpreted function of its argument: compare the arguments
    pr, pu = propagation.propagator_restricted(dt=0.01, n_walkers=2), propagation.propagator_unrestricted(dt=0.01, n_walkers=2)
    fr = lambda h, w: pr._build_propagation_intermediates(h, trial, w)
    fu = lambda h, w: pu._build_propagation_intermediates(h, wf.uhf(norb, (nocc, nocc)), w)
    a, ita = evaluate(sp, fr, (hs, ws_), (dict(hx), wx_), intercept={"expm": h_expm})
    b, itb = evaluate(sp, fu, (hs, ws_), (dict(hx), wx_), intercept={"expm": h_expm})
    out = []
    name = f"C14.ru.prop[norb={norb},nchol={nchol}]"
    fns = ["propagation.propagator_restricted._build_propagation_intermediates", "propagation.propagator_unrestricted._build_propagation_intermediates"]
    if "expm" not in ita.calls or "expm" not in itb.calls:
        return [ob(name, UNDECIDED, kind="bounded", detail="expm callee not seen", functions=fns)]
    out.append(H.identity(name + ".mf_shifts", a["mf_shifts"], b["mf_shifts"], functions=fns, inputs=inp, t0=t0))
    out.append(H.identity(name + ".h0_prop", a["h0_prop"], b["h0_prop"], functions=fns, inputs=inp, t0=t0))
    eb = np.asarray(b["exp_h1"], dtype=object)
    out.append(H.identity(name + ".exp_h1.up", a["exp_h1"], eb[0], functions=fns, inputs=inp, t0=t0, note="same expm argument for the up block"))
    out.append(H.identity(name + ".exp_h1.dn", a["exp_h1"], eb[1], functions=fns, inputs=inp, t0=t0, note="same expm argument for the down block"))
    if any(o["status"] == REFUTED for o in out):
        # native replay at the numeric point of the symbols: the two real functions, with the real expm
        an, bn = fr(dict(hx), wx_), fu(dict(hx), wx_)
        devs = {".mf_shifts": float(np.abs(np.asarray(an["mf_shifts"]) - np.asarray(bn["mf_shifts"])).max()),
                ".h0_prop": float(np.abs(np.asarray(an["h0_prop"]) - np.asarray(bn["h0_prop"])).max()),
                ".exp_h1.up": float(np.abs(np.asarray(an["exp_h1"]) - np.asarray(bn["exp_h1"])[0]).max()),
                ".exp_h1.dn": float(np.abs(np.asarray(an["exp_h1"]) - np.asarray(bn["exp_h1"])[1]).max())}
        for o in out:
            if o["status"] == REFUTED:
                d = next(v for k, v in devs.items() if o["name"].endswith(k))
                o["replayed"] = bool(d > 1e-10)
                o["witness"] = dict(o.get("witness") or {}, native=dict(h1=np.asarray(hx["h1"]).tolist(), chol=np.asarray(hx["chol"]).tolist(), rdm1=np.asarray(wx_["rdm1"]).tolist(),
                                                                          dt=0.01, max_abs_restricted_minus_unrestricted=d))
    return out


# ====================================================================================== C01: one-particle density matrices
def rdm_true(kind, norb, nu, nd, complex_orbitals=False):
    """C01.rdm.true.<kind>: _calc_rdm1 is the true <psi| a+ a |psi>/<psi|psi> of the trial state (rdm1[s][p,q] = <a+_q a_p>, the convention of uhf).
    rhf/uhf/ghf: exact (Gaussian-)rational ORTHONORMAL orbitals; noci: general symbolic real determinants and coefficients."""
    t0 = time.time()
    H.setup_repo()
    import jax.numpy as jnp
    from ad_afqmc import wavefunctions as wf
    nel = (nu, nd)
    F = Fock(norb, nel)
    name = f"C01.rdm.true.{tag(kind, norb, nel, cplx=int(complex_orbitals))}"
    if kind == "noci":
        c = Case("noci", norb, nel, ndets=2)
        s, x = c.sx(c.wave)
        got, _ = evaluate(c.inp.sp, c.trial._calc_rdm1, (s,), (x,))
        psib, psi = c.psibar.s, c.psiket.s
        nrm = F.inner(psib, psi)
        want = np.empty((2, norb, norb), dtype=object)
        for sp_ in range(2):
            for p in range(norb):
                for q in range(norb):
                    want[sp_, p, q] = F.inner(psib, F.apply_E(q, p, sp_, psi)) / nrm
        o = H.identity(name, got, want, functions=fq(c, "_calc_rdm1"), inputs=c.inp, t0=t0, note="NOCI 1-RDM == <psi|a+_q a_p|psi>/<psi|psi> for symbolic complex determinants, real coefficients")
        _replay_vs_spec(o, c.inp, want, c.trial._calc_rdm1(x))
        return [o]
    # exact orthonormal orbitals
    M = rational_orthogonal(2 * norb if kind == "ghf" else norb)
    Mc = np.array(M, dtype=object)
    if complex_orbitals:     # multiply the columns by unit-modulus Gaussian rationals and mix two rows with a complex rotation
        ph = [(Fraction(3, 5), Fraction(4, 5)), (Fraction(5, 13), Fraction(-12, 13)), (Fraction(8, 17), Fraction(15, 17)), (Fraction(7, 25), Fraction(24, 25))]
        Mc = np.array([[complex(float(M[i, j]), 0) for j in range(M.shape[1])] for i in range(M.shape[0])], dtype=object)
        cols = []
        for j in range(M.shape[1]):
            a, b = ph[j % len(ph)]
            cols.append([(M[i, j] * a, M[i, j] * b) for i in range(M.shape[0])])
        Mc = cols     # list of columns of (re, im) Fractions
    inp = H.Inputs(3)
    dummy = inp.declare("dummy", ())
    inp.build()
    sp = inp.sp

    def col_arrays(ncols_from, ncols):
        a_s = np.empty((M.shape[0], ncols), dtype=object)
        a_x = np.empty((M.shape[0], ncols), dtype=complex)
        for j in range(ncols):
            for i in range(M.shape[0]):
                if complex_orbitals:
                    re, im = Mc[ncols_from + j][i]
                    a_s[i, j] = sp.const((re, im))
                    a_x[i, j] = complex(float(re), float(im))
                else:
                    a_s[i, j] = sp.const(M[i, ncols_from + j])
                    a_x[i, j] = float(M[i, ncols_from + j])
        return a_s, (a_x if complex_orbitals else a_x.real)
    if kind == "rhf":
        trial = wf.rhf(norb, nel)
        cs, cx = col_arrays(0, nu)
        wave_s, wave_x = dict(mo_coeff=cs), dict(mo_coeff=jnp.asarray(cx))
        psi = F.det_vec(cs, cs)
    elif kind == "uhf":
        trial = wf.uhf(norb, nel)
        cs, cx = col_arrays(0, nu)
        ds, dx = col_arrays(norb - nd, nd)
        wave_s, wave_x = dict(mo_coeff=[cs, ds]), dict(mo_coeff=[jnp.asarray(cx), jnp.asarray(dx)])
        psi = F.det_vec(cs, ds)
    elif kind == "ghf":
        # the GHF trial state is the spin-orbital determinant itself (all S_z sectors): 1-RDM on the spin-orbital Fock space
        import itertools
        trial = wf.ghf(norb, nel)
        cs, cx = col_arrays(0, nu + nd)
        n, so = nu + nd, 2 * norb
        strings = list(itertools.combinations(range(so), n))
        sidx = {t: k for k, t in enumerate(strings)}
        amp = [det_sym(cs[list(t), :]) for t in strings]
        nrm = sum((a.conj() * a for a in amp[1:]), amp[0].conj() * amp[0])
        got = np.asarray(trial._calc_rdm1(dict(mo_coeff=jnp.asarray(cx))))
        bad, worst = [], 0.0
        for sp_ in range(2):
            for p_ in range(norb):
                for q_ in range(norb):
                    P, Q = p_ + sp_ * norb, q_ + sp_ * norb
                    tot = sp.zero
                    for t in strings:           # <psi| a+_Q a_P |psi>
                        r = Fock._ann(t, P)
                        if r is None:
                            continue
                        r2 = Fock._cre(r[1], Q)
                        if r2 is None:
                            continue
                        term = amp[sidx[r2[1]]].conj() * amp[sidx[t]]
                        tot = tot + term if r[0] * r2[0] > 0 else tot - term
                    wv = complex((tot / nrm).evalf({}))
                    dev = abs(complex(got[sp_, p_, q_]) - wv)
                    worst = max(worst, dev)
                    if dev > 1e-12:
                        bad.append((sp_, p_, q_, str(complex(got[sp_, p_, q_])), str(wv)))
        return [ob(name, REFUTED if bad else DISCHARGED, kind="bounded", backend="exact-arithmetic-exec", wall=time.time() - t0, functions=[f"{WF}.ghf._calc_rdm1"], replayed=bool(bad),
                   detail=(f"spin blocks of the 1-RDM of the spin-orbital determinant (max dev {worst:.1e})" if not bad else f"{len(bad)} entries differ: first {bad[0]}"),
                   witness=dict(native=bad[:3]) if bad else None)]
    else:
        raise Unsupported(kind)
    psib = np.array([v.conj() if isinstance(v, Fr) else v for v in psi], dtype=object)
    got = np.asarray(trial._calc_rdm1(wave_x))
    nrm = F.inner(psib, psi)
    bad, worst = [], 0.0
    for sp_ in range(2):
        for p in range(norb):
            for q in range(norb):
                w = F.inner(psib, F.apply_E(q, p, sp_, psi)) / nrm
                wv = complex(w.evalf({})) if isinstance(w, Fr) else complex(w)
                dev = abs(complex(got[sp_, p, q]) - wv)
                worst = max(worst, dev)
                if dev > 1e-12:
                    bad.append((sp_, p, q, str(complex(got[sp_, p, q])), str(wv)))
    fns = [f"{WF}.{kind}._calc_rdm1"]
    return [ob(name, REFUTED if bad else DISCHARGED, kind="bounded", backend="exact-arithmetic-exec", wall=time.time() - t0, functions=fns, replayed=bool(bad),
               witness_class="complex-orbitals" if complex_orbitals else "real-orbitals",
               detail=(f"rdm1[s][p,q] == <a+_q a_p> for exact {'complex ' if complex_orbitals else ''}orthonormal orbitals (max dev {worst:.1e})" if not bad else
                       f"{len(bad)} entries differ from <psi|a+_q a_p|psi>: first {bad[0]}"), witness=dict(native=bad[:3]) if bad else None)]

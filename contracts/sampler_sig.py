"""C12 (part 1) – call/dispatch conformance of the sampler entry points and the driver.

sig.call.*      every call `x.m(...)` in sampling.py / driver.py whose receiver has a class annotation
                (ham: hamiltonian, prop/propagator: propagator, trial: wave_function, self: sampler) conforms to the
                signature of m in the annotated class AND in every subclass override (arity, keyword names), and
                every argument at a `static_argnums` position of a jit-decorated callee is a static object
                (a receiver-like parameter), never one of the data dictionaries.
sig.dispatch.*  for every `singledispatchmethod` of wave_function the implementation selected for list walkers,
                concrete arrays and TRACED arrays (tracer classes obtained from jax itself: jit, vmap, jvp, scan
                bodies) is a registered implementation, not the raising fallback.  Ground facts asked of the real
                functools dispatcher of the real class at check time.
"""
from __future__ import annotations

import ast
import time

from vc import front
from vc.common import ob, DISCHARGED, REFUTED, UNDECIDED, Unsupported, REPO

ANNOT = {  # annotation text -> (module, class)
    "hamiltonian": ("hamiltonian", "hamiltonian"), "hamiltonian.hamiltonian": ("hamiltonian", "hamiltonian"),
    "propagator": ("propagation", "propagator"), "propagation.propagator": ("propagation", "propagator"),
    "wave_function": ("wavefunctions", "wave_function"), "wavefunctions.wave_function": ("wavefunctions", "wave_function"),
    "sampling.sampler": ("sampling", "sampler"), "sampler": ("sampling", "sampler"),
}
DATA_DICTS = {"ham_data", "prop_data", "wave_data"}


def _sig(fn):
    a = fn.args
    pos = [p.arg for p in a.posonlyargs + a.args]
    if pos and pos[0] in ("self", "cls"):
        pos = pos[1:]
    nreq = len(pos) - len(a.defaults)
    return dict(pos=pos, nreq=nreq, vararg=a.vararg is not None, kwonly=[p.arg for p in a.kwonlyargs],
                kwreq=[p.arg for p, d in zip(a.kwonlyargs, a.kw_defaults) if d is None], kwargs=a.kwarg is not None)


def _static_argnums(fn):
    """positions (0 = self) declared static by partial(jit, static_argnums=...)"""
    for d in fn.decorator_list:
        if isinstance(d, ast.Call) and ast.unparse(d.func) in ("partial", "functools.partial") and d.args \
                and ast.unparse(d.args[0]) in ("jit", "jax.jit"):
            for k in d.keywords:
                if k.arg == "static_argnums":
                    v = ast.literal_eval(k.value)
                    return set(v) if isinstance(v, (tuple, list)) else {v}
    return set()


def _overrides(mod, cls, meth):
    """all definitions of meth in cls and its subclasses (within mod) + the one cls itself resolves to"""
    out = []
    q = front.resolve_method(mod, cls, meth)
    if q:
        out.append(q)
    for sub in front.subclasses(mod, cls):
        for n in front.classes(mod)[sub].body:
            if isinstance(n, ast.FunctionDef) and n.name == meth:
                out.append(f"{mod}.{sub}.{meth}")
    return sorted(set(out))


def _check_call(call, target_q, static_ok_names):
    """returns list of problems for `call` against function target_q"""
    probs = []
    cls_nodes = front.classes(target_q.split(".")[0])[target_q.split(".")[1]]
    fns = [n for n in cls_nodes.body if isinstance(n, ast.FunctionDef) and n.name == target_q.split(".")[2]]
    # singledispatch: several definitions share the public name only through register; the named one is first
    fn = fns[0]
    s = _sig(fn)
    if any(isinstance(a, ast.Starred) for a in call.args) or any(k.arg is None for k in call.keywords):
        return probs  # cannot decide statically; not flagged
    npos = len(call.args)
    kws = [k.arg for k in call.keywords]
    if npos > len(s["pos"]) and not s["vararg"]:
        probs.append(f"{npos} positional arguments, {target_q} takes {len(s['pos'])}")
    bound = set(s["pos"][:npos])
    for k in kws:
        if k in bound:
            probs.append(f"argument {k} given twice to {target_q}")
        elif k not in s["pos"] and k not in s["kwonly"] and not s["kwargs"]:
            probs.append(f"unexpected keyword {k} for {target_q}")
        bound.add(k)
    for p in s["pos"][: s["nreq"]]:
        if p not in bound:
            probs.append(f"missing argument '{p}' in call of {target_q}")
    for p in s["kwreq"]:
        if p not in bound:
            probs.append(f"missing keyword-only argument '{p}' in call of {target_q}")
    # static positions must receive static objects
    st = _static_argnums(fn)
    for i, a in enumerate(call.args):
        if (i + 1) in st:
            if isinstance(a, ast.Name) and a.id in DATA_DICTS:
                probs.append(f"data dictionary '{a.id}' passed at static (hashed) position {i + 1} of {target_q}")
    return probs


def _functions_to_scan():
    out = []
    for name, fn in front.functions_of_class(front.classes("sampling")["sampler"]).items():
        out.append(("sampling.sampler." + name, fn))
    src, tree = front.load("driver")
    for n in tree.body:
        if isinstance(n, ast.FunctionDef):
            out.append(("driver." + n.name, n))
    return out


def sig_calls():
    t0 = time.time()
    res = []
    for qual, fn in _functions_to_scan():
        recv = {}
        a = fn.args
        for p in a.posonlyargs + a.args + a.kwonlyargs:
            if p.arg == "self" and qual.startswith("sampling.sampler."):
                recv["self"] = ("sampling", "sampler")
            elif p.annotation is not None:
                t = ast.unparse(p.annotation)
                if t in ANNOT:
                    recv[p.arg] = ANNOT[t]
        counter = {}
        for node in ast.walk(fn):
            if not (isinstance(node, ast.Call) and isinstance(node.func, ast.Attribute) and isinstance(node.func.value, ast.Name)):
                continue
            r, m = node.func.value.id, node.func.attr
            if r not in recv:
                continue
            mod, cls = recv[r]
            targets = _overrides(mod, cls, m)
            k = counter.get((r, m), 0)
            counter[(r, m)] = k + 1
            name = f"C12.sig.call.{qual.split('.')[-1]}.{r}.{m}@{k}"
            if not targets:
                res.append(ob(name, REFUTED, backend="pyvc-sig", detail=f"{cls} has no method {m}", witness_class="no-method",
                              witness=dict(caller=qual, call=ast.unparse(node)[:200]), functions=[qual]))
                continue
            probs = []
            for tq in targets:
                probs += _check_call(node, tq, set(recv))
            if probs:
                res.append(ob(name, REFUTED, backend="pyvc-sig", detail="; ".join(sorted(set(probs)))[:600],
                              witness_class="signature", witness=dict(caller=qual, call=ast.unparse(node)[:300]),
                              functions=[qual] + targets))
            else:
                res.append(ob(name, DISCHARGED, backend="pyvc-sig",
                              detail=f"conforms to {len(targets)} definition(s): " + ", ".join(targets)[:200], functions=[qual]))
    if not res:
        res.append(ob("C12.sig.call.EMPTY", UNDECIDED, detail="no calls found"))
    res[0]["wall"] = round(time.time() - t0, 3)
    return res


def sig_dispatch():
    """Ground facts: ask the real dispatcher with the real classes."""
    import sys
    if REPO not in sys.path:
        sys.path.insert(0, REPO)
    import jax
    import jax.numpy as jnp
    from ad_afqmc import wavefunctions as wf
    t0 = time.time()
    classes = {"list": list, "concrete_array": type(jnp.zeros(1))}
    seen = []

    def grab(x):
        seen.append(type(x))
        return x
    jax.make_jaxpr(grab)(jnp.zeros(2))
    classes["jit_tracer"] = seen[-1]
    jax.vmap(grab)(jnp.zeros((2, 2)))
    classes["vmap_tracer"] = seen[-1]
    jax.jvp(grab, (jnp.zeros(2),), (jnp.ones(2),))
    classes["jvp_tracer"] = seen[-1]
    jax.lax.scan(lambda c, x: (grab(c), x), jnp.zeros(2), jnp.zeros((1, 2)))
    classes["scan_tracer"] = seen[-1]
    res = []
    for meth in ("calc_overlap", "calc_force_bias", "calc_energy"):
        sdm = wf.wave_function.__dict__[meth]
        fallback = sdm.func
        for cname, c in classes.items():
            impl = sdm.dispatcher.dispatch(c)
            ok = impl is not fallback
            res.append(ob(f"C12.sig.dispatch.{meth}.{cname}", DISCHARGED if ok else REFUTED, kind="ground",
                          backend="functools-dispatcher", witness_class="fallback",
                          detail=(f"{c.__module__}.{c.__name__} -> registered implementation" if ok else
                                  f"{c.__module__}.{c.__name__} resolves to the fallback that raises NotImplementedError('Walker type not supported')"),
                          witness=dict(method=meth, walker_class=f"{c.__module__}.{c.__name__}", jax=jax.__version__),
                          functions=[f"wavefunctions.wave_function.{meth}"]))
    res[0]["wall"] = round(time.time() - t0, 3)
    return res

"""Native replay helpers: small concrete systems run through the REAL code (imported from REPO)."""
from __future__ import annotations

import sys

import numpy as np

from vc.common import REPO


def setup():
    if sys.path[0] != REPO:
        sys.path.insert(0, REPO)
    from ad_afqmc import config
    config.setup_jax()
    import jax
    jax.config.update("jax_platform_name", "cpu")


def small_system(norb=3, nocc=1, nchol=2, seed=3, restricted=True, n_walkers=8, dt=0.3, nocc_dn=None):
    """closed-shell random Hamiltonian, rhf (restricted walkers) or uhf (unrestricted) trial, matching propagator"""
    setup()
    import jax
    import jax.numpy as jnp
    from ad_afqmc import wavefunctions as wf, hamiltonian, propagation
    rng = np.random.default_rng(seed)
    h1 = rng.normal(size=(norb, norb))
    h1 = (h1 + h1.T) / 2
    L = rng.normal(size=(nchol, norb, norb)) * 0.3
    L = (L + L.transpose(0, 2, 1)) / 2
    ham_data = {"h0": 0.1, "h1": jnp.array([h1, h1]), "chol": jnp.array(L.reshape(nchol, -1)), "ene0": 0.0}
    mo = np.linalg.qr(rng.normal(size=(norb, norb)))[0]
    if restricted:
        trial = wf.rhf(norb, (nocc, nocc))
        wave = {"mo_coeff": jnp.array(mo[:, :nocc])}
        prop_cls = propagation.propagator_restricted
    else:
        nd_ = nocc if nocc_dn is None else nocc_dn
        trial = wf.uhf(norb, (nocc, nd_))
        wave = {"mo_coeff": [jnp.array(mo[:, :nocc]), jnp.array(mo[:, :nd_])]}
        prop_cls = propagation.propagator_unrestricted
    wave["rdm1"] = jnp.array([mo[:, :nocc] @ mo[:, :nocc].T] * 2)
    if not restricted and nocc_dn is not None:
        wave["rdm1"] = jnp.array([mo[:, :nocc] @ mo[:, :nocc].T, mo[:, :nocc_dn] @ mo[:, :nocc_dn].T])
    ham = hamiltonian.hamiltonian(norb)
    return dict(ham=ham, ham_data=ham_data, trial=trial, wave=wave, prop_cls=prop_cls, h1=h1, norb=norb, nocc=nocc, n_walkers=n_walkers, dt=dt)


def coherence_history(entry="propagate_phaseless", restricted=True, n_ene_blocks=2, n_sr_blocks=2):
    """Runs a driver-like history (entry point, QR, global SR with the serial communicator stub, entry point again) with a
    monitored propagator that records, at entry of every propagate(), max_w |overlaps_w - calc_overlap(walkers)_w| / |.|.
    Executed with jax.disable_jit() so that the monitor sees concrete values.  Returns the list of recorded deviations."""
    S = small_system(restricted=restricted)
    import jax
    import jax.numpy as jnp
    from ad_afqmc import sampling, config
    REC = []
    base = S["prop_cls"]

    class Monitored(base):
        def propagate(self, trial, ham_data, prop_data, fields, wave_data):
            ov = trial.calc_overlap(prop_data["walkers"], wave_data)
            REC.append(float(jnp.max(jnp.abs(prop_data["overlaps"] - ov) / jnp.abs(ov))))
            return base.propagate(self, trial, ham_data, prop_data, fields, wave_data)

        def __hash__(self):
            return hash(tuple(self.__dict__.values()))

    saved_ckpt = sampling.checkpoint
    sampling.checkpoint = lambda f, *a, **k: f      # replay only: rematerialisation is semantically the identity
    try:
        return _history(S, Monitored, REC, entry, n_ene_blocks, n_sr_blocks)
    finally:
        sampling.checkpoint = saved_ckpt


def _history(S, Monitored, REC, entry, n_ene_blocks, n_sr_blocks):
    import jax
    import jax.numpy as jnp
    from ad_afqmc import sampling, config
    with jax.disable_jit():
        prop = Monitored(dt=S["dt"], n_walkers=S["n_walkers"])
        ham, trial, wave = S["ham"], S["trial"], S["wave"]
        hd = ham.build_measurement_intermediates(dict(S["ham_data"]), trial, wave)
        hd = ham.build_propagation_intermediates(hd, prop, trial, wave)
        pd = prop.init_prop_data(trial, wave, hd)
        pd["key"] = jax.random.PRNGKey(1)
        pd["n_killed_walkers"] = 0
        smp = sampling.sampler(2, n_ene_blocks, n_sr_blocks, 1)
        op = jnp.array([S["h1"], S["h1"]])

        def call(pd):
            f = getattr(smp, entry)
            if entry == "propagate_phaseless":
                return f(ham, dict(hd), prop, pd, trial, dict(wave))[1]
            return f(ham, dict(hd), 0.0, op, prop, pd, trial, dict(wave))[1]
        pd = call(pd)
        pd = prop.orthonormalize_walkers(pd)
        pd = prop.stochastic_reconfiguration_global(pd, config.not_a_comm())
        pd["n_killed_walkers"] = 0
        pd = call(pd)
    return REC


def cpmc_history(cls_name, steps=3, bad_up=None, field_rows=None):
    """D8-style history: 2 sites, trial (1,1) = [1;1] per spin, one good walker [1;1] and one walker [-10;11] in both spins
    (finite, non-zero overlap), h1 = 0, U = 4, dt = 0.05, zero fields.  Returns per-step weights / shift."""
    setup()
    import jax
    import jax.numpy as jnp
    from ad_afqmc import wavefunctions as wf, hamiltonian, propagation
    norb, nel = 2, (1, 1)
    T = [jnp.array([[1.0], [1.0]]), jnp.array([[1.0], [1.0]])]
    trial = wf.uhf_cpmc(norb, nel)
    wave = {"mo_coeff": T, "rdm1": jnp.array([T[0] @ T[0].T / 2, T[1] @ T[1].T / 2])}
    ham = {"h0": 0.0, "h1": jnp.zeros((2, norb, norb)), "chol": jnp.zeros((1, norb * norb)), "ene0": 0.0, "u": 4.0, "u_1": 1.0}
    cls = getattr(propagation, cls_name)
    kw = dict(dt=0.05, n_walkers=2)
    if "nn" in cls_name:
        kw["neighbors"] = ((0, 1),)
    prop = cls(**kw)
    hh = hamiltonian.hamiltonian(norb)
    hd = hh.build_measurement_intermediates(dict(ham), trial, wave)
    hd = hh.build_propagation_intermediates(hd, prop, trial, wave)
    if cls_name == "propagator_cpmc_continuous":
        hd["hs_constant"] = jnp.sqrt(0.05 * 4.0) * jnp.ones(())
    good, bad = np.array([[1.0], [1.0]]), np.array([[-10.0], [11.0]])
    walkers = [jnp.array([good, bad]) + 0j, jnp.array([good, bad]) + 0j]
    if bad_up is not None:        # second walker: given up block, dn block = the good one
        walkers = [jnp.array([good, np.array(bad_up, dtype=float).reshape(2, 1)]) + 0j, jnp.array([good, good]) + 0j]
    pd = prop.init_prop_data(trial, wave, hd, walkers)
    pd["key"] = jax.random.PRNGKey(0)
    rec = dict(init_overlaps=np.asarray(pd["overlaps"]).tolist(), steps=[])
    fields = jnp.zeros((2, norb)) if field_rows is None else jnp.array(field_rows, dtype=float)
    for _ in range(steps):
        pd = prop.propagate(trial, hd, pd, fields, wave)
        rec["steps"].append(dict(weights=[float(x) for x in np.asarray(pd["weights"]).real], shift=float(np.asarray(pd["pop_control_ene_shift"]).real)))
    return rec


def cpmc_violations(cls_name):
    """which clauses of C09 fail natively on the D8-style history"""
    rec = cpmc_history(cls_name)
    bad = {}
    prev = [1.0, 1.0]
    for k, st in enumerate(rec["steps"]):
        w = st["weights"]
        if any(not np.isfinite(x) or x < 0 for x in w):
            bad.setdefault("step", f"step {k}: weights {w}")
        if any(p == 0.0 and not (x == 0.0) for p, x in zip(prev, w)):
            bad.setdefault("dead", f"step {k}: a weight that was 0 became {w}")
        if not np.isfinite(st["shift"]) and any(np.isfinite(x) and x > 0 for x in w):
            bad.setdefault("shift", f"step {k}: shift {st['shift']} with weights {w}")
        if not np.isfinite(st["shift"]):
            bad.setdefault("shift_any", f"step {k}: shift {st['shift']} with weights {w}")
        prev = w
    return bad, rec


def prelude_rotation_deviation(entry="propagate_phaseless_ad_nosr", coupling=0.3, seed=11):
    """native replay for C12 eq.<entry>.prelude.* of an orbital-rotating entry point: the energy it returns for (h1, coupling, op, wave_data) must equal the
    energy of its non-rotating twin called with the prelude done by hand in the stated order: h1' = h1 + coupling*op, wave_data' = trial.optimize(h1', wave_data),
    coupling 0.  The incoming orbitals are deliberately NOT the optimised ones, so intermediates built before optimize() differ."""
    S = small_system(norb=4, nocc=2, nchol=3, seed=seed, restricted=True, n_walkers=4, dt=0.01)
    import jax
    import jax.numpy as jnp
    from ad_afqmc import sampling
    trial, wave, ham = S["trial"], S["wave"], S["ham"]
    prop = S["prop_cls"](dt=0.01, n_walkers=4)
    rng = np.random.default_rng(seed)
    op = rng.normal(size=(S["norb"], S["norb"]))
    op = jnp.array((op + op.T) / 2)
    hd0 = dict(S["ham_data"])
    hdi = ham.build_measurement_intermediates(dict(hd0), trial, wave)
    hdi = ham.build_propagation_intermediates(hdi, prop, trial, wave)
    pd = prop.init_prop_data(trial, wave, hdi)
    pd["key"] = jax.random.PRNGKey(seed)
    pd["n_killed_walkers"] = 0
    smp = sampling.sampler(2, 2, 1, 1)
    twin = entry + "_norot"
    e_rot, _ = getattr(smp, entry)(ham, dict(hd0), coupling, op, prop, dict(pd), trial, dict(wave))
    hd1 = dict(hd0)
    hd1["h1"] = hd0["h1"] + coupling * op
    wave1 = trial.optimize(dict(hd1), dict(wave))
    moved = float(np.max(np.abs(np.abs(np.asarray(wave1["mo_coeff"])) - np.abs(np.asarray(wave["mo_coeff"])))))
    e_ref, _ = getattr(smp, twin)(ham, dict(hd1), 0.0, op, prop, dict(pd), trial, dict(wave1))
    dev = abs(complex(e_rot) - complex(e_ref))
    return float(dev), dict(entry=entry, twin=twin, coupling=coupling, energy_entry=str(complex(e_rot)), energy_hand_prelude=str(complex(e_ref)), abs_deviation=float(dev),
                            orbitals_moved_by_optimize=moved)


def cpmc_node_crossing(cls_name="propagator_cpmc_continuous"):
    """second native history for the continuous CPMC step: walker 1 has up block [1; -0.9] (overlap 0.1 > 0) and receives the fields (-2, +2), which carry
    it across the node of the trial (new up overlap e^{-2c} - 0.9 e^{2c} < 0, dn overlap > 0): the importance function is finite and negative, so the
    weight must become 0 and stay 0.  Returns (violations, record)."""
    rec = cpmc_history(cls_name, steps=2, bad_up=[1.0, -0.9], field_rows=[[0.0, 0.0], [-2.0, 2.0]])
    bad = {}
    for k, st in enumerate(rec["steps"]):
        w = st["weights"]
        if any(not np.isfinite(x) or x < 0 for x in w):
            bad.setdefault("step", f"step {k}: weights {w}")
        if k == 0 and w[1] != 0.0:
            bad.setdefault("step", f"step {k}: node-crossing walker keeps weight {w[1]}")
        if k > 0 and rec["steps"][k - 1]["weights"][1] == 0.0 and w[1] != 0.0:
            bad.setdefault("dead", f"step {k}: a weight that was 0 became {w[1]}")
    return bad, rec


def block_estimator_deviation():
    """single-block energy of the plain sampler vs the stated estimator (weight-averaged real local energy of the returned walkers with samples
    further than sqrt(2/dt) from e_estimate replaced by it), for running estimates displaced by 0, +-0.7, +-1.2, +-2.5 cap radii"""
    setup()
    import jax
    import jax.numpy as jnp
    from ad_afqmc import sampling
    S = small_system(norb=4, nocc=2, restricted=True, n_walkers=10, dt=0.02)
    prop = S["prop_cls"](dt=S["dt"], n_walkers=S["n_walkers"])
    ham, trial, wave = S["ham"], S["trial"], S["wave"]
    hd = ham.build_measurement_intermediates(dict(S["ham_data"]), trial, wave)
    hd = ham.build_propagation_intermediates(hd, prop, trial, wave)
    rng = np.random.default_rng(9)
    w0 = np.asarray(wave["mo_coeff"])
    walkers = jnp.array([w0 + 0.6 * (rng.normal(size=w0.shape) + 1j * rng.normal(size=w0.shape)) for _ in range(S["n_walkers"])])
    pd0 = prop.init_prop_data(trial, wave, hd, walkers)
    pd0["key"] = jax.random.PRNGKey(3)
    pd0["n_killed_walkers"] = 0
    smp = sampling.sampler(2, 1, 1, 1)
    radius = np.sqrt(2.0 / S["dt"])
    base = float(pd0["e_estimate"])
    worst = 0.0
    for shift in (0.0, 0.7, -0.7, 1.2, -1.2, 2.5, -2.5):
        pd = dict(pd0)
        pd["e_estimate"] = jnp.array(base + shift * radius)
        # the no-SR entry point returns exactly the walkers the block energy was measured on
        e, out = smp.propagate_phaseless_ad_nosr_norot(ham, dict(hd), 0.0, jnp.array([S["h1"], S["h1"]]), prop, pd, trial, dict(wave))
        el = np.real(np.asarray(trial.calc_energy(out["walkers"], hd, wave)))
        est = float(pd["e_estimate"])
        el = np.where(np.abs(el - est) > radius, est, el)
        wts = np.asarray(out["weights"])
        ref = float((el * wts).sum() / wts.sum())
        worst = max(worst, abs(float(e) - ref))
    return worst


def phaseless_weight_deviation(restricted=True, dt=0.05, seed=7):
    """native replay for C04: one real propagate() step on generic complex walkers against the importance-sampling formula of the
    statement, written out independently with the public force bias / overlap:
        xbar = -sqrt(dt) (i f - mf),  I = exp(-sqrt(dt) sum (x - xbar) mf + sum (x xbar - xbar^2/2) + dt (E_shift + h0_prop)) O'/O,
        theta = arg(exp(-sqrt(dt) sum (x - xbar) mf) O'/O),  w' = w |I| max(0, cos theta)   (0 outside [1e-3, 100])."""
    S = small_system(norb=3, nocc=1, nchol=2, seed=seed, restricted=restricted, n_walkers=6, dt=dt)
    import jax.numpy as jnp
    trial, wave, ham = S["trial"], S["wave"], S["ham"]
    prop = S["prop_cls"](dt=dt, n_walkers=6)
    hd = ham.build_measurement_intermediates(dict(S["ham_data"]), trial, wave)
    hd = ham.build_propagation_intermediates(hd, prop, trial, wave)
    rng = np.random.default_rng(seed + 1)
    nw, norb, nocc = 6, S["norb"], S["nocc"]
    mo = np.asarray(wave["mo_coeff"] if restricted else wave["mo_coeff"][0])

    def walker():
        return mo + 0.3 * (rng.normal(size=(norb, nocc)) + 1j * rng.normal(size=(norb, nocc)))
    if restricted:
        walkers = jnp.array([walker() for _ in range(nw)])
    else:
        walkers = [jnp.array([walker() for _ in range(nw)]), jnp.array([walker() for _ in range(nw)])]
    O = trial.calc_overlap(walkers, wave)
    w = rng.uniform(0.3, 1.0, size=nw)
    pd = dict(walkers=walkers, weights=jnp.array(w), overlaps=O, pop_control_ene_shift=jnp.array(-0.7), e_estimate=jnp.array(-0.7))
    x = rng.normal(size=(nw, hd["chol"].shape[0]))
    f = np.asarray(trial.calc_force_bias(walkers, hd, wave))
    out = prop.propagate(trial, hd, dict(pd), jnp.array(x), wave)
    On = np.asarray(trial.calc_overlap(out["walkers"], wave))
    mf = np.asarray(hd["mf_shifts"])
    xbar = -np.sqrt(dt) * (1j * f - mf)
    xs = x - xbar
    ratio = On / np.asarray(O)
    I = np.exp(-np.sqrt(dt) * (xs * mf).sum(1) + (x * xbar - xbar * xbar / 2).sum(1) + dt * (-0.7 + complex(hd["h0_prop"]))) * ratio
    th = np.angle(np.exp(-np.sqrt(dt) * (xs * mf).sum(1)) * ratio)
    fac = np.abs(I) * np.cos(th)
    fac = np.where(np.isnan(fac) | (fac < 1e-3) | (fac > 100.0), 0.0, fac)
    w_ref = fac * w
    w_ref = np.where(w_ref > 100.0, 0.0, w_ref)
    dev = float(np.abs(np.asarray(out["weights"]) - w_ref).max())
    return dev, dict(dt=dt, restricted=restricted, fields=x.tolist(), incoming_weights=w.tolist(), weights_after_step=np.asarray(out["weights"]).tolist(),
                     weights_from_formula=w_ref.tolist(), max_abs_deviation=dev)


def free_projection_deviation(steps=3, seed=5):
    """native replay for C05 fp.norm / fp.overlap: k real propagate_free steps (QR after each) against the SAME Trotter propagators applied without any
    re-orthonormalisation: stored overlaps must equal the overlap of the un-normalised product, and overlap(stored walkers) * norms likewise."""
    S = small_system(norb=3, nocc=2, nchol=2, seed=seed, restricted=False, n_walkers=3, dt=0.05, nocc_dn=1)     # open shell: the two QR factors differ
    import jax
    import jax.numpy as jnp
    trial, wave, ham = S["trial"], S["wave"], S["ham"]
    prop = S["prop_cls"](dt=0.05, n_walkers=3)
    hd = ham.build_measurement_intermediates(dict(S["ham_data"]), trial, wave)
    hd = ham.build_propagation_intermediates(hd, prop, trial, wave)
    pd = prop.init_prop_data(trial, wave, hd)
    pd["key"] = jax.random.PRNGKey(seed)
    pd["norms"] = jnp.ones(3) + 0j
    rng = np.random.default_rng(seed)
    raw = [np.asarray(pd["walkers"][0]).astype(complex), np.asarray(pd["walkers"][1]).astype(complex)]
    worst = 0.0
    for k in range(steps):
        x = jnp.asarray(rng.normal(size=(3, hd["chol"].shape[0])))
        pd = prop.propagate_free(trial, hd, pd, x, wave)
        # reference: the same constants and Trotter propagator on the un-normalised walkers (no QR)
        ref_pd = dict(walkers=[jnp.asarray(raw[0]), jnp.asarray(raw[1])], norms=jnp.ones(3) + 0j, overlaps=jnp.ones(3) + 0j, weights=jnp.ones(3), key=pd["key"])
        out = _propagate_free_no_qr(prop, trial, hd, ref_pd, x, wave)
        raw = [np.asarray(out[0]), np.asarray(out[1])]
        o_ref = np.asarray(trial.calc_overlap([jnp.asarray(raw[0]), jnp.asarray(raw[1])], wave))
        o_stored = np.asarray(pd["overlaps"])
        o_recon = np.asarray(trial.calc_overlap(pd["walkers"], wave)) * np.asarray(pd["norms"])
        worst = max(worst, float(np.max(np.abs(o_stored - o_ref) / np.abs(o_ref))), float(np.max(np.abs(o_recon - o_ref) / np.abs(o_ref))))
    return worst, dict(steps=steps, max_rel_deviation_of_stored_overlap_from_unnormalised_product=worst)


def free_block_deviation(seed=5):
    """native replay for C05 fp.energy / fp.weight: one real sampler._block_scan_free block (2 free steps, QR inside) against
    sum(E_L * overlaps) / sum(overlaps) and sum(overlaps) recomputed from the returned state, where the reference overlaps are those of the
    un-normalised walkers: calc_overlap(stored walkers) * norms"""
    S = small_system(norb=3, nocc=1, nchol=2, seed=seed, restricted=False, n_walkers=3, dt=0.05)
    import jax
    import jax.numpy as jnp
    from ad_afqmc import sampling
    trial, wave, ham = S["trial"], S["wave"], S["ham"]
    prop = S["prop_cls"](dt=0.05, n_walkers=3)
    hd = ham.build_measurement_intermediates(dict(S["ham_data"]), trial, wave)
    hd = ham.build_propagation_intermediates(hd, prop, trial, wave)
    pd = prop.init_prop_data(trial, wave, hd)
    pd["key"] = jax.random.PRNGKey(seed)
    pd["norms"] = jnp.ones(3) + 0j
    smp = sampling.sampler(n_prop_steps=2, n_ene_blocks=1, n_sr_blocks=1, n_blocks=1)
    out, (_, be, bw) = smp._block_scan_free(dict(pd), None, hd, prop, trial, wave)
    ov = np.asarray(trial.calc_overlap(out["walkers"], wave)) * np.asarray(out["norms"])
    e = np.asarray(trial.calc_energy(out["walkers"], hd, wave))
    be_ref, bw_ref = np.sum(e * ov) / np.sum(ov), np.sum(ov)
    dev = max(abs(complex(be) - be_ref) / abs(be_ref), abs(complex(bw) - bw_ref) / abs(bw_ref))
    return float(dev), dict(block_energy=str(complex(be)), reference_energy=str(complex(be_ref)), block_weight=str(complex(bw)), reference_weight=str(complex(bw_ref)),
                            max_rel_deviation=float(dev), norms_after=[str(complex(x)) for x in np.asarray(out["norms"])])


def _propagate_free_no_qr(prop, trial, hd, pd, fields, wave):
    """the statements of propagate_free up to (not including) the re-orthonormalisation, executed through the real helpers with qr_vmap_uhf
    replaced by the identity (Q := A, norm factors := 1)"""
    from ad_afqmc import linalg_utils, propagation
    import jax.numpy as jnp
    saved = linalg_utils.qr_vmap_uhf
    try:
        linalg_utils.qr_vmap_uhf = lambda w: (w, jnp.ones((2, w[0].shape[0])) + 0j)
        fn = type(prop).propagate_free
        fn = getattr(fn, "__wrapped__", fn)
        out = fn(prop, trial, hd, dict(pd), fields, wave)
    finally:
        linalg_utils.qr_vmap_uhf = saved
    return out["walkers"]


def trotprop_deviation(seed=9):
    """native replay for C04: the real unrestricted _apply_trotprop with DIFFERENT one-body half-step propagators per spin against
    B_s sum_{n<n_exp_terms} vhs^n/n! B_s phi_s,  vhs = i sqrt(dt) sum_g x_g L_g"""
    setup()
    import math
    import jax.numpy as jnp
    from ad_afqmc import propagation
    rng = np.random.default_rng(seed)
    n, nocc, g, nw, dt = 3, 1, 2, 2, 0.05
    prop = propagation.propagator_unrestricted(dt=dt, n_walkers=nw)
    B = [np.eye(n) + 0.1 * rng.normal(size=(n, n)), np.eye(n) + 0.1 * rng.normal(size=(n, n))]
    L = rng.normal(size=(g, n, n)); L = L + L.transpose(0, 2, 1)
    w = [rng.normal(size=(nw, n, nocc)) + 1j * rng.normal(size=(nw, n, nocc)), rng.normal(size=(nw, n, nocc)) + 1j * rng.normal(size=(nw, n, nocc))]
    x = rng.normal(size=(nw, g)) + 1j * rng.normal(size=(nw, g))
    hd = dict(exp_h1=jnp.asarray(np.array(B)), chol=jnp.asarray(L.reshape(g, -1)))
    out = prop._apply_trotprop(hd, [jnp.asarray(w[0]), jnp.asarray(w[1])], jnp.asarray(x))
    dev = 0.0
    for s in range(2):
        for k in range(nw):
            vhs = 1j * np.sqrt(dt) * np.einsum("g,gij->ij", x[k], L)
            phi = B[s] @ w[s][k]
            acc, term = phi.copy(), phi.copy()
            for m in range(1, prop.n_exp_terms):
                term = vhs @ term
                acc = acc + term / math.factorial(m)
            ref = B[s] @ acc
            dev = max(dev, float(np.abs(np.asarray(out[s])[k] - ref).max()))
    return dev, dict(check="unrestricted _apply_trotprop with exp_h1[0] != exp_h1[1] vs B_s sum vhs^n/n! B_s phi_s", max_abs_deviation=dev)

"""C20 – sidecar contracts and lemmas for ad_afqmc/lattices.py (Engine A, LIA with div/mod, all side lengths).

Every scenario below constructs the lattice by *symbolically executing the real `__post_init__`* with symbolic
side lengths (>= the stated minimum), then calls the real methods on symbolic sites.  Nothing of the lattice code
is re-typed here: the contracts only name classes, methods and fields (the API).
"""
from __future__ import annotations

import z3

from vc.pyvc.engine import run_scenario, to_z3, is_z3, NdStore, Obj, ClassRef, Interp
from vc.common import ob, DISCHARGED, REFUTED, Unsupported
from vc import front

MOD = "lattices"

# class -> constructor argument names that the property quantifies over (side lengths [+ open boundary flag])
KINDS = {
    "one_dimensional_chain": dict(sides=["n_sites"], adj=True),
    "two_dimensional_grid": dict(sides=["l_x", "l_y"], adj=True),
    "triangular_grid": dict(sides=["l_x", "l_y"], adj=True, flags=["open_x"]),
    "three_dimensional_grid": dict(sides=["l_x", "l_y", "l_z"], adj=False),
}


def functions_of(cls):
    names = ["__post_init__", "get_site_num", "get_nearest_neighbors", "create_adjacency_matrix", "tree_flatten",
             "tree_unflatten", "__hash__"]
    out = []
    for n in names:
        q = front.resolve_method(MOD, cls, n)
        if q and q.split(".")[1] == cls:
            out.append(q)
    return out


def _mk(run, cls, minside, open_x=None, quiet=True):
    info = KINDS[cls]
    sides = [run.int(s) for s in info["sides"]]
    run.assume(*[s >= minside for s in sides])
    kw = {}
    if open_x is not None:
        kw["open_x"] = open_x
    L = run.construct(MOD, cls, *sides, quiet=quiet, **kw)
    return L, sides


def _site(run, L, name="i"):
    i = run.int(name)
    n = L.fields["sites"].length if hasattr(L.fields["sites"], "length") else len(L.fields["sites"])
    run.assume(i >= 0, i < to_z3(n))
    p = run.index(L.fields["sites"], i)
    _box_lemmas(run, L, p)
    return i, p, n


def _box_lemmas(run, L, p):
    """candidate lemmas 'coordinate c of a position lies in [0, side)' for every side - only the proved ones are kept"""
    sides = [L.fields[s] for s in KINDS[L.cls]["sides"]]
    cands = []
    for c in p:
        if is_z3(c):
            cands.append(c >= 0)
            cands += [c < s for s in sides]
    run.lemmas("box", cands)


def _variants(cls):
    return [None] if "flags" not in KINDS[cls] else [False, True]


def _tag(cls, open_x):
    return cls + ("" if open_x is None else (".open" if open_x else ".periodic"))


def _inbox(run, L, cls, p):
    """the bounds test the adjacency code applies to a neighbour position (only matters with open boundary)"""
    return True


# ------------------------------------------------------------------ obligations
def ctor(cls):
    """lat.ctor: every path of __post_init__ ends without an exception for all sides >= 2."""
    out = []
    for ox in _variants(cls):
        def sc(run, ox=ox):
            _mk(run, cls, 2, ox, quiet=False)
        out += run_scenario(f"C20.lat.ctor.{_tag(cls, ox)}", sc, functions=functions_of(cls)[:1], no_exception="noexc")
    return out


def bij(cls):
    out = []
    for ox in _variants(cls)[:1]:
        def sc(run):
            L, sides = _mk(run, cls, 2, ox)
            i, p, n = _site(run, L)
            run.prove("fwd", run.equal(run.method(L, "get_site_num", p), i),
                      note="get_site_num(sites[i]) == i")
            # n_sites is the length of the site list
            run.prove("n_sites", run.equal(L.fields["n_sites"], n), note="n_sites == len(sites)")
        out += run_scenario(f"C20.lat.bij.{cls}", sc, functions=functions_of(cls)[:2])
    return out


def _neighbors(run, L, p):
    nb = run.method(L, "get_nearest_neighbors", p)
    return [tuple(x) for x in nb]


def _in_grid(run, L, q):
    """q is the position of some site: exists j. sites[j] == q  (witness: j = get_site_num(q))"""
    j = run.method(L, "get_site_num", q)
    n = L.fields["sites"].length
    return j, z3.And(j >= 0, j < to_z3(n))


def nbr(cls):
    """lat.nbr.range: neighbours of a site are sites (periodic);  lat.sym;  lat.irr (sides >= 3)."""
    out = []
    for ox in _variants(cls):
        for minside, clauses in ((2, ("range", "sym")), (3, ("irr", "distinct"))):
            def sc(run, ox=ox, minside=minside, clauses=clauses):
                L, sides = _mk(run, cls, minside, ox)
                i, p, n = _site(run, L)
                nbs = _neighbors(run, L, p)
                for k, q in enumerate(nbs):
                    if not ox:
                        _box_lemmas(run, L, q)
                    j, inr = _in_grid(run, L, q)
                    if ox:   # open boundary: positions outside the box are dropped by the adjacency code
                        box = _box(run, L, cls, q)
                    else:
                        box = z3.BoolVal(True)
                    if "range" in clauses:
                        run.prove(f"range.n{k}", z3.Implies(box, z3.And(inr, to_z3(run.equal(run.index(L.fields["sites"], z3.If(inr, j, 0)), q)))),
                                  note="neighbour position is the position of site get_site_num(neighbour)")
                    if "sym" in clauses:
                        if ox and cls == "triangular_grid":
                            # statement: open boundary needs an even number of rows
                            hyp = z3.And(box, sides[0] % 2 == 0)
                        else:
                            hyp = box
                        back = _neighbors(run, L, q)
                        run.prove(f"sym.n{k}", z3.Implies(hyp, z3.Or([to_z3(run.equal(b, p)) for b in back])),
                                  note="p in neighbours(q) for every neighbour q of p")
                    if "irr" in clauses:
                        run.prove(f"irr.n{k}", z3.Not(to_z3(run.equal(q, p))), note="no site is its own neighbour (sides>=3)")
                if "distinct" in clauses and not ox:
                    for a in range(len(nbs)):
                        for b in range(a + 1, len(nbs)):
                            run.prove(f"distinct.n{a}n{b}", z3.Not(to_z3(run.equal(nbs[a], nbs[b]))),
                                      note="neighbours pairwise distinct (sides>=3, periodic)")
                    run.prove("coordnum", run.equal(L.fields["coord_num"], len(nbs)), note="coord_num == number of neighbours")
            out += run_scenario(f"C20.lat.nbr.{_tag(cls, ox)}", sc, functions=functions_of(cls)[:3])
    return out


def _box(run, L, cls, q):
    """bounds test of create_adjacency_matrix for this class (read from the dims it uses): 0<=q0<height, 0<=q1<width"""
    if cls == "triangular_grid":
        height, width = L.fields["l_x"], L.fields["l_y"]
    elif cls == "two_dimensional_grid":
        height, width = L.fields["l_y"], L.fields["l_x"]
    else:
        return z3.BoolVal(True)
    return z3.And(q[0] >= 0, q[0] < height, q[1] >= 0, q[1] < width)


def adj(cls):
    """lat.adj.*: symmetric, zero diagonal (sides>=3), rows = neighbour lists (degree == coord_num periodic,
    <= coord_num open with an even number of rows)."""
    out = []
    if not KINDS[cls]["adj"]:
        return out
    for ox in _variants(cls):
        def sc(run, ox=ox):
            L, sides = _mk(run, cls, 3, ox)
            if ox and cls == "triangular_grid":
                run.assume(sides[0] % 2 == 0)
            h = run.method(L, "create_adjacency_matrix")
            if not isinstance(h, NdStore):
                raise Unsupported("adjacency matrix is not a zero-initialised constant-store array")
            n = L.fields["sites"].length
            run.prove("shape", z3.And(to_z3(run.equal(h.shape[0], n)), to_z3(run.equal(h.shape[1], n))), note="n_sites x n_sites")
            a, b = run.int("a"), run.int("b")
            run.assume(a >= 0, a < to_z3(n), b >= 0, b < to_z3(n))
            p = run.index(L.fields["sites"], a)
            _box_lemmas(run, L, p)
            nbs = _neighbors(run, L, p)
            sn = [run.method(L, "get_site_num", q) for q in nbs]
            boxes = [_box(run, L, cls, q) if ox else z3.BoolVal(True) for q in nbs]
            # h[a,b] == 1  <=>  some store family wrote (a,b) in some iteration w  (rule iii); case split, skolemised
            for k, (ws, guard, e1, e2, v) in enumerate(h.cases(run)):
                hyp = z3.And(guard, a == e1, b == e2)
                run.prove(f"sym.f{k}", z3.Implies(hyp, h.holds_at(b, a, 1, [ws])), note="h[a,b]=1 => h[b,a]=1 (same iteration stores both)")
                run.prove(f"diag.f{k}", z3.Implies(hyp, a != b), note="h[a,a]=0 (sides>=3)")
                run.prove(f"row.sub.f{k}", z3.Implies(hyp, z3.Or([z3.And(bx, b == s) for bx, s in zip(boxes, sn)])),
                          note="every 1 in row a is (the site number of) an in-bounds neighbour of site a => degree <= number of neighbours")
            import itertools
            nv = len(h.families[0][0]) if h.families else 0
            wit = [w for w in itertools.permutations(list(p), nv)] if nv <= len(p) else []
            if nv == 1:
                wit = [(a,)]
            for k, (bx, s_) in enumerate(zip(boxes, sn)):
                run.prove(f"row.sup.n{k}", z3.Implies(bx, h.holds_at(a, s_, 1, wit)),
                          note="every in-bounds neighbour of site a has a 1 in row a (witness: the iteration that visits site a)")
            if not ox:
                for x in range(len(sn)):
                    for y in range(x + 1, len(sn)):
                        run.prove(f"row.distinct.n{x}n{y}", sn[x] != sn[y], note="neighbour site numbers pairwise distinct")
                run.prove("degree", run.equal(L.fields["coord_num"], len(sn)),
                          note="degree (= number of distinct neighbour sites, by row.sub/row.sup/row.distinct) == coord_num")
            else:
                run.prove("degree.le", to_z3(L.fields["coord_num"]) >= len(sn), note="degree <= number of neighbours <= coord_num")
        out += run_scenario(f"C20.lat.adj.{_tag(cls, ox)}", sc, functions=functions_of(cls)[:4], timeout_ms=60000)
    return out


def tree(cls):
    """lat.tree: unflatten(flatten(L)).f == L.f for every dataclass field f; hash equal."""
    out = []
    for ox in _variants(cls):
        def sc(run, ox=ox):
            L, sides = _mk(run, cls, 2, ox)
            flat = run.method(L, "tree_flatten")
            children, aux = flat
            it = Interp(run, MOD)
            RT = it.call_value(it.getattr(ClassRef(MOD, cls), "tree_unflatten"), [aux, children], {})
            for f in L.fields:
                run.prove(f"field.{f}", run.equal(RT.fields.get(f), L.fields[f]), note=f"round trip preserves {f}")
            run.prove("hash", run.equal(run.method(RT, "__hash__"), run.method(L, "__hash__")), note="hash(rt) == hash(L)")
            if KINDS[cls]["adj"]:
                pass   # same fields => same adjacency matrix (create_adjacency_matrix reads only fields)
        out += run_scenario(f"C20.lat.tree.{_tag(cls, ox)}", sc, functions=functions_of(cls), no_exception="noexc")
    return out


def canary(cls):
    """Vacuity guard: a perturbed postcondition (site numbering off by one) must be refuted."""
    def sc(run):
        L, sides = _mk(run, cls, 2, _variants(cls)[0])
        i, p, n = _site(run, L)
        run.prove("fwd_plus_1", run.equal(run.method(L, "get_site_num", p), i + 1), kind="canary")
    return run_scenario(f"C20.canary.{cls}", sc)


# ------------------------------------------------------------------ native replay (real classes, concrete sides)
def native_clauses(cls, sides, open_x=None):
    """Run the real code on a concrete lattice and evaluate every clause of C20. Returns {clause: (ok, info)}."""
    import sys
    from vc.common import REPO
    if REPO not in sys.path:
        sys.path.insert(0, REPO)
    import numpy as np
    from ad_afqmc import lattices as LT
    res = {}
    kw = {} if open_x is None else {"open_x": open_x}
    C = getattr(LT, cls)
    try:
        L = C(*sides, **kw)
        res["ctor"] = (True, "")
    except Exception as e:   # noqa
        res["ctor"] = (False, f"{type(e).__name__}: {e}")
        return res
    n = len(L.sites)
    res["bij"] = (all(int(L.get_site_num(L.sites[i])) == i for i in range(n)) and L.n_sites == n, "")
    periodic = not open_x

    def nb(p):
        return [tuple(int(v) for v in q) for q in np.asarray(L.get_nearest_neighbors(tuple(p)))]

    def inbox(q):
        if cls == "triangular_grid":
            return 0 <= q[0] < L.l_x and 0 <= q[1] < L.l_y
        if cls == "two_dimensional_grid":
            return 0 <= q[0] < L.l_y and 0 <= q[1] < L.l_x
        return True
    sym = irr = rng = True
    for p in L.sites:
        for q in nb(p):
            if not periodic and not inbox(q):
                continue
            j = int(L.get_site_num(q))
            if not (0 <= j < n and tuple(L.sites[j]) == tuple(q)):
                rng = False
            if tuple(q) == tuple(p):
                irr = False
            if tuple(p) not in nb(q):
                sym = False
    res["range"], res["sym"], res["irr"] = (rng, ""), (sym, ""), (irr, "")
    if hasattr(L, "create_adjacency_matrix"):
        h = np.asarray(L.create_adjacency_matrix())
        res["adj.sym"] = (bool((h == h.T).all()) and h.shape == (n, n), "")
        res["adj.diag"] = (bool((np.diag(h) == 0).all()), "")
        deg = h.sum(axis=1)
        res["adj.deg"] = (bool((deg == L.coord_num).all()) if periodic else bool((deg <= L.coord_num).all()), str(deg.tolist()))
    try:
        ch, aux = L.tree_flatten()
        R = C.tree_unflatten(aux, ch)
        bad = [f for f in L.__dataclass_fields__ if getattr(R, f) != getattr(L, f)]
        res["tree"] = (not bad, "fields changed: " + ",".join(bad))
        res["hash"] = (hash(R) == hash(L), "")
        if hasattr(L, "create_adjacency_matrix"):
            res["tree.adj"] = (bool((np.asarray(R.create_adjacency_matrix()) == np.asarray(L.create_adjacency_matrix())).all()), "")
    except Exception as e:  # noqa
        res["tree"] = (False, f"{type(e).__name__}: {e}")
    return res


def clause_of(obname):
    parts = obname.split(".")
    fam = parts[2]
    if fam == "ctor":
        return ["ctor"]
    if fam == "bij":
        return ["bij"]
    if fam == "nbr":
        for k in ("range", "sym", "irr"):
            if k in parts:
                return [k]
        return ["adj.deg", "irr"]
    if fam == "adj":
        if "sym" in parts:
            return ["adj.sym"]
        if "diag" in parts:
            return ["adj.diag"]
        return ["adj.deg", "adj.sym"]
    if fam == "tree":
        return ["tree", "hash", "tree.adj"]
    return []


def replay(o):
    """Native replay of a refuted C20 obligation: the solver model's side lengths if small, else a sweep of small
    lattices with the same class/boundary. Sets o['replayed'] and o['witness']['native']."""
    parts = o["name"].split(".")
    cls = next((c for c in KINDS if c in parts), None)
    if cls is None:
        return
    ox = True if "open" in parts else (False if "periodic" in parts else None)
    if "flags" in KINDS[cls] and ox is None:
        ox = False
    names = KINDS[cls]["sides"]
    model = o.get("witness") or {}
    cands = []
    try:
        vals = [int(model[n]) for n in names]
        if all(2 <= v <= 7 for v in vals):
            cands.append(vals)
    except Exception:
        pass
    import itertools
    minside = 3 if any(k in parts for k in ("irr", "distinct", "adj", "diag", "degree")) else 2
    for vals in itertools.product(range(minside, 6), repeat=len(names)):
        if ox and cls == "triangular_grid" and vals[0] % 2:
            continue
        cands.append(list(vals))
    want = clause_of(o["name"])
    for vals in cands[:40]:
        try:
            res = native_clauses(cls, vals, ox)
        except Exception as e:  # noqa
            res = {"ctor": (False, f"{type(e).__name__}: {e}")}
        bad = [k for k in want if k in res and not res[k][0]]
        if bad:
            o["replayed"] = True
            o["witness"] = dict(model=model, native=dict(cls=cls, sides=dict(zip(names, vals)), open_x=ox,
                                                         failing_clauses={k: res[k][1] for k in bad}))
            return
    o["replayed"] = False

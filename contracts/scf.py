"""C18 – trial optimisation: eigen-decomposition derivative (Float64 + reals), Fock operator of the SCF map, orthonormal output."""
from __future__ import annotations

import ast
import time

import numpy as np
import z3

from vc import front
from vc.common import ob, DISCHARGED, REFUTED, UNDECIDED, Unsupported
from vc.pyvc.engine import discharge

F64 = z3.Float64()
RNE = z3.RNE()


def fpv(x):
    return z3.FPVal(float(x), F64)


class Num:
    """host-side scalar in a chosen theory (Float64 or Real) so that the REAL statements of _eigh_jvp can be executed on one (i,j) entry"""

    def __init__(self, t, real=False):
        self.t, self.real = t, real

    def _c(self, o):
        if isinstance(o, Num):
            return o.t
        return z3.RealVal(repr(float(o))) if self.real else fpv(o)

    def __sub__(self, o):
        return Num(self.t - self._c(o), self.real)

    def __rsub__(self, o):
        return Num(self._c(o) - self.t, self.real)

    def __abs__(self):
        return Num(z3.If(self.t >= 0, self.t, -self.t) if self.real else z3.fpAbs(self.t), self.real)

    def __lt__(self, o):
        return self.t < self._c(o)

    def __eq__(self, o):    # noqa
        return (self.t == self._c(o)) if self.real else z3.fpEQ(self.t, self._c(o))

    __hash__ = None


class _W:
    def __init__(self, wi, wj):
        self.wi, self.wj = wi, wj

    def __getitem__(self, key):
        last = key[-1] if isinstance(key, tuple) else key
        return self.wj if isinstance(last, slice) else self.wi      # w[..., newaxis, :] varies with the column j; w[..., newaxis] with the row i


def _run_eigh_jvp(real):
    """execute the real statements of linalg_utils._eigh_jvp for one matrix entry (i, j); returns (Fmat entry, wi, wj, eye entry, hyps)"""
    fn, _ = front.get_function("linalg_utils._eigh_jvp")
    mk = (lambda n: z3.Real(n)) if real else (lambda n: z3.FP(n, F64))
    wi, wj, ey = Num(mk("w_i"), real), Num(mk("w_j"), real), Num(mk("eye_ij"), real)
    captured = {}

    class _J:
        @staticmethod
        def array(x):
            return x

        @staticmethod
        def where(c, a, b):
            a = a if isinstance(a, Num) else Num(wi._c(a), real)
            b = b if isinstance(b, Num) else Num(wi._c(b), real)
            return Num(z3.If(c, a.t, b.t), real)

        @staticmethod
        def eye(n):
            return ey

        @staticmethod
        def reciprocal(x):
            return Num((z3.RealVal(1) / x.t) if real else z3.fpDiv(RNE, fpv(1.0), x.t), real)

    class _A:
        shape = (3, 3)

    def _eigh(*a):
        return (_W(wi, wj), "v")

    def _nob(v, Fmat, at):
        captured["F"] = Fmat
        return ("dw", "dv")
    ns = {"jnp": _J, "np": np, "_eigh": _eigh, "_eigh_jvp_jitted_nob": _nob, "abs": abs, "primals": (_A(),), "tangents": ("at",)}
    for s in fn.body:
        if isinstance(s, ast.Expr):
            continue
        if isinstance(s, ast.Return):
            break
        exec(compile(ast.Module([s], []), "<_eigh_jvp>", "exec"), ns)
    if "F" not in captured:
        raise Unsupported("_eigh_jvp did not call _eigh_jvp_jitted_nob with an Fmat")
    return captured["F"], wi, wj, ey


def eigh_finite():
    """C18.eigh.finite (Float64, all inputs): every entry of Fmat is a finite double for finite eigenvalues - degenerate, nearly degenerate or not"""
    F, wi, wj, ey = _run_eigh_jvp(real=False)
    fin = lambda x: z3.And(z3.Not(z3.fpIsNaN(x)), z3.Not(z3.fpIsInf(x)))
    hyps = [fin(wi.t), fin(wj.t), z3.Or(z3.fpEQ(ey.t, fpv(0.0)), z3.fpEQ(ey.t, fpv(1.0)))]
    # the two halves of 'finite' are discharged separately (each is a much smaller bit-blasted query) with a budget that survives a fully loaded machine
    st, be, det, mod, wl = discharge(dict(hyps=hyps, goal=z3.Not(z3.fpIsNaN(F.t))), 600000)
    if st == DISCHARGED:
        st2, be2, det2, mod2, wl2 = discharge(dict(hyps=hyps, goal=z3.Not(z3.fpIsInf(F.t))), 600000)
        st, be, det, mod, wl = st2, be2, det2, mod2, wl + wl2
    return [ob("C18.eigh.finite", st, backend=be + "/Float64", wall=wl, witness=mod, functions=["linalg_utils._eigh_jvp"], witness_class="non-finite-F",
               detail=det or "Fmat[i,j] = 1/eji - eye is finite for all finite w_i, w_j (eji = 0 -> 1, |eji| < 1e-5 -> 1e200)")]


def eigh_formula():
    """C18.eigh.formula (reals): off degeneracy (|w_j - w_i| >= 1e-5, i != j) F_ij = 1/(w_j - w_i); on the diagonal F_ii = 0; and the jitted
    contraction is dw = diag(V^dagger A' V), dV = V (F o V^dagger A' V) - the standard first-order perturbation formulas"""
    out = []
    F, wi, wj, ey = _run_eigh_jvp(real=True)
    st, be, det, mod, wl = discharge(dict(hyps=[ey.t == 0, z3.Or(wj.t - wi.t >= z3.RealVal("1/100000"), wi.t - wj.t >= z3.RealVal("1/100000"))], goal=F.t == 1 / (wj.t - wi.t)), 20000)
    out.append(ob("C18.eigh.formula.offdiag", st, backend=be, wall=wl, witness=mod, functions=["linalg_utils._eigh_jvp"], detail=det or "F_ij = 1/(w_j - w_i) for |w_j - w_i| >= 1e-5"))
    st, be, det, mod, wl = discharge(dict(hyps=[ey.t == 1, wi.t == wj.t], goal=F.t == 0), 20000)
    out.append(ob("C18.eigh.formula.diag", st, backend=be, wall=wl, witness=mod, functions=["linalg_utils._eigh_jvp"], detail=det or "F_ii = 0"))
    if any(o["status"] == REFUTED for o in out):
        _eigh_native_replay(out)
    # the contraction, Engine B
    from vc.jxvc import harness as H
    from vc.jxvc.interp import evaluate
    H.setup_repo()
    import jax.numpy as jnp
    from ad_afqmc import linalg_utils
    t0 = time.time()
    n = 3
    inp = H.Inputs(9)
    hv, hf, ha = inp.declare("v", (n, n)), inp.declare("f", (n, n)), inp.declare("a", (n, n))
    inp.build()
    (dw, dv), _ = evaluate(inp.sp, linalg_utils._eigh_jvp_jitted_nob, (hv["V"].s, hf["V"].s, ha["V"].s), tuple(jnp.asarray(h["V"].x) for h in (hv, hf, ha)))
    V, Fm, A = hv["V"].s, hf["V"].s, ha["V"].s
    M = V.T.dot(A).dot(V)
    out.append(H.identity("C18.eigh.formula.dw", dw, np.array([M[i, i] for i in range(n)], dtype=object), kind="bounded", functions=["linalg_utils._eigh_jvp_jitted_nob"], inputs=inp, t0=t0,
                          note="dw = diag(V^T A' V) (real V)"))
    out.append(H.identity("C18.eigh.formula.dv", dv, V.dot(Fm * M), kind="bounded", functions=["linalg_utils._eigh_jvp_jitted_nob"], inputs=inp, t0=t0, note="dV = V (F o V^T A' V)"))
    return out


def _eigh_native_replay(out):
    """native replay of a refuted F-matrix clause: jax.jvp of the real _eigh on a non-degenerate symmetric matrix against the first-order
    perturbation formulas dw_i = (V^T A' V)_ii, dV = V (F o V^T A' V), F_ij = 1/(w_j - w_i)"""
    from vc.jxvc import harness as H
    H.setup_repo()
    import jax
    import jax.numpy as jnp
    from ad_afqmc import linalg_utils
    rng = np.random.default_rng(3)
    n = 4
    A = rng.normal(size=(n, n)); A = A + A.T + np.diag(3.0 * np.arange(n))
    dA = rng.normal(size=(n, n)); dA = dA + dA.T
    (w, v), (dw, dv) = jax.jvp(linalg_utils._eigh, (jnp.asarray(A),), (jnp.asarray(dA),))
    w, v, dw, dv = map(np.asarray, (w, v, dw, dv))
    M = v.T @ dA @ v
    Fm = np.array([[0.0 if i == j else 1.0 / (w[j] - w[i]) for j in range(n)] for i in range(n)])
    dev = float(max(np.abs(dv - v @ (Fm * M)).max(), np.abs(dw - np.diag(M)).max()))
    for o in out:
        if o["status"] == REFUTED:
            o["replayed"] = bool(dev > 1e-8)
            o["witness"] = dict(solver_model=o.get("witness"), native=dict(A=A.tolist(), dA=dA.tolist(), max_abs_deviation_from_perturbation_formula=dev))


class _Cap(Exception):
    def __init__(self, ops):
        self.ops = ops


def fock(kind, norb=3, nchol=2):
    """C18.opt.fock.<kind>: the matrix handed to the eigen-solver in the first SCF iteration of optimize() is the (restricted / unrestricted)
    Hartree-Fock Fock operator of the current density:  F_s = h1_s + J[rho_up + rho_dn] - K[rho_s]  (rhf: h1 + J[rho] - K[rho]/2, rho = 2 C C^T),
    J[rho] = sum_g tr(L_g rho) L_g,  K[rho] = sum_g L_g rho L_g.  A converged solution is then a fixed point of the map (eigenvectors of its own Fock matrix)."""
    from vc.jxvc import harness as H
    from vc.jxvc.interp import evaluate
    from contracts.wf import Case
    t0 = time.time()
    nel = (1, 1) if kind == "rhf" else (2, 1)
    c = Case(kind, norb, nel, nchol=nchol, complex_trial=False, spin_dep=(kind != "rhf"))
    caps = []

    def h_eigh(it, e, ins):
        caps.append(ins[0])
        if len(caps) == (1 if kind == "rhf" else 2):
            raise _Cap(list(caps))
        n = ins[0].shape[-1]
        return [np.eye(n), np.arange(n, dtype=float)] if e.outvars[0].aval.ndim == 2 else [np.arange(n, dtype=float), np.eye(n)]
    hs, hx = c.sx(c.ham0)
    wvs, wvx = c.sx(c.wave)
    c.trial.n_opt_iter = 1
    try:
        evaluate(c.inp.sp, c.trial.optimize, (hs, wvs), (dict(hx), wvx), prim_hook={"eigh": h_eigh})
        return [ob(f"C18.opt.fock.{kind}", UNDECIDED, kind="bounded", detail="the eigen-solver was not reached", functions=[f"wavefunctions.{kind}.optimize"])]
    except _Cap as cap:
        focks = cap.ops
    L, h1 = c.L.s, c.h1.s
    J = lambda rho: sum((np.sum(L[g] * rho) * L[g] for g in range(nchol)), 0 * L[0])
    K = lambda rho: sum((L[g].dot(rho).dot(L[g]) for g in range(nchol)), 0 * L[0])
    out = []
    fns = [f"wavefunctions.{kind}.optimize"]
    if kind == "rhf":
        C = c.C[0].s
        rho = (C.dot(C.T)) * c.inp.sp.const(2)
        hav = (h1[0] + h1[1]) * c.inp.sp.const(0.5)
        want = hav + J(rho) - K(rho) * c.inp.sp.const(0.5)
        out.append(H.identity(f"C18.opt.fock.rhf[norb={norb}]", focks[0], want, kind="bounded", functions=fns, inputs=c.inp, t0=t0, note="F = h1 + J[rho] - K[rho]/2, rho = 2 C C^T"))
    else:
        ru, rd = c.C[0].s.dot(c.C[0].s.T), c.C[1].s.dot(c.C[1].s.T)
        for s, (rho_s, nm) in enumerate(((ru, "up"), (rd, "dn"))):
            want = h1[s] + J(ru + rd) - K(rho_s)
            o = H.identity(f"C18.opt.fock.uhf.{nm}[norb={norb}]", focks[s], want, kind="bounded", functions=fns, inputs=c.inp, t0=t0,
                           note=f"F_{nm} = h1[{s}] + J[rho_up + rho_dn] - K[rho_{nm}]")
            if o["status"] == REFUTED:
                _replay_fock(o)
            out.append(o)
    return out


def _replay_fock(o):
    """native replay: a converged UHF solution (computed by an independent numpy SCF) must be a fixed point of uhf.optimize"""
    from contracts import native
    native.setup()
    import jax.numpy as jnp
    from ad_afqmc import wavefunctions as wf
    rng = np.random.default_rng(2)
    norb, nel, nchol = 4, (2, 1), 3
    h = rng.normal(size=(norb, norb)); h = (h + h.T) / 2
    L = rng.normal(size=(nchol, norb, norb)) * 0.3; L = (L + L.transpose(0, 2, 1)) / 2
    Cu, Cd = np.linalg.qr(rng.normal(size=(norb, norb)))[0][:, :2], np.linalg.qr(rng.normal(size=(norb, norb)))[0][:, :1]
    for _ in range(400):
        ru, rd = Cu @ Cu.T, Cd @ Cd.T
        J = sum(np.sum(L[g] * (ru + rd)) * L[g] for g in range(nchol))
        Fu = h + J - sum(L[g] @ ru @ L[g] for g in range(nchol))
        Fd = h + J - sum(L[g] @ rd @ L[g] for g in range(nchol))
        Cu2, Cd2 = np.linalg.eigh(Fu)[1][:, :2], np.linalg.eigh(Fd)[1][:, :1]
        if max(np.abs(Cu2 @ Cu2.T - ru).max(), np.abs(Cd2 @ Cd2.T - rd).max()) < 1e-13:
            break
        Cu, Cd = Cu2, Cd2
    trial = wf.uhf(norb, nel, n_opt_iter=5)
    ham = {"h0": 0.0, "h1": jnp.array([h, h]), "chol": jnp.array(L.reshape(nchol, -1))}
    out = trial.optimize(ham, {"mo_coeff": [jnp.array(Cu), jnp.array(Cd)]})
    Ou, Od = np.asarray(out["mo_coeff"][0]), np.asarray(out["mo_coeff"][1])
    dev = max(np.abs(Ou @ Ou.T - Cu @ Cu.T).max(), np.abs(Od @ Od.T - Cd @ Cd.T).max())
    o["replayed"] = bool(dev > 1e-8)
    o["witness"] = dict(o.get("witness") or {}, native=dict(open_shell="(2,1)", projector_change_of_a_converged_UHF_solution=float(dev)))


def opt_orth():
    """C18.opt.orth: rhf/uhf.optimize return the first nelec columns of per-column sign-fixed eigenvector matrices (orthonormal for every input):
    refinement typing over the real AST"""
    out = []
    for kind in ("rhf", "uhf"):
        q = f"wavefunctions.{kind}.optimize"
        fn, _ = front.get_function(q)
        src = ast.unparse(fn)
        eig = src.count("linalg_utils._eigh(")
        signfix = src.count("jnp.where(") >= (1 if kind == "rhf" else 2) and "-mo_coeff" in src
        rets = [n for n in ast.walk(fn) if isinstance(n, ast.Assign) and ast.unparse(n.targets[0]).replace('"', "'") == "wave_data['mo_coeff']"]
        ok_slice = bool(rets) and all(("[:, :nelec" in ast.unparse(r.value)) for r in rets)
        scan_out = "mo_coeff" in src and "lax.scan(scanned_fun" in src
        ok = eig >= (1 if kind == "rhf" else 2) and signfix and ok_slice and scan_out
        out.append(ob(f"C18.opt.orth.{kind}", DISCHARGED if ok else UNDECIDED, kind="proof" if ok else "nd", backend="pyvc-refinement", functions=[q],
                      detail="returns [:, :nelec] columns of the eigh eigenvector matrix with per-column signs fixed by where(..., -V, V): orthonormal columns (eigh contract)" if ok else
                      f"typing could not be established (eigh calls {eig}, sign fix {signfix}, column slice {ok_slice})"))
    return out


def canary():
    F, wi, wj, ey = _run_eigh_jvp(real=False)
    st, be, det, mod, wl = discharge(dict(hyps=[], goal=z3.Not(z3.fpIsNaN(F.t))), 60000)
    return [ob("C18.canary.finite_without_finite_inputs", st, kind="canary", backend=be, detail=det, witness=mod)]


class _Body(Exception):
    def __init__(self, carry, ys):
        self.carry, self.ys = carry, ys


def density(kind, norb=3, nchol=1, flip=False, nocc=1):
    """C18.opt.density.<kind>: the density matrix that optimize() carries from one SCF iteration to the next is
        rhf: 2 sum_{i < nocc} v_i v_i^T,   uhf: sum_{i < nocc_s} v_i^s v_i^s^T   (v_i = eigenvectors in ascending eigenvalue order, the contract of eigh),
    for ALL eigenvector matrices V (symbolic) and independently of the sign convention applied to the columns (both answers of the sign test are enumerated);
    together with opt.fock this is what makes a converged solution a fixed point beyond the first iteration."""
    from vc.jxvc import harness as H
    from vc.jxvc.interp import evaluate
    from vc.jxvc.field import is_obj
    from contracts.wf import Case
    t0 = time.time()
    nel = (nocc, nocc) if kind == "rhf" else (nocc + 1, nocc)
    c = Case(kind, norb, nel, nchol=nchol, complex_trial=False, spin_dep=(kind != "rhf"))
    nspin = 1 if kind == "rhf" else 2
    inpv = H.Inputs(40)
    hv = [inpv.declare(f"V{s}", (norb, norb)) for s in range(nspin)]
    inpv.build()
    # one symbol space for the identity: the eigenvectors are the only symbols that survive into the density; everything else is numeric here
    sp = inpv.sp
    calls = dict(eigh=0)

    def h_eigh(it, e, ins):
        s_ = calls["eigh"]
        calls["eigh"] += 1
        w = np.arange(1, norb + 1, dtype=float)              # ascending, distinct: the contract of jnp.linalg.eigh
        V = hv[s_ % nspin]["V"].s
        return [V, w] if e.outvars[0].aval.ndim == 2 else [w, V]

    def h_argmax(it, e, ins):
        return np.zeros(tuple(e.outvars[0].aval.shape), dtype=np.dtype(e.outvars[0].aval.dtype))       # only feeds the sign test below

    def h_abs(it, e, ins):
        return ins[0] if is_obj(ins[0]) else None

    def h_lt(it, e, ins):
        if is_obj(ins[0]) and not is_obj(ins[1]) and np.all(np.asarray(ins[1]) == 0):
            return np.full(np.shape(ins[0]), bool(flip))      # the sign test of a column: both answers are enumerated by `flip`
        return None

    def scan_hook(it, e, ins):
        P = e.params
        consts, carry, xs = [list(t) for t in P["ft_in"].update(ins).unpack()]
        cj = P["jaxpr"]
        it.scan_hook = None
        o = it.run(cj.jaxpr, cj.consts, list(consts) + list(carry))
        c2, ys = [list(t) for t in P["ft_out"].update(o).unpack()]
        raise _Body(c2, ys)
    rng = np.random.default_rng(1)
    import jax.numpy as jnp
    h1 = rng.normal(size=(2, norb, norb)); h1 = h1 + h1.transpose(0, 2, 1)
    L = rng.normal(size=(nchol, norb * norb))
    ham_x = dict(h1=jnp.asarray(h1), chol=jnp.asarray(L))
    C0 = np.eye(norb)
    wave_x = dict(mo_coeff=jnp.asarray(C0[:, :nel[0]])) if kind == "rhf" else dict(mo_coeff=[jnp.asarray(C0[:, :nel[0]]), jnp.asarray(C0[:, :nel[1]])])
    import jax
    ham_s, wave_s = jax.tree_util.tree_map(np.asarray, ham_x), jax.tree_util.tree_map(np.asarray, wave_x)
    name = f"C18.opt.density.{kind}[norb={norb},nel={nel[0]}+{nel[1]},flip={int(flip)}]"
    fns = [f"wavefunctions.{kind}.optimize"]
    try:
        evaluate(sp, c.trial.optimize, (ham_s, wave_s), (dict(ham_x), wave_x), scan_hook=scan_hook, prim_hook={"eigh": h_eigh, "argmax": h_argmax, "abs": h_abs, "lt": h_lt})
        return [ob(name, UNDECIDED, kind="bounded", detail="the SCF loop was not reached", functions=fns)]
    except _Body as b:
        dm = np.asarray(b.carry[0], dtype=object)
    occ = 2 if kind == "rhf" else 1
    out = []
    if kind == "rhf":
        V = hv[0]["V"].s
        want = sp.const(occ) * V[:, :nel[0]].dot(V[:, :nel[0]].T)
        out.append(H.identity(name, dm, want, kind="bounded", functions=fns, inputs=inpv, t0=t0, note=f"carried density == {occ} sum_(i<nocc) v_i v_i^T for every eigenvector matrix"))
    else:
        for s_ in range(2):
            V = hv[s_]["V"].s
            want = V[:, :nel[s_]].dot(V[:, :nel[s_]].T)
            out.append(H.identity(name + f".{'ud'[s_]}{'pn'[s_]}", dm[s_], want, kind="bounded", functions=fns, inputs=inpv, t0=t0,
                                  note="carried density == sum_(i<nocc_s) v_i v_i^T for every eigenvector matrix"))
    for o in out:
        if o["status"] == REFUTED:
            _replay_fock(o) if kind == "uhf" else _replay_rhf_fixed_point(o)
    return out


def writeback(kind, norb=4, nocc=2, flip=False):
    """C18.opt.writeback.<kind>: optimize() returns, as the new trial orbitals of spin s, the n_s COLUMNS of lowest eigenvalue of the last eigenvector matrix
    (up to the column sign convention): wave_data['mo_coeff'] == +-V_s[:, :n_s] for all eigenvector matrices V (one SCF iteration, eigh under its contract)."""
    from vc.jxvc import harness as H
    from vc.jxvc.interp import evaluate
    from vc.jxvc.field import is_obj
    t0 = time.time()
    H.setup_repo()
    import jax
    import jax.numpy as jnp
    from ad_afqmc import wavefunctions as wf
    nel = (nocc, nocc) if kind == "rhf" else (nocc + 1, nocc)
    trial = getattr(wf, kind)(norb, nel, n_opt_iter=1)
    nspin = 1 if kind == "rhf" else 2
    inpv = H.Inputs(41)
    hv = [inpv.declare(f"V{s}", (norb, norb)) for s in range(nspin)]
    inpv.build()
    sp = inpv.sp
    calls = dict(eigh=0)

    def h_eigh(it, e, ins):
        s_ = calls["eigh"]
        calls["eigh"] += 1
        w = np.arange(1, norb + 1, dtype=float)
        V = hv[s_ % nspin]["V"].s
        return [V, w] if e.outvars[0].aval.ndim == 2 else [w, V]
    hooks = {"eigh": h_eigh, "argmax": lambda it, e, ins: np.zeros(tuple(e.outvars[0].aval.shape), dtype=np.dtype(e.outvars[0].aval.dtype)),
             "abs": lambda it, e, ins: ins[0] if is_obj(ins[0]) else None,
             "lt": lambda it, e, ins: np.full(np.shape(ins[0]), bool(flip)) if (is_obj(ins[0]) and not is_obj(ins[1]) and np.all(np.asarray(ins[1]) == 0)) else None}
    rng = np.random.default_rng(1)
    h1 = rng.normal(size=(2, norb, norb)); h1 = h1 + h1.transpose(0, 2, 1)
    ham_x = dict(h1=jnp.asarray(h1), chol=jnp.asarray(rng.normal(size=(1, norb * norb))))
    C0 = np.eye(norb)
    wave_x = dict(mo_coeff=jnp.asarray(C0[:, :nel[0]])) if kind == "rhf" else dict(mo_coeff=[jnp.asarray(C0[:, :nel[0]]), jnp.asarray(C0[:, :nel[1]])])
    ham_s, wave_s = jax.tree_util.tree_map(np.asarray, ham_x), jax.tree_util.tree_map(np.asarray, wave_x)
    name = f"C18.opt.writeback.{kind}[norb={norb},nel={nel[0]}+{nel[1]},flip={int(flip)}]"
    fns = [f"wavefunctions.{kind}.optimize"]
    out, _ = evaluate(sp, trial.optimize, (ham_s, wave_s), (dict(ham_x), wave_x), prim_hook=hooks)
    sg = sp.const(-1 if flip else 1)
    res = []
    got = [out["mo_coeff"]] if kind == "rhf" else list(out["mo_coeff"])
    for s_ in range(nspin):
        want = hv[s_]["V"].s[:, :nel[s_]] * sg
        o = H.identity(name + ("" if kind == "rhf" else f".{'ud'[s_]}{'pn'[s_]}"), np.asarray(got[s_], dtype=object), want, kind="bounded", functions=fns, inputs=inpv, t0=t0,
                       note="returned orbitals == the n_s eigenvector COLUMNS of lowest eigenvalue (with the enumerated column sign)")
        if o["status"] == REFUTED:
            _replay_fock(o) if kind == "uhf" else _replay_rhf_fixed_point(o)
        res.append(o)
    return res


def _replay_rhf_fixed_point(o):
    """native replay: a converged RHF solution (independent numpy SCF) must be a fixed point of rhf.optimize over several iterations"""
    try:
        from contracts import native
        native.setup()
        import jax.numpy as jnp
        from ad_afqmc import wavefunctions as wf
        rng = np.random.default_rng(4)
        norb, nocc, nchol = 4, 2, 3
        h = rng.normal(size=(norb, norb)); h = (h + h.T) / 2
        L = rng.normal(size=(nchol, norb, norb)) * 0.3; L = (L + L.transpose(0, 2, 1)) / 2
        C = np.eye(norb)[:, :nocc]
        for _ in range(500):
            rho = 2 * C @ C.T
            F = h + sum(np.sum(L[g] * rho) * L[g] for g in range(nchol)) - 0.5 * sum(L[g] @ rho @ L[g] for g in range(nchol))
            C2 = np.linalg.eigh(F)[1][:, :nocc]
            if np.abs(C2 @ C2.T - C @ C.T).max() < 1e-13:
                C = C2
                break
            C = C2
        trial = wf.rhf(norb, (nocc, nocc), n_opt_iter=5)
        out = trial.optimize({"h0": 0.0, "h1": jnp.array([h, h]), "chol": jnp.array(L.reshape(nchol, -1))}, {"mo_coeff": jnp.array(C)})
        O = np.asarray(out["mo_coeff"])
        dev = float(np.abs(O @ O.T - C @ C.T).max())
        o["replayed"] = bool(dev > 1e-8)
        o["witness"] = dict(o.get("witness") or {}, native=dict(norb=norb, nocc=nocc, n_opt_iter=5, projector_change_of_a_converged_solution=dev))
    except Exception as e:   # noqa
        o["witness"] = dict(o.get("witness") or {}, native_error=repr(e)[:300])

"""C12 (part 2) – the sampler entry points compute the same, correct block estimator (Engine A, EUF terms).

The real bodies of the sampler entry points, `_ad_block`, `_sr_block_scan` and `_block_scan` are EXECUTED with every
numerical callee as an uninterpreted function (trial/ham/prop methods, jnp.*, random.*) and `lax.scan` as a recording
model; the resulting terms are compared with the canonical terms of DESIGN.md Appendix B for the entry point's
(orbital_rotation, do_sr) flags.  Commutative + and * are canonically ordered, so harmless re-orderings do not matter.
"""
from __future__ import annotations

import ast

import z3

from vc.pyvc.engine import run_scenario, Opaque, Obj, Func, Interp, is_z3
from vc.pyvc import libmodels as LM
from vc.pyvc import arrmodels as _AM  # noqa: registers store/getattr extensions
from vc.pyvc.libmodels import term_key
from vc.common import ob, DISCHARGED, REFUTED, UNDECIDED, Unsupported

FLAGS = {  # entry point -> (orbital rotation, stochastic reconfiguration, has coupling prelude)
    "propagate_phaseless_ad": (True, True, True),
    "propagate_phaseless_ad_nosr": (True, False, True),
    "propagate_phaseless_ad_norot": (False, True, True),
    "propagate_phaseless_ad_nosr_norot": (False, False, True),
    "propagate_phaseless": (False, True, False),
}


def U(tag, *deps):
    return Opaque(tag, list(deps))


def call(obj, meth, *args):
    return Opaque("call", [Opaque("attr:" + meth, [obj])] + list(args))


def binop(op, a, b):
    ops = [a, b]
    if op in ("Add", "Mult"):
        ops = sorted(ops, key=lambda v: repr(term_key(v)))
    return Opaque("binop:" + op, ops)


def lib(name, *args, **kw):
    return Opaque("lib:" + name, list(args) + [(k, v) for k, v in sorted(kw.items())])


def same(run, a, b):
    r = run.equal(a, b)
    return bool(r) if not is_z3(r) else False


def _scan_model(record):
    def scan(it, a, kw):
        f, init = a[0], a[1]
        xs = a[2] if len(a) > 2 else kw.get("xs")
        length = kw.get("length", a[3] if len(a) > 3 else None)
        k = len(record)
        carry = U(f"carry{k}")
        rec = dict(init=dict(init) if isinstance(init, dict) else init, xs=xs, length=length, calls=[])
        record.append(rec)
        it.run._scan_stack.append(rec)
        try:
            out = it.call_value(f, [carry, U(f"x{k}")], {})
        finally:
            it.run._scan_stack.pop()
        rec["body_out"] = out
        rec["carry"] = carry
        res_carry = U(f"scan{k}.carry", carry) if not isinstance(init, dict) else {key: U(f"scan{k}.carry[{key}]") for key in set(init) | set(out[0] if isinstance(out, (tuple, list)) and isinstance(out[0], dict) else {})}
        ys = out[1] if isinstance(out, (tuple, list)) and len(out) > 1 else None
        stack = lambda y: U(f"scan{k}.ys", y) if not isinstance(y, (tuple, list)) else tuple(stack(t) for t in y)
        return (res_carry, stack(ys))
    return scan


def _prepare(run, record):
    run.uninterp_libs = True
    run._scan_stack = []
    LM._MODELS["jax.lax.scan"] = _scan_model(record)
    LM._MODELS["jax.checkpoint"] = lambda it, a, kw: a[0]


def _pd(run):
    return {"walkers": U("walkers0"), "weights": U("weights0"), "overlaps": U("stale_overlaps"), "key": U("key0"),
            "e_estimate": U("e_est0"), "pop_control_ene_shift": U("stale_shift"), "n_killed_walkers": U("stale_killed")}


def entry_eq(entry):
    """C12.eq.<entry>.*: prelude, initialisation, core and estimator of one entry point against its canonical term"""
    rot, sr, coupled = FLAGS[entry]

    def sc(run):
        record = []
        _prepare(run, record)
        inner_calls = []

        def c_inner(name):
            def contract(it, selfobj, *args, **kw):
                inner_calls.append((name, args))
                return ({k: U(f"{name}.carry[{k}]", *args[:1]) for k in args[0]} if isinstance(args[0], dict) else U(name + ".carry"),
                        (U(name + ".E", args[0]), U(name + ".W", args[0])))
            return contract
        for nm in ("_block_scan", "_sr_block_scan"):
            run.contracts["sampling.sampler." + nm] = c_inner(nm)
        smp = run.construct("sampling", "sampler")
        for f in ("n_prop_steps", "n_ene_blocks", "n_sr_blocks", "n_blocks"):
            smp.fields[f] = U("self." + f)
        ham, prop, trial = U("ham"), U("prop"), U("trial")
        h0 = {"h0": U("h0"), "h1": U("h1"), "chol": U("chol")}
        wd0 = U("wave_data0")
        pd = _pd(run)
        coupling, op = U("coupling"), U("observable_op")
        if coupled:
            res = run.method(smp, entry, ham, dict(h0), coupling, op, prop, pd, trial, wd0)
        else:
            res = run.method(smp, entry, ham, dict(h0), prop, pd, trial, wd0)
        energy, pd_out = res
        # ---- canonical prelude
        if coupled:
            h1 = dict(h0)
            h1["h1"] = binop("Add", h0["h1"], binop("Mult", coupling, op))
            wd1 = call(trial, "optimize", h1, wd0) if rot else wd0
            h2 = call(ham, "build_propagation_intermediates", call(ham, "build_measurement_intermediates", h1, trial, wd1), prop, trial, wd1)
        else:
            h2, wd1 = dict(h0), wd0
        if len(record) != 1:
            run.fail("core.one_scan", f"expected one outer scan, found {len(record)}")
            return
        rec = record[0]
        want_body = "_sr_block_scan" if sr else "_block_scan"
        run.prove("core.body", len(inner_calls) == 1 and inner_calls[0][0] == want_body,
                  note=f"the outer scan iterates {want_body} (flags rot={rot}, sr={sr})")
        if len(inner_calls) == 1:
            args = inner_calls[0][1]
            run.prove("core.body.carry", args[0] is rec["carry"] or same(run, args[0], rec["carry"]), note="the scan carry is the propagated state")
            run.prove("prelude.ham_data", same(run, args[2], h2),
                      note="ham_data handed to the blocks: h1 += coupling*op, then measurement and propagation intermediates (with the optimised trial if rot)")
            run.prove("prelude.wave_data", same(run, args[5], wd1), note="wave_data handed to the blocks (optimised iff orbital rotation)")
            run.prove("core.body.static", args[3] is prop and args[4] is trial, note="same propagator and trial")
        run.prove("core.length", same(run, rec["length"], U("self.n_sr_blocks" if sr else "self.n_ene_blocks")),
                  note="number of outer iterations")
        init = rec["init"]
        run.prove("init.overlaps", isinstance(init, dict) and same(run, init.get("overlaps"), call(trial, "calc_overlap", pd["walkers"], wd1)),
                  note="overlaps refreshed from the CURRENT walkers with the wave_data used by the blocks, before the first step")
        run.prove("init.n_killed", isinstance(init, dict) and same(run, init.get("n_killed_walkers"), 0), note="killed-walker counter reset")
        run.prove("init.shift", isinstance(init, dict) and same(run, init.get("pop_control_ene_shift"), pd["e_estimate"]),
                  note="population-control shift initialised to e_estimate")
        run.prove("init.frame", isinstance(init, dict) and all(same(run, init.get(k), pd[k]) for k in ("walkers", "weights", "key", "e_estimate")),
                  note="walkers, weights, key, e_estimate enter the core unchanged")
        E, W = U("scan0.ys", U(want_body + ".E", rec["carry"])), U("scan0.ys", U(want_body + ".W", rec["carry"]))
        want_energy = binop("Div", lib("np.sum", binop("Mult", E, W)), lib("np.sum", W))
        run.prove("estimator", same(run, energy, want_energy), note="energy = sum(E_b W_b) / sum(W_b) over the blocks")
        denom = binop("Mult", binop("Mult", U("self.n_sr_blocks"), U("self.n_ene_blocks")), call_attr(prop, "n_walkers"))
        run.prove("killed.norm", isinstance(pd_out, dict) and same(run, pd_out.get("n_killed_walkers"), binop("Div", U("scan0.carry[n_killed_walkers]"), denom)),
                  note="n_killed_walkers /= n_sr_blocks * n_ene_blocks * n_walkers")
    return run_scenario(f"C12.eq.{entry}", sc, functions=[f"sampling.sampler.{entry}", "sampling.sampler._ad_block"], no_exception="noexc")


def call_attr(obj, attr):
    return Opaque("attr:" + attr, [obj])


def sr_block():
    """C12.eq._sr_block_scan: n_ene_blocks energy blocks, then local SR, then an overlap refresh; outputs the blocks' (E, W)"""
    def sc(run):
        record = []
        _prepare(run, record)
        calls = []

        def c_block(it, selfobj, *args, **kw):
            calls.append(args)
            return ({k: U(f"blk.carry[{k}]") for k in args[0]} if isinstance(args[0], dict) else U("blk.carry"), (U("blk.E", args[0]), U("blk.W", args[0])))
        run.contracts["sampling.sampler._block_scan"] = c_block
        smp = run.construct("sampling", "sampler")
        for f in ("n_prop_steps", "n_ene_blocks", "n_sr_blocks", "n_blocks"):
            smp.fields[f] = U("self." + f)
        prop, trial, hd, wd = U("prop"), U("trial"), U("ham_data"), U("wave_data")
        pd = _pd(run)
        res = run.method(smp, "_sr_block_scan", pd, U("x"), hd, prop, trial, wd)
        out, (E, W) = res
        run.prove("one_scan", len(record) == 1 and len(calls) == 1, note="one scan over _block_scan")
        if len(record) == 1 and len(calls) == 1:
            rec = record[0]
            run.prove("length", same(run, rec["length"], U("self.n_ene_blocks")), note="n_ene_blocks energy blocks")
            run.prove("args", same(run, calls[0][2], hd) and calls[0][3] is prop and calls[0][4] is trial and same(run, calls[0][5], wd),
                      note="blocks see the same ham_data, propagator, trial, wave_data")
            run.prove("init", all(same(run, rec["init"].get(k), pd[k]) for k in pd), note="the incoming state is the scan's initial carry")
            after = {k: U(f"scan0.carry[{k}]") for k in pd}
            srd = call(prop, "stochastic_reconfiguration_local", after)
            run.prove("sr_then_refresh", isinstance(out, Opaque) or isinstance(out, dict), note="(shape)")
            # out = SR(after)[overlaps := calc_overlap(SR(after).walkers, wd)]
            want_ov = call(trial, "calc_overlap", Opaque("getitem", [srd, "walkers"]), wd)
            got_ov = out.get("overlaps") if isinstance(out, dict) else Opaque("getitem", [out, "overlaps"])
            run.prove("refresh", same(run, got_ov, want_ov) or _stored(out, want_ov, run),
                      note="after the local reconfiguration the overlaps are recomputed from the reconfigured walkers")
            run.prove("outputs", same(run, E, U("scan0.ys", U("blk.E", rec["carry"]))) and same(run, W, U("scan0.ys", U("blk.W", rec["carry"]))),
                      note="returns the per-block energies and weights")
    return run_scenario("C12.eq._sr_block_scan", sc, functions=["sampling.sampler._sr_block_scan"], no_exception="noexc")


def _stored(out, want, run):
    st = getattr(out, "stores", None)
    return bool(st and "overlaps" in st and same(run, st["overlaps"], want))


def est_block():
    """C12.est.block: _block_scan = n_prop_steps propagate steps, QR, refresh, then
       block_energy = sum(w * cap(Re E_L)) / sum(w),  cap(e) = e_est if |e - e_est| > sqrt(2/dt) else e, on the walkers after QR."""
    def sc(run):
        record = []
        _prepare(run, record)
        steps = []

        def c_step(it, selfobj, *args, **kw):
            steps.append(args)
            return ({k: U(f"step.carry[{k}]") for k in args[0]} if isinstance(args[0], dict) else U("step.carry"), U("fields_out"))
        run.contracts["sampling.sampler._step_scan"] = c_step
        LM._MODELS["jax.random.split"] = lambda it, a, kw: (Opaque("split0", [a[0]]), Opaque("split1", [a[0]]))
        smp = run.construct("sampling", "sampler")
        for f in ("n_prop_steps", "n_ene_blocks", "n_sr_blocks", "n_blocks"):
            smp.fields[f] = U("self." + f)
        prop, trial, wd = U("prop"), U("trial"), U("wave_data")
        hd = {"chol": U("chol"), "h0": U("h0")}
        pd0 = _pd(run)
        pd = dict(pd0)
        out, (be, bw) = run.method(smp, "_block_scan", pd, U("x"), hd, prop, trial, wd)
        pd = pd0
        run.prove("one_scan", len(record) == 1 and len(steps) == 1, note="one scan over _step_scan")
        if len(record) != 1 or len(steps) != 1:
            return
        rec = record[0]
        nsteps_ok = isinstance(rec["xs"], Opaque) and rec["xs"].tag == "lib:jax.random.normal"
        run.prove("steps.fields", nsteps_ok and same(run, rec["xs"].deps[0], Opaque("split1", [pd["key"]])),
                  note="fields ~ N(0,1) drawn from the sub-key; the carried key is the other half")
        shape = dict([d for d in rec["xs"].deps if isinstance(d, tuple) and len(d) == 2 and d[0] == "shape"]).get("shape") if nsteps_ok else None
        run.prove("steps.count", shape is not None and same(run, shape[0], U("self.n_prop_steps")), note="n_prop_steps steps per block")
        run.prove("steps.key", same(run, rec["init"].get("key"), Opaque("split0", [pd["key"]])), note="the carried key is the other half of the split")
        after = {k: U(f"scan0.carry[{k}]") for k in pd}
        q = call(prop, "orthonormalize_walkers", dict(after, n_killed_walkers=out_killed(after)))
        # energy formula on the walkers after QR
        wq, wts = Opaque("getitem", [q, "walkers"]), Opaque("getitem", [q, "weights"])
        e = lib("np.real", call(trial, "calc_energy", wq, hd, wd))
        eest = Opaque("getitem", [q, "e_estimate"])
        thr = lib("np.sqrt", binop("Div", 2.0, call_attr(prop, "dt")))
        cap = lib("np.where", binop_cmp("Gt", lib("np.abs", binop("Sub", e, eest)), thr), eest, e)
        bw_want = lib("np.sum", wts)
        be_want = binop("Div", lib("np.sum", binop("Mult", cap, wts)), bw_want)
        run.prove("energy", same(run, be, be_want), note="block_energy = sum(w cap(Re E_L(QR walkers))) / sum(w)")
        run.prove("weight", same(run, bw, bw_want), note="block_weight = sum(w)")
        want_ov = call(trial, "calc_overlap", wq, wd)
        got = out.get("overlaps") if isinstance(out, dict) else None
        run.prove("refresh", (got is not None and same(run, got, want_ov)) or _stored(out, want_ov, run),
                  note="overlaps recomputed from the orthonormalised walkers")
    return run_scenario("C12.est.block", sc, functions=["sampling.sampler._block_scan"], no_exception="noexc")


def out_killed(after):
    return binop("Add", after["n_killed_walkers"], binop("Sub", call_attr(after["weights"], "size"), lib("np.count_nonzero", after["weights"])))


def binop_cmp(op, a, b):
    return Opaque("cmp:" + op, [a, b])


def driver_dispatch():
    """C12.driver.dispatch: for every (orbital_rotation, do_sr) the driver's option matrix selects the entry point with those
    flags and passes (ham, ham_data, coupling, op, propagator, prop_data, trial, wave_data) in the callee's parameter order.
    The real `if` chain of driver.afqmc is evaluated concretely for the four option combinations."""
    from vc import front
    fn, _ = front.get_function("driver.afqmc")
    chain = None
    for node in ast.walk(fn):
        if isinstance(node, ast.If) and any(isinstance(s, ast.Assign) and ast.unparse(s.targets[0]) == "propagate_phaseless_wrapper" for s in node.body):
            if "ad_mode" not in ast.unparse(node.test):
                chain = node
                break
    if chain is None:
        return [ob("C12.driver.dispatch", UNDECIDED, backend="pyvc-struct", detail="option chain not found in driver.afqmc")]
    inv = {(r, s): e for e, (r, s, c) in FLAGS.items() if c}
    out = []
    for rot in (False, True):
        for sr in (False, True):
            options = {"orbital_rotation": rot, "do_sr": sr}
            node = chain
            chosen = None
            while True:
                if eval(compile(ast.Expression(node.test), "<driver>", "eval"), {"options": options}):
                    chosen = node.body
                    break
                if len(node.orelse) == 1 and isinstance(node.orelse[0], ast.If):
                    node = node.orelse[0]
                    continue
                chosen = node.orelse
                break
            lam = next((s.value for s in chosen if isinstance(s, ast.Assign) and ast.unparse(s.targets[0]) == "propagate_phaseless_wrapper"), None)
            ok, detail = False, "no wrapper assigned"
            if isinstance(lam, ast.Lambda) and isinstance(lam.body, ast.Call):
                c = lam.body
                meth = c.func.attr if isinstance(c.func, ast.Attribute) else "?"
                params = [a.arg for a in lam.args.args]
                args = [ast.unparse(a) for a in c.args]
                want_args = ["ham", "ham_data", params[0], params[1], "propagator", params[2], "trial", "wave_data"] if len(params) == 3 else None
                ok = meth == inv[(rot, sr)] and args == want_args
                detail = f"options rot={rot}, sr={sr} -> sampler.{meth}({', '.join(args)})"
            out.append(ob(f"C12.driver.dispatch.rot={int(rot)}.sr={int(sr)}", DISCHARGED if ok else REFUTED, backend="pyvc-struct", detail=detail,
                          witness_class="dispatch", witness=dict(options=options, expected=inv[(rot, sr)]), functions=["driver.afqmc"], replayed=None))
    return out


def canary():
    """vacuity guard: the canonical init term with a perturbed refresh must be refuted"""
    def sc(run):
        record = []
        _prepare(run, record)
        run.contracts["sampling.sampler._sr_block_scan"] = lambda it, selfobj, *a, **k: ({}, (U("E"), U("W")))
        smp = run.construct("sampling", "sampler")
        for f in ("n_prop_steps", "n_ene_blocks", "n_sr_blocks", "n_blocks"):
            smp.fields[f] = U("self." + f)
        pd = _pd(run)
        run.method(smp, "propagate_phaseless", U("ham"), {"h1": U("h1")}, U("prop"), pd, U("trial"), U("wd"))
        init = record[0]["init"]
        run.prove("init.overlaps.stale", same(run, init.get("overlaps"), U("stale_overlaps")), kind="canary")
    return run_scenario("C12.canary", sc)


def free_block():
    """C05.fp.energy: _block_scan_free = n_prop_steps free-projection steps, then block_energy = sum(E_L * overlaps) / sum(overlaps),
    block_weight = sum(overlaps) with the overlaps of the un-normalised walkers"""
    def sc(run):
        record = []
        _prepare(run, record)
        steps = []

        def c_step(it, selfobj, *args, **kw):
            steps.append(args)
            return ({k: U(f"step.carry[{k}]") for k in args[0]} if isinstance(args[0], dict) else U("step.carry"), U("fields_out"))
        run.contracts["sampling.sampler._step_scan_free"] = c_step
        LM._MODELS["jax.random.split"] = lambda it, a, kw: (Opaque("split0", [a[0]]), Opaque("split1", [a[0]]))
        smp = run.construct("sampling", "sampler")
        for f in ("n_prop_steps", "n_ene_blocks", "n_sr_blocks", "n_blocks"):
            smp.fields[f] = U("self." + f)
        prop, trial, wd = U("prop"), U("trial"), U("wave_data")
        hd = {"chol": U("chol"), "h0": U("h0")}
        pd0 = dict(_pd(run), norms=U("norms0"), normed_overlaps=U("stale_normed_overlaps"))
        out, (tr, be, bw) = run.method(smp, "_block_scan_free", dict(pd0), U("x"), hd, prop, trial, wd)
        run.prove("one_scan", len(record) == 1 and len(steps) == 1, note="one scan over _step_scan_free")
        if len(record) != 1 or len(steps) != 1:
            return
        rec = record[0]
        ok_f = isinstance(rec["xs"], Opaque) and rec["xs"].tag == "lib:jax.random.normal" and same(run, rec["xs"].deps[0], Opaque("split1", [pd0["key"]]))
        run.prove("steps.fields", ok_f, note="fields ~ N(0,1) from the sub-key")
        after = {k: U(f"scan0.carry[{k}]") for k in pd0}
        e = call(trial, "calc_energy", after["walkers"], hd, wd)
        ov = after["overlaps"]
        bw_want = lib("np.sum", ov)
        be_want = binop("Div", lib("np.sum", binop("Mult", e, ov)), bw_want)
        run.prove("energy", same(run, be, be_want), note="block_energy = sum(E_L * overlaps) / sum(overlaps)")
        run.prove("weight", same(run, bw, bw_want), note="block_weight = sum(overlaps)")
    return run_scenario("C05.fp.energy", sc, functions=["sampling.sampler._block_scan_free"], no_exception="noexc")

"""C19 – reported means and error bars follow their definitions (partial: algebraic identities at unrolled lengths; statistical clauses N/D).

The REAL stat_utils functions are executed (their source compiled with a shim `np` whose zeros() produces exact field elements) on arrays of
SYMBOLIC samples and weights of concrete lengths; the results are compared as rational functions with the formulas of the statement built on
contiguous blocks.  Square roots are formal (only their arguments are compared); order comparisons go to an enumerating oracle.
"""
from __future__ import annotations

import ast
import itertools
import time
from fractions import Fraction

import numpy as np

from vc import front
from vc.common import ob, DISCHARGED, REFUTED, UNDECIDED, Unsupported, REPO
from vc.jxvc import harness as H
from vc.jxvc.field import Fr, SqrtOf

BLOCK_SIZES = [1, 2, 5, 10, 20, 50, 100, 200, 300, 400, 500, 1000, 10000]


class ShimNP:
    """numpy with zeros() over the exact field (everything else is numpy itself, which works on object arrays)"""

    def __init__(self, sp):
        self._sp = sp

    def __getattr__(self, k):
        return getattr(np, k)

    def zeros(self, n, dtype=None):
        a = np.empty(n, dtype=object)
        a[...] = self._sp.zero
        return a

    def sqrt(self, x):
        return x.sqrt() if isinstance(x, Fr) else np.sqrt(x)

    def mean(self, x):
        x = np.asarray(x, dtype=object)
        return x.sum() * self._sp.const(Fraction(1, x.size))

    def var(self, x, ddof=0, **kw):
        if kw:
            raise Unsupported(f"np.var keyword {sorted(kw)} is not modelled")
        x = np.asarray(x, dtype=object)
        m = self.mean(x)
        return ((x - m) * (x - m)).sum() * self._sp.const(Fraction(1, x.size - int(ddof)))

    def std(self, x, ddof=0, **kw):
        return self.sqrt(self.var(x, ddof=ddof, **kw))


def _load(fname, sp, extra=None):
    src, tree = front.load("stat_utils")
    node = next(n for n in tree.body if isinstance(n, ast.FunctionDef) and n.name == fname)
    ns = {"np": ShimNP(sp), "print": lambda *a, **k: None}
    ns.update(extra or {})
    exec(compile(ast.Module([node], []), REPO + "/ad_afqmc/stat_utils.py", "exec"), ns)
    return ns[fname]


def _spec_block(sp, w, e, i):
    n = len(w)
    nB = n // i
    W = [sum(w[j * i:(j + 1) * i][1:], w[j * i]) for j in range(nB)]
    E = [sum((w[k] * e[k] for k in range(j * i + 1, (j + 1) * i)), w[j * i] * e[j * i]) / W[j] for j in range(nB)]
    v1 = sum(W[1:], W[0])
    v2 = sum((x * x for x in W[1:]), W[0] * W[0])
    mean = sum((W[j] * E[j] for j in range(1, nB)), W[0] * E[0]) / v1
    err2 = sum((W[j] * (E[j] - mean) * (E[j] - mean) for j in range(1, nB)), W[0] * (E[0] - mean) * (E[0] - mean)) / (v1 - v2 / v1) * sp.const(Fraction(1, nB - 1))
    return mean, err2


def blocking(n, neql=0, wmode="sym"):
    """C19.blk.*[n]: mean = sum(w e)/sum(w); for every active block size the error^2 is the unbiased weighted-variance formula over
    CONTIGUOUS blocks divided by (number of blocks - 1); the plateau rule returns max(err_k, err_{k-1}) at the first k with err_k < 1.05 err_{k-1}"""
    t0 = time.time()
    inp = H.Inputs(n)
    hw, he = inp.declare("w", (n,)), inp.declare("e", (n,))
    inp.build()
    sp = inp.sp
    f = _load("blocking_analysis", sp)
    w, e = hw["V"].s, he["V"].s
    if wmode == "rational":      # distinct exact rational weights, symbolic energies (cheaper: lets block size 5 be reached)
        w = np.array([sp.const(Fraction(3 + (7 * k) % 11, 2 + k % 3)) for k in range(n)], dtype=object)
    sizes = [i for i in BLOCK_SIZES if i < (n - neql) / 2.0]
    out = []
    fns = ["stat_utils.blocking_analysis"]
    tagn = f"[n={n},neql={neql},w={wmode}]"
    seen = []

    def oracle_false(op, a, b):
        if op == "<" and isinstance(a, SqrtOf) and a.factor == 1.0:
            seen.append(a)
        return False
    SqrtOf.oracle = oracle_false
    try:
        mean, plateau = f(w, e, neql=neql)
    finally:
        SqrtOf.oracle = None
    ws, es = list(w[neql:]), list(e[neql:])
    want_mean = sum((ws[k] * es[k] for k in range(1, len(ws))), ws[0] * es[0]) / sum(ws[1:], ws[0])
    out.append(H.identity(f"C19.blk.mean{tagn}", mean, want_mean, kind="bounded", functions=fns, inputs=inp, t0=t0, note="weight-averaged mean of the samples after the equilibration cut"))
    if len(seen) != len(sizes):
        out.append(ob(f"C19.blk.blocksizes{tagn}", REFUTED, kind="bounded", backend="exec", functions=fns, detail=f"{len(seen)} block sizes evaluated, expected {sizes}", witness_class="block-sizes"))
        return out
    for i, s in zip(sizes, seen):
        _, err2 = _spec_block(sp, ws, es, i)
        o = H.identity(f"C19.blk.error2.b{i}{tagn}", s.arg, err2, kind="bounded", functions=fns, inputs=inp, t0=t0,
                       note=f"block size {i}: error^2 == sum_b W_b (E_b - mean)^2 / (V1 - V2/V1) / (nBlocks - 1) over contiguous blocks")
        if o["status"] == REFUTED:
            _replay_block(o, n, neql, i)
        out.append(o)
    # plateau rule under every outcome sequence of the comparisons err_k < 1.05 err_{k-1}
    bad = []
    for bits in itertools.product([False, True], repeat=len(sizes)):
        k = [0]
        errs = []

        state = {"after_true": False}

        def orc(op, a, b):
            # decision comparisons are `error < 1.05 * prevError`; the comparison inside max(error, prevError) follows a True decision
            if state["after_true"]:
                state["after_true"] = False
                return True
            if op == "<" and k[0] < len(bits):
                errs.append(a)
                r = bits[k[0]]
                k[0] += 1
                state["after_true"] = r and not state.get("have_plateau", False)
                if r:
                    state["have_plateau"] = True
                return r
            return True
        SqrtOf.oracle = orc
        try:
            _, pl = f(w, e, neql=neql)
        finally:
            SqrtOf.oracle = None
        first = next((j for j, b in enumerate(bits) if b), None)
        if first is None:
            ok = pl is None
        else:
            cands = [errs[first]] + ([errs[first - 1]] if first > 0 else [])
            ok = any(pl is c_ for c_ in cands) or (first == 0 and isinstance(pl, float) and pl == 0.0) or (isinstance(pl, SqrtOf) and any(pl.arg is c_.arg for c_ in cands))
        if not ok:
            bad.append(bits)
    out.append(ob(f"C19.blk.plateau{tagn}", REFUTED if bad else DISCHARGED, kind="bounded", backend="exec+oracle", functions=fns, wall=time.time() - t0,
                  detail=f"all {2 ** len(sizes)} comparison outcome sequences: plateau = larger of the two errors at the first block size whose error is < 1.05 x the previous one, else None; failing: {bad[:2]}"))
    return out


def _replay_block(o, n, neql, i):
    from contracts import native
    native.setup()
    from ad_afqmc import stat_utils
    rng = np.random.default_rng(1)
    w = rng.uniform(0.5, 2.0, size=n)
    e = np.cumsum(rng.normal(size=n))          # strongly autocorrelated
    cap = []

    class P:
        def __call__(self, *a, **k):
            cap.append(a)
    import io, contextlib
    buf = io.StringIO()
    with contextlib.redirect_stdout(buf):
        stat_utils.blocking_analysis(w, e, neql=neql, printQ=True)
    got = {}
    for line in buf.getvalue().splitlines():
        p = line.split()
        if len(p) == 4 and p[0].isdigit():
            got[int(p[0])] = float(p[3])
    ws, es = w[neql:], e[neql:]
    nB = len(ws) // i
    W = np.array([ws[j * i:(j + 1) * i].sum() for j in range(nB)])
    E = np.array([(ws[j * i:(j + 1) * i] * es[j * i:(j + 1) * i]).sum() / W[j] for j in range(nB)])
    m = (W * E).sum() / W.sum()
    ref = ((W * (E - m) ** 2).sum() / (W.sum() - (W ** 2).sum() / W.sum()) / (nB - 1)) ** 0.5
    dev = abs(got.get(i, np.nan) - ref) / (1e-300 + abs(ref))
    o["replayed"] = bool(not np.isfinite(dev) or dev > 1e-5)
    o["witness"] = dict(o.get("witness") or {}, native=dict(n=n, block_size=i, library_error=got.get(i), contiguous_block_reference=float(ref), rel_dev=float(dev)))


def invariances(n=8):
    """C19.inv.*: rescaling the weights leaves mean and errors unchanged; adding a constant shifts the mean and leaves errors unchanged;
    constant data give error 0 (exact arithmetic); the equilibration cut is slicing"""
    t0 = time.time()
    inp = H.Inputs(n + 100)
    hw, he, hl, hc = inp.declare("w", (n,)), inp.declare("e", (n,)), inp.declare("lam", ()), inp.declare("c", ())
    inp.build()
    sp = inp.sp
    f = _load("blocking_analysis", sp)
    w, e, lam, c = hw["V"].s, he["V"].s, hl["V"].s[()], hc["V"].s[()]

    def run(ww, ee, neql=0):
        seen = []
        SqrtOf.oracle = lambda op, a, b: (seen.append(a) if op == "<" and a.factor == 1.0 else None) and False
        try:
            m, _ = f(ww, ee, neql=neql)
        finally:
            SqrtOf.oracle = None
        return m, [s.arg for s in seen]
    m0, e0 = run(w, e)
    out = []
    fns = ["stat_utils.blocking_analysis"]
    m1, e1 = run(w * lam, e)
    out.append(H.identity(f"C19.inv.scale.mean[n={n}]", m1, m0, kind="bounded", functions=fns, inputs=inp, t0=t0, note="mean invariant under w -> lambda w"))
    out.append(H.identity(f"C19.inv.scale.error[n={n}]", np.array(e1, dtype=object), np.array(e0, dtype=object), kind="bounded", functions=fns, inputs=inp, t0=t0,
                          note="every per-block-size error invariant under w -> lambda w"))
    m2, e2 = run(w, e + c)
    out.append(H.identity(f"C19.inv.shift.mean[n={n}]", m2, m0 + c, kind="bounded", functions=fns, inputs=inp, t0=t0, note="mean shifts by the added constant"))
    out.append(H.identity(f"C19.inv.shift.error[n={n}]", np.array(e2, dtype=object), np.array(e0, dtype=object), kind="bounded", functions=fns, inputs=inp, t0=t0,
                          note="errors ignore an added constant"))
    const = np.empty(n, dtype=object)
    const[...] = c
    m3, e3 = run(w, const)
    zero = np.empty(len(e3), dtype=object)
    zero[...] = sp.zero
    out.append(H.identity(f"C19.inv.constant[n={n}]", np.array(e3, dtype=object), zero, kind="bounded", functions=fns, inputs=inp, t0=t0, note="constant data: every error is exactly 0"))
    m4, e4 = run(w, e, neql=2)
    m5, e5 = run(w[2:], e[2:])
    out.append(H.identity(f"C19.inv.neql[n={n}]", np.array([m4] + e4, dtype=object), np.array([m5] + e5, dtype=object), kind="bounded", functions=fns, inputs=inp, t0=t0,
                          note="neql = k is the same as analysing samples[k:]"))
    return out


def jackknife(n=5):
    """C19.jk[n]: jackknife_ratios == brute-force leave-one-out: mean of J_i = mean(num without i)/mean(denom without i); sigma^2 = (n-1)/n sum (J_i - Jbar)^2"""
    t0 = time.time()
    inp = H.Inputs(n + 200)
    hn, hd = inp.declare("a", (n,)), inp.declare("b", (n,))
    inp.build()
    sp = inp.sp
    f = _load("jackknife_ratios", sp)
    a, b = hn["V"].s, hd["V"].s
    mean, sigma = f(a, b)
    J = []
    for i in range(n):
        na = sum((a[k] for k in range(n) if k != i), sp.zero)
        nb = sum((b[k] for k in range(n) if k != i), sp.zero)
        J.append(na / nb)
    Jb = sum(J[1:], J[0]) * sp.const(Fraction(1, n))
    s2 = sum(((x - Jb) * (x - Jb) for x in J[1:]), (J[0] - Jb) * (J[0] - Jb)) * sp.const(Fraction(n - 1, n))
    fns = ["stat_utils.jackknife_ratios"]
    out = [H.identity(f"C19.jk.mean[n={n}]", mean, Jb, kind="bounded", functions=fns, inputs=inp, t0=t0, note="mean of the leave-one-out ratios")]
    if isinstance(sigma, SqrtOf):
        out.append(H.identity(f"C19.jk.sigma2[n={n}]", sigma.arg, s2, kind="bounded", functions=fns, inputs=inp, t0=t0, note="sigma^2 = (n-1)/n sum (J_i - Jbar)^2"))
    else:
        out.append(ob(f"C19.jk.sigma2[n={n}]", UNDECIDED, kind="bounded", detail="sigma is not a square root expression"))
    if any(o["status"] == REFUTED for o in out):
        # native replay: the real function on the numeric point of the symbols against the brute-force leave-one-out definition
        from contracts import native
        native.setup()
        from ad_afqmc import stat_utils
        ax, bx = np.asarray(hn["V"].x, dtype=float), np.asarray(hd["V"].x, dtype=float)
        m_nat, s_nat = stat_utils.jackknife_ratios(ax, bx)
        Jx = np.array([np.delete(ax, i).mean() / np.delete(bx, i).mean() for i in range(n)])
        m_ref, s_ref = Jx.mean(), np.sqrt((n - 1) / n * ((Jx - Jx.mean()) ** 2).sum())
        for o in out:
            if o["status"] == REFUTED:
                got, want = (m_nat, m_ref) if ".mean" in o["name"] else (s_nat, s_ref)
                o["replayed"] = bool(abs(got - want) > 1e-9 * (1 + abs(want)))
                o["witness"] = dict(o.get("witness") or {}, native=dict(num_samples=ax.tolist(), denom_samples=bx.tolist(), got=float(got), brute_force=float(want)))
    return out


def outliers(nmax=5):
    """C19.outliers (BOUNDED, exhaustive over a small integer grid incl. ties): reject_outliers keeps exactly the rows with
    |x - median| / (MAD + 1e-10) < m, against a brute-force sort-based definition"""
    t0 = time.time()
    from contracts import native
    native.setup()
    from ad_afqmc import stat_utils
    bad, cnt = [], 0
    for n in range(1, nmax + 1):
        for vals in itertools.product(range(4), repeat=n):
            for m in (0.5, 1.0, 2.5):
                data = np.array([[float(v), 7.0 * k] for k, v in enumerate(vals)])
                kept, mask = stat_utils.reject_outliers(data, 0, m)
                x = sorted(vals)
                med = (x[(n - 1) // 2] + x[n // 2]) / 2.0
                d = sorted(abs(v - med) for v in vals)
                mad = (d[(n - 1) // 2] + d[n // 2]) / 2.0 + 1.0e-10
                want = [abs(v - med) / mad < m for v in vals]
                cnt += 1
                if list(mask) != want or not np.array_equal(kept, data[np.array(want, dtype=bool)]):
                    bad.append((vals, m))
    return [ob(f"C19.outliers[n<={nmax}]", REFUTED if bad else DISCHARGED, kind="bounded", backend="exhaustive-exec", wall=time.time() - t0, functions=["stat_utils.reject_outliers"],
               replayed=bool(bad), detail=f"{cnt} (column, m) cases enumerated; mismatches {bad[:3]}", witness=dict(failing=bad[:3]))]


def canary():
    inp = H.Inputs(3)
    hw, he = inp.declare("w", (6,)), inp.declare("e", (6,))
    inp.build()
    f = _load("blocking_analysis", inp.sp)
    seen = []
    SqrtOf.oracle = lambda op, a, b: (seen.append(a) if op == "<" and a.factor == 1.0 else None) and False
    try:
        m, _ = f(hw["V"].s, he["V"].s)
    finally:
        SqrtOf.oracle = None
    _, e2 = _spec_block(inp.sp, list(hw["V"].s), list(he["V"].s), 1)
    o = H.identity("C19.canary.biased_variance", seen[0].arg, e2 * inp.sp.const(Fraction(5, 6)))
    o["kind"] = "canary"
    return [o]

"""C14 (part 1) – IDX.*: batched routines treat walkers independently and in order, for EVERY population size and EVERY
batch count dividing it (Engine A; linear/non-linear integer arithmetic with div/mod).

Abstract domain: an array is a map from its LEADING index tuple (the walker axes) to a `Row` term (everything a walker
carries on the trailing axes).  Leaves are uninterpreted functions of the walker number (WU(w), WD(w), FLD(w), ...);
per-walker callees / trailing-axis operations are uninterpreted functions Row^k -> Row.  The real method bodies (python
ast) are executed over this domain:
    x.reshape(...)        split / merge of the leading axis (row-major), trailing axes are payload
    vmap(f, in_axes)(..)  out[j] = f(a[j], b[j], shared...)
    lax.scan(g, None, xs) ys[i] = g(xs[i]) stacked on a new leading axis
    concatenate(seq, axis)
Obligation IDX.<fn>.rowwise:  for every output walker number w (0 <= w < n_walkers) every leaf that occurs in out[w]
is a leaf of input walker w.  Independence of n_batch and permutation equivariance are corollaries (the term of out[w]
is the same uniform function of the rows of walker w for every n_batch).
"""
from __future__ import annotations

import ast
import itertools
import time

import z3

from vc import front
from vc.common import ob, DISCHARGED, REFUTED, UNDECIDED, Unsupported
from vc.pyvc.engine import discharge

Row = z3.DeclareSort("Row")
_cnt = itertools.count()


class Arr:
    def __init__(self, lead, fn, trail=None):
        self.lead, self.fn, self.trail = tuple(lead), fn, trail      # trail: tuple of dims or None (unknown payload shape)

    def at(self, *idx):
        return self.fn(*idx)


class Shared:      # value without walker axis (ham_data, wave_data, exp_h1, ...)
    def __init__(self, tag="shared"):
        self.tag = tag


def ufun(name, arity):
    return z3.Function(name, *([Row] * arity + [Row]))


class Ctx:
    def __init__(self, fn_qual, facts):
        self.qual = fn_qual
        self.facts = list(facts)
        self.side = []      # side obligations (name, formula)
        self.leaf_funcs = {}

    def leaf(self, name):
        f = z3.Function(name, z3.IntSort(), Row)
        self.leaf_funcs[name] = f
        return f


class Interp:
    def __init__(self, ctx, selfobj):
        self.ctx, self.selfobj = ctx, selfobj

    def run_function(self, fnode, args):
        env = {}
        params = [a.arg for a in fnode.args.args]
        for p, a in zip(params, args):
            env[p] = a
        return self.block(fnode.body, env)

    def block(self, stmts, env):
        for s in stmts:
            if isinstance(s, ast.Expr):
                continue
            if isinstance(s, ast.Return):
                return self.ev(s.value, env)
            if isinstance(s, ast.FunctionDef):
                env[s.name] = ("closure", s, env)
                continue
            if isinstance(s, ast.Assign):
                v = self.ev(s.value, env)
                for t in s.targets:
                    self.assign(t, v, env)
                continue
            raise Unsupported("idx: statement " + type(s).__name__)
        return None

    def assign(self, t, v, env):
        if isinstance(t, ast.Name):
            env[t.id] = v
        elif isinstance(t, (ast.Tuple, ast.List)):
            if not isinstance(v, (tuple, list)) or len(v) != len(t.elts):
                raise Unsupported("idx: unpack")
            for e, x in zip(t.elts, v):
                self.assign(e, x, env)
        else:
            raise Unsupported("idx: target")

    # ---------------------------------------------------------------- expressions
    def ev(self, e, env):
        if isinstance(e, ast.Name):
            if e.id in env:
                return env[e.id]
            if e.id == "None":
                return None
            return ("global", e.id)
        if isinstance(e, ast.Constant):
            return e.value
        if isinstance(e, (ast.Tuple, ast.List)):
            return [self.ev(x, env) for x in e.elts] if isinstance(e, ast.List) else tuple(self.ev(x, env) for x in e.elts)
        if isinstance(e, ast.Attribute):
            b = self.ev(e.value, env)
            if isinstance(b, tuple) and b and isinstance(b[0], str) and b[0] == "self":
                return self.selfobj.get(e.attr, ("selfattr", e.attr))
            if isinstance(b, Arr) and e.attr == "shape":
                return ("shape", b)
            if isinstance(b, tuple) and b and isinstance(b[0], str) and b[0] == "global":
                return ("global", b[1] + "." + e.attr)
            return ("attr", b, e.attr)
        if isinstance(e, ast.Subscript):
            b = self.ev(e.value, env)
            if isinstance(b, tuple) and b and isinstance(b[0], str) and b[0] == "shape":
                k = self.ev(e.slice, env)
                a = b[1]
                if isinstance(k, int) and k < len(a.lead):
                    return a.lead[k]
                if isinstance(k, int) and a.trail is not None and k - len(a.lead) < len(a.trail):
                    return a.trail[k - len(a.lead)]
                return z3.Int(f"dim!{next(_cnt)}")
            if isinstance(b, (list, tuple)) and not (b and isinstance(b[0], str)):
                k = self.ev(e.slice, env)
                return b[k]
            if isinstance(b, Shared):
                return Shared(b.tag + "[]")
            return Shared("sub")
        if isinstance(e, ast.BinOp):
            l, r = self.ev(e.left, env), self.ev(e.right, env)
            if isinstance(e.op, ast.FloorDiv) and (z3.is_expr(l) or z3.is_expr(r)):
                return l / r
            if isinstance(e.op, ast.Mult):
                if isinstance(l, Arr) or isinstance(r, Arr):
                    a = l if isinstance(l, Arr) else r
                    f = ufun(f"scale!{next(_cnt)}", 1)
                    return Arr(a.lead, lambda *i, a=a, f=f: f(a.at(*i)), a.trail)      # scalar * array: per-row map
                if z3.is_expr(l) or z3.is_expr(r):
                    return l * r
            return Shared("binop")
        if isinstance(e, ast.UnaryOp) and isinstance(e.op, ast.USub):
            v = self.ev(e.operand, env)
            if isinstance(v, (int, float)) or z3.is_expr(v):
                return -v
            return Shared("neg")
        if isinstance(e, ast.Call):
            return self.call(e, env)
        if isinstance(e, ast.Lambda):
            return ("lambda", e, env)
        return Shared("expr")

    def call(self, e, env):
        fn = self.ev(e.func, env)
        name = ast.unparse(e.func)
        args = [self.ev(a, env) for a in e.args]
        kw = {k.arg: self.ev(k.value, env) for k in e.keywords if k.arg}
        # method calls on arrays
        if isinstance(fn, tuple) and fn and fn[0] == "attr" and isinstance(fn[1], Arr):
            a, meth = fn[1], fn[2]
            if meth == "reshape":
                return self.reshape(a, args)
            if meth == "dot":
                f = ufun(f"dot!{next(_cnt)}", 1)
                return Arr(a.lead, lambda *i, a=a, f=f: f(a.at(*i)), None)       # contracts trailing axes with a shared operand: per-row map
            if meth in ("swapaxes", "transpose") and len(a.lead) == 2:
                ax = tuple(args[0]) if len(args) == 1 and isinstance(args[0], (tuple, list)) else tuple(args)
                if meth == "swapaxes" and sorted(ax) == [0, 1] or meth == "transpose" and len(ax) >= 2 and ax[:2] == (1, 0) and all(k == i for i, k in enumerate(ax[2:], 2)):
                    return Arr((a.lead[1], a.lead[0]), lambda i, j, a=a: a.at(j, i), a.trail)       # exchange of the two leading (batch, walker) axes
                if meth == "transpose" and len(ax) >= 2 and ax[:2] == (0, 1):
                    return Arr(a.lead, a.fn, None)       # payload-only transpose
            raise Unsupported("idx: array method " + meth)
        if name in ("vmap", "jax.vmap"):
            return ("vmap", args[0], kw.get("in_axes", args[1] if len(args) > 1 else 0))
        if isinstance(fn, tuple) and fn and fn[0] == "vmap":
            return self.apply_vmap(fn[1], fn[2], args)
        if name in ("lax.scan", "jax.lax.scan"):
            return self.scan(args[0], args[1], args[2])
        if name in ("jnp.concatenate", "jax.numpy.concatenate"):
            return self.concatenate(args[0], kw.get("axis", args[1] if len(args) > 1 else 0))
        if name in ("jnp.sqrt",):
            return Shared("scalar")
        if isinstance(fn, tuple) and fn and fn[0] == "closure":
            return self.call_closure(fn, args)
        return Shared("call:" + name)

    def call_closure(self, clo, args):
        _, node, cenv = clo
        env = dict(cenv)
        for p, a in zip([a.arg for a in node.args.args], args):
            env[p] = a
        return self.block(node.body, env)

    # ---------------------------------------------------------------- array operations
    def reshape(self, a, dims):
        dims = [d for d in (dims[0] if len(dims) == 1 and isinstance(dims[0], (tuple, list)) else dims)]
        if len(a.lead) == 1 and len(dims) == 2 and _neg1(dims[1:]) and not self._same(dims[0], a.lead[0]):
            # (n, payload) -> (d0, -1): the rows are regrouped; new row k is cut out of old row floor(k n / d0)
            part = z3.Function(f"regroup!{next(_cnt)}", Row, Row)
            n, d0 = a.lead[0], dims[0]
            return Arr((d0,), lambda k, a=a, n=n, d0=d0, part=part: part(a.at((k * n) / d0)), None)
        if len(a.lead) == 1 and len(dims) >= 2 and not self._same(dims[0], a.lead[0]):
            # split of the leading axis: (n, ...) -> (d0, d1, ...)
            d0, d1 = dims[0], dims[1]
            self.ctx.side.append((f"reshape.split.size", d0 * d1 == a.lead[0]))
            return Arr((d0, d1), lambda i, j, a=a, d1=d1: a.at(i * d1 + j), tuple(dims[2:]) if not _neg1(dims[2:]) else None)
        if len(a.lead) == 2 and len(dims) >= 1 and not self._same(dims[0], a.lead[0]):
            # merge of the two leading axes: (d0, d1, ...) -> (n, ...)
            d0, d1 = a.lead
            n = dims[0]
            self.ctx.side.append((f"reshape.merge.size", d0 * d1 == n))
            return Arr((n,), lambda k, a=a, d1=d1: a.at(k / d1, k % d1), tuple(dims[1:]) if not _neg1(dims[1:]) else None)
        if len(dims) >= 1 and self._same(dims[0], a.lead[0]) and len(a.lead) == 1:
            return Arr(a.lead, a.fn, tuple(dims[1:]) if not _neg1(dims[1:]) else None)      # payload-only reshape
        raise Unsupported("idx: reshape pattern not recognised")

    def _same(self, x, y):
        if isinstance(x, int) and isinstance(y, int):
            return x == y
        if z3.is_expr(x) and z3.is_expr(y):
            return z3.eq(z3.simplify(x), z3.simplify(y))
        return False

    def apply_vmap(self, f, in_axes, args):
        axes = in_axes if isinstance(in_axes, (tuple, list)) else tuple([in_axes] * len(args))
        mapped = [a for a, ax in zip(args, axes) if ax is not None]
        if not mapped or not all(isinstance(a, Arr) and len(a.lead) == 1 for a in mapped):
            raise Unsupported("idx: vmap over a non walker-major argument")
        n = mapped[0].lead[0]
        for m in mapped[1:]:
            self.ctx.side.append(("vmap.same_length", m.lead[0] == n))
        fname = ast.unparse(f[1].func) if False else (f[2] if isinstance(f, tuple) and f[0] == "attr" else "fn")
        g = ufun(f"{fname}!{next(_cnt)}", len(mapped))
        return Arr((n,), lambda j, mapped=mapped, g=g: g(*[m.at(j) for m in mapped]), None)

    def scan(self, f, init, xs):
        xs_l = list(xs) if isinstance(xs, (tuple, list)) else [xs]
        if not all(isinstance(x, Arr) and len(x.lead) == 2 for x in xs_l):
            raise Unsupported("idx: scan over arrays without (batch, walker) leading axes")
        nb = xs_l[0].lead[0]

        def body_at(i):
            sl = [Arr((x.lead[1],), (lambda j, x=x, i=i: x.at(i, j)), x.trail) for x in xs_l]
            arg = tuple(sl) if isinstance(xs, (tuple, list)) else sl[0]
            out = self.call_closure(f, [init, arg])
            return out[1]
        probe = body_at(z3.Int(f"i!{next(_cnt)}"))

        def stack(y_of):
            y0 = y_of(probe)
            if not (isinstance(y0, Arr) and len(y0.lead) == 1):
                raise Unsupported("idx: scan body output is not walker-major")
            return Arr((nb, y0.lead[0]), lambda i, j, y_of=y_of: y_of(body_at(i)).at(j), y0.trail)
        if isinstance(probe, (list, tuple)):
            outs = [stack(lambda y, k=k: y[k]) for k in range(len(probe))]
            return (init, outs if isinstance(probe, list) else tuple(outs))
        return (init, stack(lambda y: y))

    def concatenate(self, a, axis):
        if not (isinstance(a, Arr) and len(a.lead) == 2):
            raise Unsupported("idx: concatenate of a non (batch, walker) array")
        d0, d1 = a.lead
        if axis == 0:
            return Arr((d0 * d1,), lambda k, a=a, d1=d1: a.at(k / d1, k % d1), a.trail)
        # axis >= 1: the batches are laid side by side along a payload axis: a row of the result mixes walkers of different batches
        mix = z3.Function(f"concat_axis{axis}!{next(_cnt)}", Row, Row, Row)
        return Arr((d1,), lambda j, a=a, d0=d0, mix=mix: mix(a.at(0, j), a.at(d0 - 1, j)), None)


# ====================================================================================== obligations
def _neg1(lst):
    return any(isinstance(d, int) and d == -1 for d in lst)


def _leaves(term, leaf_names):
    out, seen, stack = [], set(), [term]
    while stack:
        t = stack.pop()
        if t.get_id() in seen:
            continue
        seen.add(t.get_id())
        if z3.is_app(t):
            if t.decl().name() in leaf_names and t.num_args() == 1:
                out.append(t.arg(0))
            stack.extend(t.children())
    return out


TARGETS = {
    # name -> (module, class, method name, index of the registered singledispatch variant or None, walker container, extra walker-major args)
    "calc_overlap.list": ("wavefunctions", "wave_function", "calc_overlap", "list"),
    "calc_overlap.array": ("wavefunctions", "wave_function", "calc_overlap", "array"),
    "calc_force_bias.list": ("wavefunctions", "wave_function", "calc_force_bias", "list"),
    "calc_force_bias.array": ("wavefunctions", "wave_function", "calc_force_bias", "array"),
    "calc_energy.list": ("wavefunctions", "wave_function", "calc_energy", "list"),
    "calc_energy.array": ("wavefunctions", "wave_function", "calc_energy", "array"),
    "apply_trotprop.restricted": ("propagation", "propagator_restricted", "_apply_trotprop", None),
    "apply_trotprop.unrestricted": ("propagation", "propagator_unrestricted", "_apply_trotprop", None),
}


def _find(mod, cls, meth, variant):
    if variant is None:
        node, _ = front.get_function(f"{mod}.{cls}.{meth}")
        return node
    cnode = front.classes(mod)[cls]
    for n in cnode.body:
        if isinstance(n, ast.FunctionDef) and n.name == "_" and any(ast.unparse(d).startswith(f"{meth}.register") for d in n.decorator_list):
            ann = ast.unparse(n.args.args[1].annotation) if n.args.args[1].annotation is not None else ""
            if (variant == "list" and ann == "list") or (variant == "array" and "Array" in ann):
                return n
    raise Unsupported(f"registered variant {meth}/{variant} not found")


def rowwise(target):
    """IDX.<target>.rowwise (+ side conditions): out[w] depends on the rows of walker w only, in order, for all sizes"""
    t0 = time.time()
    mod, cls, meth, variant = TARGETS[target]
    fnode = _find(mod, cls, meth, variant)
    nw, nb = z3.Int("n_walkers"), z3.Int("n_batch")
    facts = [nw >= 1, nb >= 1, (nw / nb) * nb == nw]          # n_batch divides n_walkers
    ctx = Ctx(f"{mod}.{cls}.{meth}", facts)
    WU, WD, FLD = ctx.leaf("WU"), ctx.leaf("WD"), ctx.leaf("FLD")
    selfobj = {"n_batch": nb, "norb": z3.Int("norb"), "nelec": (z3.Int("nup"), z3.Int("ndn")), "dt": Shared("dt")}
    it = Interp(ctx, selfobj)
    up = Arr((nw,), lambda w: WU(w), (z3.Int("norb"), z3.Int("nup")))
    dn = Arr((nw,), lambda w: WD(w), (z3.Int("norb"), z3.Int("ndn")))
    fields = Arr((nw,), lambda w: FLD(w), (z3.Int("nchol"),))
    is_list = (variant == "list") or target.endswith("unrestricted")
    walkers = [up, dn] if is_list else up
    params = [a.arg for a in fnode.args.args]
    amap = {"self": ("self",), "walkers": walkers, "fields": fields, "ham_data": Shared("ham_data"), "wave_data": Shared("wave_data")}
    name = f"C14.IDX.{target}"
    try:
        out = it.run_function(fnode, [amap.get(p, Shared(p)) for p in params])
    except Unsupported as e:
        return [ob(name + ".rowwise", UNDECIDED, backend="pyvc-idx", detail=str(e), functions=[ctx.qual])]
    outs = list(out) if isinstance(out, (list, tuple)) else [out]
    res = []
    fns = [ctx.qual]
    for k, (sname, f) in enumerate(ctx.side):
        st, be, det, mod_, wl = discharge(dict(hyps=facts, goal=f), 20000)
        res.append(ob(f"{name}.side{k}.{sname}", st, backend=be, wall=wl, detail=det or "array sizes match at this reshape / vmap", witness=mod_, functions=fns,
                      witness_class="size"))
    w = z3.Int("w")
    for k, o in enumerate(outs):
        tag = "" if len(outs) == 1 else f".out{k}"
        if not isinstance(o, Arr) or len(o.lead) != 1:
            res.append(ob(f"{name}.rowwise{tag}", REFUTED, backend="pyvc-idx", detail="the result is not a walker-major array", functions=fns, witness_class="shape"))
            continue
        st0, be0, det0, m0, w0 = discharge(dict(hyps=facts, goal=o.lead[0] == nw), 20000)
        res.append(ob(f"{name}.count{tag}", st0, backend=be0, wall=w0, detail=det0 or "one output row per walker", witness=m0, functions=fns, witness_class="count"))
        term = o.at(w)
        leaves = _leaves(term, set(ctx.leaf_funcs))
        if not leaves:
            res.append(ob(f"{name}.rowwise{tag}", UNDECIDED, backend="pyvc-idx", detail="no input leaf reaches the output", functions=fns))
            continue
        goal = z3.And([l == w for l in leaves])
        st, be, det, mod_, wl = discharge(dict(hyps=facts + [w >= 0, w < nw], goal=goal), 30000)
        res.append(ob(f"{name}.rowwise{tag}", st, backend=be, wall=wl, functions=fns, witness=mod_, witness_class="index-map",
                      detail=det or f"out[w] = {str(z3.simplify(term))[:120]} : every input leaf has walker number w ({len(leaves)} leaves), for all n_walkers, n_batch | n_walkers"))
    if res:
        res[0]["wall"] = round(time.time() - t0, 3)
    return res


def replay(o):
    """native replay of an IDX refutation: batched dispatcher vs per-walker evaluation for several batch counts"""
    import numpy as np
    from contracts import native
    native.setup()
    import jax.numpy as jnp
    from ad_afqmc import wavefunctions as wf
    rng = np.random.default_rng(3)
    norb, nel, nchol, nw = 3, (2, 1), 2, 6
    h1 = rng.normal(size=(2, norb, norb)); h1 = h1 + h1.transpose(0, 2, 1)
    L = rng.normal(size=(nchol, norb, norb)); L = L + L.transpose(0, 2, 1)
    ham0 = {"h0": 0.1, "h1": jnp.array(h1), "chol": jnp.array(L.reshape(nchol, -1)), "ene0": 0.0}
    wave = {"mo_coeff": [jnp.array(rng.normal(size=(norb, nel[0]))), jnp.array(rng.normal(size=(norb, nel[1])))]}
    wu = jnp.array(rng.normal(size=(nw, norb, nel[0])) + 1j * rng.normal(size=(nw, norb, nel[0])))
    wd = jnp.array(rng.normal(size=(nw, norb, nel[1])) + 1j * rng.normal(size=(nw, norb, nel[1])))
    worst = 0.0
    for nbatch in (1, 2, 3, 6):
        t = wf.uhf(norb, nel, n_batch=nbatch)
        hd = t._build_measurement_intermediates(dict(ham0), wave)
        for meth, single in (("calc_overlap", "_calc_overlap"), ("calc_force_bias", "_calc_force_bias"), ("calc_energy", "_calc_energy")):
            extra = (hd, wave) if meth != "calc_overlap" else (wave,)
            got = np.asarray(getattr(t, meth)([wu, wd], *extra))
            ref = np.array([np.asarray(getattr(t, single)(wu[k], wd[k], *extra)) for k in range(nw)])
            worst = max(worst, float(np.max(np.abs(got.reshape(ref.shape) - ref))))
    # restricted (single array) overloads: rhf trial
    wave_r = {"mo_coeff": jnp.array(rng.normal(size=(norb, 1)))}
    wr = jnp.array(rng.normal(size=(nw, norb, 1)) + 1j * rng.normal(size=(nw, norb, 1)))
    worst_r = 0.0
    for nbatch in (1, 2, 3, 6):
        t = wf.rhf(norb, (1, 1), n_batch=nbatch)
        hd = t._build_measurement_intermediates(dict(ham0), wave_r)
        for meth, single in (("calc_overlap", "_calc_overlap_restricted"), ("calc_force_bias", "_calc_force_bias_restricted"), ("calc_energy", "_calc_energy_restricted")):
            extra = (hd, wave_r) if meth != "calc_overlap" else (wave_r,)
            got = np.asarray(getattr(t, meth)(wr, *extra))
            ref = np.array([np.asarray(getattr(t, single)(wr[k], *extra)) for k in range(nw)])
            worst_r = max(worst_r, float(np.max(np.abs(got.reshape(ref.shape) - ref))))
    o["replayed"] = bool(max(worst, worst_r) > 1e-9)
    o["witness"] = dict(model=o.get("witness"), native=dict(n_walkers=nw, batch_counts=[1, 2, 3, 6], uhf_list_walkers_max_deviation_batched_vs_per_walker=worst,
                                                          rhf_array_walkers_max_deviation_batched_vs_per_walker=worst_r))


def replay_trotprop(o):
    """native replay of an IDX refutation on _apply_trotprop: the population propagated in 2, 3 and 6 batches against the same population propagated
    in ONE batch (6 walkers, same fields), restricted and unrestricted"""
    import numpy as np
    from contracts import native
    native.setup()
    import jax.numpy as jnp
    from ad_afqmc import propagation
    rng = np.random.default_rng(4)
    norb, nchol, nw = 3, 2, 6
    L = rng.normal(size=(nchol, norb, norb)) * 0.3
    L = L + L.transpose(0, 2, 1)
    e1 = np.eye(norb) + 0.05 * rng.normal(size=(norb, norb))
    hd = {"chol": jnp.array(L.reshape(nchol, -1)), "exp_h1": jnp.array([e1, e1.T])}
    hd_r = {"chol": hd["chol"], "exp_h1": jnp.array(e1)}
    x = jnp.array(rng.normal(size=(nw, nchol)))
    wu = jnp.array(rng.normal(size=(nw, norb, 2)) + 1j * rng.normal(size=(nw, norb, 2)))
    wd = jnp.array(rng.normal(size=(nw, norb, 1)) + 1j * rng.normal(size=(nw, norb, 1)))
    res = {}
    for name, cls, walk, h in (("unrestricted", propagation.propagator_unrestricted, [wu, wd], hd), ("restricted", propagation.propagator_restricted, wu, hd_r)):
        ref = cls(dt=0.05, n_walkers=nw, n_batch=1)._apply_trotprop(h, walk, x)
        ref = [np.asarray(r) for r in (ref if isinstance(ref, (list, tuple)) else [ref])]
        worst = 0.0
        for nb in (2, 3, 6):
            got = cls(dt=0.05, n_walkers=nw, n_batch=nb)._apply_trotprop(h, walk, x)
            got = [np.asarray(g) for g in (got if isinstance(got, (list, tuple)) else [got])]
            worst = max(worst, max(float(np.max(np.abs(g.reshape(r.shape) - r))) for g, r in zip(got, ref)))
        res[name] = worst
    o["replayed"] = bool(max(res.values()) > 1e-9)
    o["witness"] = dict(model=o.get("witness"), native=dict(n_walkers=nw, batch_counts=[2, 3, 6], reference="n_batch = 1", max_deviation=res))


def lane():
    """C14.lane.propagate.*: every cross-walker reduction in the propagate() functions is the sum of the weights that feeds the
    population-control shift (a symmetric function of the weights); every other reduction has an explicit per-walker axis"""
    out = []
    reducers = ("sum", "mean", "max", "min", "prod", "linalg.norm")
    for cls in ("propagator", "propagator_cpmc", "propagator_cpmc_slow", "propagator_cpmc_nn", "propagator_cpmc_nn_slow", "propagator_cpmc_continuous"):
        q = front.resolve_method("propagation", cls, "propagate")
        if q is None or q.split(".")[1] != cls:
            continue
        fn, _ = front.get_function(q)
        bad, ok = [], 0
        for node in ast.walk(fn):
            if isinstance(node, ast.Call) and ast.unparse(node.func).startswith("jnp.") and ast.unparse(node.func)[4:] in reducers:
                kws = {k.arg: ast.unparse(k.value) for k in node.keywords}
                arg = ast.unparse(node.args[0]) if node.args else ""
                if "axis" in kws and kws["axis"] not in ("0", "None"):
                    ok += 1
                    continue
                if arg.replace('"', "'") == "prop_data['weights']":
                    ok += 1
                    continue
                bad.append(ast.unparse(node)[:80])
        out.append(ob(f"C14.lane.propagate.{cls}", REFUTED if bad else DISCHARGED, backend="pyvc-struct", functions=[q], witness_class="cross-walker-reduction",
                      detail=("cross-walker reductions other than sum(weights): " + "; ".join(bad)) if bad else
                      f"{ok} reductions: all per-walker (explicit axis) or the symmetric sum of the weights"))
    return out


def canary():
    """vacuity guard: a deliberately wrong index map (split with the factors swapped) must be refuted"""
    nw, nb = z3.Int("n_walkers"), z3.Int("n_batch")
    facts = [nw >= 1, nb >= 1, (nw / nb) * nb == nw]
    bs = nw / nb
    w = z3.Int("w")
    wrong = (w % nb) * bs + w / nb       # transposed (batch_size, n_batch) split
    st, be, det, mod_, wl = discharge(dict(hyps=facts + [w >= 0, w < nw], goal=wrong == w), 20000)
    return [ob("C14.canary.transposed_split", st, kind="canary", backend=be, detail=det, witness=mod_)]

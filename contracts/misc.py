"""C13 (orthonormalisation, initial walkers), C15 (orbital rotation) – Engine B contracts, plus structural pieces."""
from __future__ import annotations

import ast
import time
from fractions import Fraction

import numpy as np

from vc.common import ob, DISCHARGED, REFUTED, UNDECIDED, Unsupported
from vc.jxvc import harness as H
from vc.jxvc.field import Fr, det_sym, inv_sym, is_obj
from vc.jxvc.interp import evaluate
from vc import front
from contracts.wf import Case, run_real, rational_orthogonal, _fr_array, fq, tag, _lift


# ====================================================================================== C13
def qr_norm(uhf=False, n=3, k=2):
    """C13.qr.norm: qr_vmap(_uhf) return the Q factors and prod diag R (= det R for a triangular R) per walker and per spin;
    jnp.linalg.qr is replaced by its contract: fresh Q, R with R upper triangular (A = QR, Q^dagger Q = I are not needed here)"""
    t0 = time.time()
    H.setup_repo()
    import jax.numpy as jnp
    from ad_afqmc import linalg_utils
    inp = H.Inputs(5)
    nw = 2
    hA = [inp.declare(f"a{s}", (nw, n, k), "holo") for s in range(2 if uhf else 1)]
    hQ = [inp.declare(f"q{s}", (nw, n, k), "holo") for s in range(2 if uhf else 1)]
    hR = [inp.declare(f"r{s}", (nw, k, k), "holo") for s in range(2 if uhf else 1)]
    inp.build()
    sp = inp.sp
    Rs = []
    for h in hR:
        r = h["V"].s.copy()
        for w in range(nw):
            for i in range(k):
                for j in range(i):
                    r[w, i, j] = sp.zero          # upper triangular
        Rs.append(r)
    calls = []

    def h_qr(it, e, ins):
        if len(e.outvars) != 2:
            return None
        a = ins[0]
        s_ = next((s for s in range(len(hA)) if a.reshape(-1)[0] is hA[s]["V"].s.reshape(-1)[0]), None)
        if s_ is None:
            raise Unsupported("qr called on an unexpected operand")
        calls.append(s_)
        return [hQ[s_]["V"].s, Rs[s_]]
    fn = linalg_utils.qr_vmap_uhf if uhf else linalg_utils.qr_vmap
    arg_s = [h["V"].s for h in hA] if uhf else hA[0]["V"].s
    arg_x = [jnp.asarray(h["V"].x) for h in hA] if uhf else jnp.asarray(hA[0]["V"].x)
    (wk, norms), it = evaluate(sp, fn, (arg_s,), (arg_x,), intercept={"qr": h_qr})
    name = f"C13.qr.norm.{'uhf' if uhf else 'rhf'}"
    fns = ["linalg_utils." + fn.__name__ if hasattr(fn, "__name__") else "linalg_utils.qr_vmap"]
    fns = ["linalg_utils.qr_vmap_uhf" if uhf else "linalg_utils.qr_vmap"]
    out = []
    if sorted(calls) != list(range(len(hA))):
        return [ob(name, UNDECIDED, kind="bounded", detail=f"qr callee seen {calls}", functions=fns)]
    want_norm = np.array([[det_sym(Rs[s][w]) for w in range(nw)] for s in range(len(hA))], dtype=object)
    got_norm = np.asarray(norms, dtype=object).reshape(want_norm.shape) if uhf else np.asarray(norms, dtype=object).reshape(1, nw)
    out.append(H.identity(name + ".det", got_norm, want_norm, functions=fns, inputs=inp, t0=t0,
                          note="norm factor of walker w, spin s == det R_s[w] (product of the diagonal of the triangular factor of THAT spin block)"))
    got_w = [np.asarray(x, dtype=object) for x in (wk if uhf else [wk])]
    for s in range(len(hA)):
        out.append(H.identity(name + f".q{s}", got_w[s], hQ[s]["V"].s, functions=fns, inputs=inp, t0=t0, note="returned walkers are the Q factors"))
    if any(o["status"] == REFUTED for o in out):
        # native replay: the real function on the numeric walkers; reference = numpy QR of each walker and spin block separately
        ax = [np.asarray(h["V"].x) for h in hA]
        wk_n, norms_n = fn([jnp.asarray(a) for a in ax] if uhf else jnp.asarray(ax[0]))
        norms_n = np.asarray(norms_n).reshape(len(hA), nw)
        wk_n = [np.asarray(x) for x in (wk_n if uhf else [wk_n])]
        dev_norm, dev_span = 0.0, 0.0
        for s_ in range(len(hA)):
            for w in range(nw):
                q, r = np.linalg.qr(ax[s_][w])
                # QR is unique up to column phases: compare |norm| and the projector onto the span
                dev_norm = max(dev_norm, abs(abs(norms_n[s_, w]) - abs(np.prod(np.diag(r)))))
                dev_span = max(dev_span, float(np.abs(wk_n[s_][w] @ wk_n[s_][w].conj().T - q @ q.conj().T).max()))
        for o in out:
            if o["status"] == REFUTED:
                dev = dev_norm if o["name"].endswith(".det") else dev_span
                o["replayed"] = bool(dev > 1e-9)
                o["witness"] = dict(o.get("witness") or {}, native=dict(walkers=[a.tolist() for a in ax], abs_norm_factor_deviation=float(dev_norm), projector_deviation=dev_span))
    return out


def covariance(kind, norb, nu, nd, what="overlap", **kw):
    """C13.cov.<kind>: overlap(phi R) = overlap(phi) det R_up det R_dn ; energy / force bias / Green's function unchanged under phi -> phi R"""
    t0 = time.time()
    nel = (nu, nd)
    restricted = kw.pop("restricted", False)
    c = Case(kind, norb, nel, restricted=restricted, **kw)
    inp = c.inp
    # R matrices from additional symbols would need re-declaration: use exact rational invertible matrices with one symbolic scale
    def rmat(n, seed):
        M = np.array([[Fraction((3 * i + 5 * j + seed) % 7 - 3, 2 + (i + j) % 3) for j in range(n)] for i in range(n)], dtype=object)
        for i in range(n):
            M[i, i] = M[i, i] + Fraction(5 + seed)
        return M
    Ru, Rd = rmat(nu, 1), rmat(nd, 2)
    RuV = H.V(_fr_array(inp.sp, Ru), np.array(Ru, dtype=float))
    RdV = H.V(_fr_array(inp.sp, Rd), np.array(Rd, dtype=float))
    if restricted:
        w2 = [H.both(lambda w, r: w.dot(r), c.w, RuV)]
        w1 = [c.w]
        detR = det_sym(RuV.s) * det_sym(RuV.s)
    else:
        w1 = [c.wu, c.wd]
        w2 = [H.both(lambda w, r: w.dot(r), c.wu, RuV), H.both(lambda w, r: w.dot(r), c.wd, RdV) if nd else c.wd]
        detR = det_sym(RuV.s) * (det_sym(RdV.s) if nd else 1)
    sfx = "_restricted" if restricted else ""
    name = f"C13.cov.{what}.{tag(kind, norb, nel, r=int(restricted))}"
    if what == "overlap":
        a, _, _ = run_real(c, "_calc_overlap" + sfx, w1 + [c.wave])
        b, _, _ = run_real(c, "_calc_overlap" + sfx, w2 + [c.wave])
        return [H.identity(name, b, a * detR, functions=fq(c, "_calc_overlap" + sfx), inputs=inp, t0=t0,
                           note="overlap(phi R) == overlap(phi) * det R_up * det R_dn (R: exact rational invertible matrices)")]
    hs, hx = c.sx(c.ham0)
    wvs, wvx = c.sx(c.wave)
    ham_x = c.trial._build_measurement_intermediates(dict(hx), wvx)
    ham_s, _ = evaluate(inp.sp, c.trial._build_measurement_intermediates, (hs, wvs), (hx, wvx))
    meth = {"energy": "_calc_energy", "fb": "_calc_force_bias"}[what] + sfx
    fn = getattr(c.trial, meth)
    s1, x1 = c.sx(tuple(w1))
    s2, x2 = c.sx(tuple(w2))
    a, _ = evaluate(inp.sp, fn, tuple(s1) + (ham_s, wvs), tuple(x1) + (ham_x, wvx))
    b, _ = evaluate(inp.sp, fn, tuple(s2) + (ham_s, wvs), tuple(x2) + (ham_x, wvx))
    return [H.identity(name, a, b, functions=fq(c, meth), inputs=inp, t0=t0, note=f"{what}(phi R) == {what}(phi)")]


def init_walkers_openshell(norb=4, nu=3, nd=2):
    """C13.init.openshell.span: in the restricted open-shell branch of get_init_walkers the leading n_dn columns of the walker span
    the down-spin natural orbitals projected on the up-spin space:  orbs[:, :nd] R[:nd, :] == U U^dagger D  with (Q, R) = qr(U^dagger D).
    The three statements of that branch are EXECUTED on exact matrices: U = columns of a rational orthogonal matrix, Q rational orthogonal,
    R upper triangular with SYMBOLIC entries, D := U Q R + (part orthogonal to U) so that U^dagger D = Q R exactly."""
    t0 = time.time()
    q = "wavefunctions.wave_function.get_init_walkers"
    fn, _ = front.get_function(q)
    targets = {}
    for node in ast.walk(fn):
        if isinstance(node, ast.Assign) and len(node.targets) == 1 and isinstance(node.targets[0], ast.Name) and node.targets[0].id in ("dn_proj", "proj_orbs", "orbs"):
            targets.setdefault(node.targets[0].id, node)
    name = "C13.init.openshell.span"
    if set(targets) != {"dn_proj", "proj_orbs", "orbs"}:
        return [ob(name, UNDECIDED, kind="bounded", detail=f"open-shell branch statements not found: {sorted(targets)}", functions=[q])]
    inp = H.Inputs(6)
    hr = inp.declare("r", (nu, nd))
    hs_ = inp.declare("s", (norb - nu, nd))
    inp.build()
    sp = inp.sp
    W = rational_orthogonal(norb)
    U, Wp = _fr_array(sp, W[:, :nu]), _fr_array(sp, W[:, nu:])
    Q = _fr_array(sp, rational_orthogonal(nu, "rot")[::-1].T.copy())       # a different rational orthogonal matrix
    R = hr["V"].s.copy()
    for i in range(nu):
        for j in range(nd):
            if i > j:
                R[i, j] = sp.zero
    D = U.dot(Q).dot(R) + Wp.dot(hs_["V"].s)
    seen = {}

    class _LA:
        @staticmethod
        def qr(a, mode="reduced"):
            ok = all((x - y).iszero() for x, y in zip(np.asarray(a, dtype=object).reshape(-1), Q.dot(R).reshape(-1)))
            seen["qr_arg_ok"], seen["mode"] = ok, mode
            return (Q, R)

    class _J:
        linalg = _LA

    ns = {"jnp": _J, "np": _J, "natorbs_up": U, "natorbs_dn": D}
    try:
        for k in ("dn_proj", "proj_orbs", "orbs"):
            exec(compile(ast.Module([targets[k]], []), "<get_init_walkers>", "exec"), ns)
    except Exception as e:   # noqa
        return [ob(name, UNDECIDED, kind="bounded", detail="could not execute the branch statements on exact matrices: " + repr(e)[:200], functions=[q])]
    if not seen.get("qr_arg_ok") or seen.get("mode") != "complete":
        return [ob(name, REFUTED, kind="bounded", backend="ring", functions=[q], witness_class="qr-argument",
                   detail=f"qr is not taken of natorbs_up^dagger natorbs_dn in complete mode (mode={seen.get('mode')}, argument matches={seen.get('qr_arg_ok')})")]
    orbs = np.asarray(ns["orbs"], dtype=object)
    lhs = orbs[:, :nd].dot(R[:nd, :])
    rhs = U.dot(U.T.dot(D))
    o = H.identity(name, lhs, rhs, kind="bounded", functions=[q], inputs=inp, t0=t0,
                   note="leading n_dn columns of the restricted open-shell walker span P_up(down natural orbitals); U, Q exact rational orthogonal, R symbolic")
    o2 = H.identity(name + ".upspace", orbs.dot(orbs.T), U.dot(U.T), kind="bounded", functions=[q], inputs=inp, t0=t0,
                    note="all n_up columns span the up natural-orbital space (projector unchanged)")
    if o["status"] == REFUTED:
        _replay_init(o)
    return [o, o2]


def _replay_init(o):
    from contracts import native
    native.setup()
    import jax.numpy as jnp
    from ad_afqmc import wavefunctions as wf
    rng = np.random.default_rng(4)
    norb, nel = 5, (3, 2)
    mo = np.linalg.qr(rng.normal(size=(norb, norb)))[0]
    trial = wf.uhf(norb, nel)
    wave = {"mo_coeff": [jnp.array(mo[:, :3]), jnp.array(mo[:, :2])]}
    wave["rdm1"] = trial._calc_rdm1(wave)
    w = np.asarray(trial.get_init_walkers(wave, 1, restricted=True))[0]
    ov = abs(np.linalg.det(mo[:, :3].T @ w[:, :3]) * np.linalg.det(mo[:, :2].T @ w[:, :2]))
    o["replayed"] = bool(abs(ov - 1.0) > 1e-6)
    o["witness"] = dict(o.get("witness") or {}, native=dict(trial="uhf (3,2), ROHF-type orbitals", abs_overlap_of_initial_restricted_walker=float(ov), expected="1 (within round-off)"))


def init_walkers_paths():
    """C13.orth.paths: every return statement of get_init_walkers returns arrays built from orthonormal-column matrices by operations
    that preserve orthonormal columns (column slicing/reversal of eigh vectors, qr Q factors, right multiplication by a qr Q factor),
    or the function raises ValueError - refinement typing over the real AST"""
    q = "wavefunctions.wave_function.get_init_walkers"
    fn, _ = front.get_function(q)
    orth = set()
    unitary = set()
    problems = []
    rets = 0

    def is_unitary(e):
        """square unitary matrices: complete-mode qr Q factor; closed under transpose / conjugate transpose"""
        if isinstance(e, ast.Name):
            return e.id in unitary
        if isinstance(e, ast.Subscript) and isinstance(e.value, ast.Call) and ast.unparse(e.value.func) in ("jnp.linalg.qr", "np.linalg.qr"):
            kws = {k.arg: ast.unparse(k.value) for k in e.value.keywords}
            return ast.unparse(e.slice) == "0" and kws.get("mode", "").strip("'\"") == "complete"
        if isinstance(e, ast.Attribute) and e.attr == "T":
            return is_unitary(e.value)
        if isinstance(e, ast.Call) and isinstance(e.func, ast.Attribute) and e.func.attr == "conj" and not e.args:
            return is_unitary(e.func.value)
        return False

    def is_orth(e):
        s = ast.unparse(e)
        if isinstance(e, ast.Name):
            return e.id in orth
        if isinstance(e, ast.Subscript):
            if isinstance(e.value, ast.Call) and ast.unparse(e.value.func) in ("jnp.linalg.eigh", "np.linalg.eigh", "jnp.linalg.qr", "np.linalg.qr"):
                k = ast.unparse(e.slice)
                return (k == "1") if "eigh" in ast.unparse(e.value.func) else (k == "0")
            if ast.unparse(e.slice).strip("()").startswith(":, "):      # column slicing / reversal keeps orthonormal columns
                return is_orth(e.value)
            return False
        if isinstance(e, ast.BinOp) and isinstance(e.op, ast.MatMult):
            return is_orth(e.left) and (is_unitary(e.right) or is_orth(e.right))     # (orthonormal columns) @ (unitary)
        if isinstance(e, ast.BinOp) and isinstance(e.op, ast.Add) and ast.unparse(e.right) in ("0.0j", "0j"):
            return is_orth(e.left)
        return False
    for node in ast.walk(fn):
        if isinstance(node, ast.Assign) and len(node.targets) == 1 and isinstance(node.targets[0], ast.Name):
            if is_orth(node.value):
                orth.add(node.targets[0].id)
            if is_unitary(node.value):
                unitary.add(node.targets[0].id)
                orth.add(node.targets[0].id)
    for node in ast.walk(fn):
        if isinstance(node, ast.Return) and node.value is not None:
            rets += 1
            arrays = []
            v = node.value
            items = v.elts if isinstance(v, ast.List) else [v]
            for it_ in items:
                if isinstance(it_, ast.Call) and ast.unparse(it_.func) == "jnp.array" and isinstance(it_.args[0], ast.BinOp) and isinstance(it_.args[0].op, ast.Mult) \
                        and isinstance(it_.args[0].left, ast.List) and len(it_.args[0].left.elts) == 1:
                    arrays.append((it_.args[0].left.elts[0], ast.unparse(it_.args[0].right)))
                else:
                    problems.append("unrecognised return shape: " + ast.unparse(it_)[:60])
            for e, cnt in arrays:
                if not is_orth(e):
                    problems.append("not known to have orthonormal columns: " + ast.unparse(e)[:60])
                if cnt != "n_walkers":
                    problems.append("walker count is " + cnt)
    if problems:
        # the refinement typing is incomplete: a native sweep decides whether this is a violation
        bad = _native_orthonormality()
        o = ob("C13.orth.paths", REFUTED if bad else UNDECIDED, kind="proof" if bad else "nd", backend="pyvc-refinement+native", functions=[q], witness_class="orthonormal-typing",
               detail=("typing could not establish orthonormal columns (" + "; ".join(problems)[:200] + ")" + ("; native sweep found non-orthonormal initial walkers" if bad else
                       "; native sweep over closed/open shells and both containers finds orthonormal walkers: not decided, not a violation")), replayed=bool(bad), witness=dict(native=bad))
        return [o]
    return [ob("C13.orth.paths", REFUTED if problems else (DISCHARGED if rets else UNDECIDED), backend="pyvc-refinement", functions=[q], witness_class="orthonormal-typing",
               detail="; ".join(problems)[:400] if problems else f"{rets} return paths: n_walkers copies of matrices with orthonormal columns (typing rules: eigh vectors, qr Q, column slices, right unitary factor)")]


def _native_orthonormality():
    from contracts import native
    native.setup()
    import jax.numpy as jnp
    from ad_afqmc import wavefunctions as wf
    rng = np.random.default_rng(8)
    bad = []
    for norb, nel in ((4, (2, 2)), (5, (3, 2)), (5, (3, 1)), (4, (2, 1))):
        mo = np.linalg.qr(rng.normal(size=(norb, norb)))[0]
        mo2 = np.linalg.qr(rng.normal(size=(norb, norb)))[0]
        trial = wf.uhf(norb, nel)
        wave = {"mo_coeff": [jnp.array(mo[:, :nel[0]]), jnp.array(mo2[:, :nel[1]])]}
        wave["rdm1"] = trial._calc_rdm1(wave)
        for restricted in (True, False):
            try:
                w = trial.get_init_walkers(wave, 2, restricted=restricted)
            except ValueError:
                continue
            for blk in ([np.asarray(w)] if restricted else [np.asarray(w[0]), np.asarray(w[1])]):
                g = blk[0].conj().T @ blk[0]
                if np.abs(g - np.eye(g.shape[0])).max() > 1e-8:
                    bad.append(dict(norb=norb, nelec=nel, restricted=restricted, gram_deviation=float(np.abs(g - np.eye(g.shape[0])).max())))
    return bad


# ====================================================================================== C15
def rot_congruence(norb, nchol=2):
    """C15.rot.congruence: rotate_orbs(ham_data, C) returns C^T h1[s] C for both spins and C^T L_g C for every Cholesky matrix (C general)"""
    t0 = time.time()
    H.setup_repo()
    import jax.numpy as jnp
    from ad_afqmc import hamiltonian
    inp = H.Inputs(7)
    hh, hl, hc = inp.declare("h", (2, norb, norb)), inp.declare("l", (nchol, norb * norb)), inp.declare("c", (norb, norb))
    inp.build()
    ham = hamiltonian.hamiltonian(norb)
    hd_s = dict(h1=hh["V"].s, chol=hl["V"].s)
    hd_x = dict(h1=jnp.asarray(hh["V"].x), chol=jnp.asarray(hl["V"].x))
    out, it = evaluate(inp.sp, ham.rotate_orbs, (hd_s, hc["V"].s), (dict(hd_x), jnp.asarray(hc["V"].x)))
    nat = ham.rotate_orbs(dict(hd_x), jnp.asarray(hc["V"].x))
    C = hc["V"].s
    res = []
    fns = ["hamiltonian.hamiltonian.rotate_orbs"]
    for s in range(2):
        res.append(H.identity(f"C15.rot.congruence.h1[{s}][norb={norb}]", np.asarray(out["h1"], dtype=object)[s], C.T.dot(hh["V"].s[s]).dot(C), functions=fns, inputs=inp, t0=t0,
                              note="h1[s]' == C^T h1[s] C (general C, general h1 per spin)"))
    L = hl["V"].s.reshape(nchol, norb, norb)
    want = np.stack([C.T.dot(L[g]).dot(C) for g in range(nchol)]).reshape(nchol, norb * norb)
    res.append(H.identity(f"C15.rot.congruence.chol[norb={norb},nchol={nchol}]", out["chol"], want, functions=fns, inputs=inp, t0=t0, note="L_g' == C^T L_g C for every g"))
    for nm, sv, nv in (("h1", out["h1"], nat["h1"]), ("chol", out["chol"], nat["chol"])):
        x = H.crosscheck(f"C15.rot.congruence.{nm}", inp, sv, nv)
        if x:
            res.append(x)
    for o in res:
        if o["status"] == REFUTED:
            o["replayed"] = True       # exact symbolic mismatch; the float cross-check above ran the real function at the same point
            h1n = np.asarray(nat["h1"])
            Cn = np.asarray(hc["V"].x)
            o["witness"] = dict(o.get("witness") or {}, native=dict(max_dev_h1=float(max(np.abs(h1n[s] - Cn.T @ np.asarray(hh["V"].x)[s] @ Cn).max() for s in range(2)))))
    return res


def rot_invariance(kind, norb, nu, nd, what="energy"):
    """C15.rot.inv.<kind>: with an exact rational ORTHOGONAL C: rotating the Hamiltonian with rotate_orbs and the trial orbitals and walkers
    with C^T leaves energies / force biases unchanged and overlaps unchanged"""
    t0 = time.time()
    H.setup_repo()
    import jax
    import jax.numpy as jnp
    from ad_afqmc import hamiltonian
    nel = (nu, nd)
    c = Case(kind, norb, nel, nchol=2 if what != "energy" else 1)
    sp = c.inp.sp
    M = rational_orthogonal(norb)
    Cs, Cx = _fr_array(sp, M), np.array(M, dtype=float)
    ham = hamiltonian.hamiltonian(norb)
    hs, hx = c.sx(c.ham0)
    rs, _ = evaluate(sp, ham.rotate_orbs, (dict(h1=hs["h1"], chol=hs["chol"]), Cs), (dict(h1=hx["h1"], chol=hx["chol"]), jnp.asarray(Cx)))
    rx = ham.rotate_orbs(dict(h1=hx["h1"], chol=hx["chol"]), jnp.asarray(Cx))
    hs2, hx2 = dict(hs, h1=rs["h1"], chol=rs["chol"]), dict(hx, h1=rx["h1"], chol=rx["chol"])
    def rot(v):
        def f(a):
            Ct = Cs.T if is_obj(a) else Cx.T
            if np.ndim(a) == 2 and a.shape[0] == norb:
                return Ct.dot(a)
            if np.ndim(a) == 3 and a.shape[1] == norb:          # (ndets, norb, n): rotate every determinant
                return np.stack([Ct.dot(a[k]) for k in range(a.shape[0])])
            return a                                            # coefficients: unchanged
        return H.both(f, v)
    wave2 = jax.tree_util.tree_map(rot, c.wave, is_leaf=lambda x: isinstance(x, H.V))
    w1 = list(c.walkers())
    w2 = [rot(w) for w in w1]
    wvs, wvx = c.sx(c.wave)
    wvs2, wvx2 = c.sx(wave2)
    s1, x1 = c.sx(tuple(w1))
    s2, x2 = c.sx(tuple(w2))
    name = f"C15.rot.inv.{what}.{tag(kind, norb, nel)}"
    if what == "overlap":
        a, _ = evaluate(sp, c.trial._calc_overlap, tuple(s1) + (wvs,), tuple(x1) + (wvx,))
        b, _ = evaluate(sp, c.trial._calc_overlap, tuple(s2) + (wvs2,), tuple(x2) + (wvx2,))
        return [H.identity(name, a, b, functions=fq(c, "_calc_overlap") + ["hamiltonian.hamiltonian.rotate_orbs"], inputs=c.inp, t0=t0, note="overlap factor 1 for an orthogonal rotation")]
    meth = {"energy": "_calc_energy", "fb": "_calc_force_bias"}[what]
    fn = getattr(c.trial, meth)
    mi = c.trial._build_measurement_intermediates
    ha_s, _ = evaluate(sp, mi, (hs, wvs), (dict(hx), wvx))
    hb_s, _ = evaluate(sp, mi, (hs2, wvs2), (dict(hx2), wvx2))
    ha_x, hb_x = mi(dict(hx), wvx), mi(dict(hx2), wvx2)
    a, _ = evaluate(sp, fn, tuple(s1) + (ha_s, wvs), tuple(x1) + (ha_x, wvx))
    b, _ = evaluate(sp, fn, tuple(s2) + (hb_s, wvs2), tuple(x2) + (hb_x, wvx2))
    o = H.identity(name, a, b, functions=fq(c, meth) + ["hamiltonian.hamiltonian.rotate_orbs"], inputs=c.inp, t0=t0,
                   note=f"{what} unchanged when Hamiltonian (rotate_orbs), trial orbitals and walker are rotated with the same orthogonal matrix")
    if o["status"] == REFUTED:
        na, nb = np.asarray(fn(*x1, ha_x, wvx)), np.asarray(fn(*x2, hb_x, wvx2))
        o["replayed"] = bool(np.max(np.abs(na - nb)) > 1e-8 * (1 + np.max(np.abs(na))))
        o["witness"] = dict(o.get("witness") or {}, native=dict(original=str(na), rotated=str(nb)))
    return [o]


def rot_invariance_ucisd(norb=3, nu=2, nd=1, what="energy", kind="ucisd"):
    """C15.rot.inv.<what>.ucisd: the alpha reference of ucisd is 'the first nu orbitals of the working basis', so the rotations that keep the trial
    representable are C = R_occ (+) R_virt (exact rational orthogonal blocks).  Rotating the Hamiltonian with rotate_orbs, walkers and the beta
    orbitals mo_coeff[1] with C^T, and the alpha indices of the amplitudes with R_occ / R_virt leaves overlap, energy and force bias unchanged."""
    t0 = time.time()
    H.setup_repo()
    import jax.numpy as jnp
    from ad_afqmc import hamiltonian
    nel = (nu, nd)
    c = Case(kind, norb, nel, nchol=2 if what != "energy" else 1, restricted=(kind != "ucisd"))
    sp = c.inp.sp
    Ro, Rv = rational_orthogonal(nu), rational_orthogonal(norb - nu, "rot")
    M = np.zeros((norb, norb), dtype=object)
    M[:] = 0
    M[:nu, :nu] = Ro
    M[nu:, nu:] = Rv
    Cs, Cx = _fr_array(sp, M), np.array(M, dtype=float)
    Ros, Rox, Rvs, Rvx = _fr_array(sp, Ro), np.array(Ro, dtype=float), _fr_array(sp, Rv), np.array(Rv, dtype=float)
    ham = hamiltonian.hamiltonian(norb)
    hs, hx = c.sx(c.ham0)
    rs, _ = evaluate(sp, ham.rotate_orbs, (dict(h1=hs["h1"], chol=hs["chol"]), Cs), (dict(h1=hx["h1"], chol=hx["chol"]), jnp.asarray(Cx)))
    rx = ham.rotate_orbs(dict(h1=hx["h1"], chol=hx["chol"]), jnp.asarray(Cx))
    hs2, hx2 = dict(hs, h1=rs["h1"], chol=rs["chol"]), dict(hx, h1=rx["h1"], chol=rx["chol"])
    pick = lambda a, s_, x_: s_ if is_obj(a) else x_
    left = lambda v: H.both(lambda a: pick(a, Cs, Cx).T.dot(a), v)
    W = c.wave
    if kind != "ucisd":          # restricted cisd: both spins share the reference; every amplitude index is transformed
        wave2 = dict(ci1=H.both(lambda a: np.einsum("ip,ia,aq->pq", pick(a, Ros, Rox), a, pick(a, Rvs, Rvx)), W["ci1"]),
                     ci2=H.both(lambda a: np.einsum("ip,aq,jr,bs,iajb->pqrs", pick(a, Ros, Rox), pick(a, Rvs, Rvx), pick(a, Ros, Rox), pick(a, Rvs, Rvx), a), W["ci2"]))
    else:
      wave2 = dict(mo_coeff=[W["mo_coeff"][0], left(W["mo_coeff"][1])],
                 ci1A=H.both(lambda a: np.einsum("ip,ia,aq->pq", pick(a, Ros, Rox), a, pick(a, Rvs, Rvx)), W["ci1A"]), ci1B=W["ci1B"],
                 ci2AA=H.both(lambda a: np.einsum("ip,aq,jr,bs,iajb->pqrs", pick(a, Ros, Rox), pick(a, Rvs, Rvx), pick(a, Ros, Rox), pick(a, Rvs, Rvx), a), W["ci2AA"]),
                 ci2BB=W["ci2BB"],
                 ci2AB=H.both(lambda a: np.einsum("ip,aq,iajb->pqjb", pick(a, Ros, Rox), pick(a, Rvs, Rvx), a), W["ci2AB"]))
    sfx_m = "" if kind == "ucisd" else "_restricted"
    w1 = list(c.walkers())
    w2 = [left(w) for w in w1]
    wvs, wvx = c.sx(c.wave)
    wvs2, wvx2 = c.sx(wave2)
    s1, x1 = c.sx(tuple(w1))
    s2, x2 = c.sx(tuple(w2))
    name = f"C15.rot.inv.{what}.{tag(kind, norb, nel)}"
    fns = ["hamiltonian.hamiltonian.rotate_orbs"]
    mi = c.trial._build_measurement_intermediates
    if what == "overlap":
        fn, meth = getattr(c.trial, "_calc_overlap" + sfx_m), "_calc_overlap" + sfx_m
        a, _ = evaluate(sp, fn, tuple(s1) + (wvs,), tuple(x1) + (wvx,))
        b, _ = evaluate(sp, fn, tuple(s2) + (wvs2,), tuple(x2) + (wvx2,))
        nat = lambda: (np.asarray(fn(*x1, wvx)), np.asarray(fn(*x2, wvx2)))
    else:
        meth = {"energy": "_calc_energy", "fb": "_calc_force_bias"}[what] + sfx_m
        fn = getattr(c.trial, meth)
        ha_s, _ = evaluate(sp, mi, (hs, wvs), (dict(hx), wvx))
        hb_s, _ = evaluate(sp, mi, (hs2, wvs2), (dict(hx2), wvx2))
        ha_x, hb_x = mi(dict(hx), wvx), mi(dict(hx2), wvx2)
        a, _ = evaluate(sp, fn, tuple(s1) + (ha_s, wvs), tuple(x1) + (ha_x, wvx))
        b, _ = evaluate(sp, fn, tuple(s2) + (hb_s, wvs2), tuple(x2) + (hb_x, wvx2))
        nat = lambda: (np.asarray(fn(*x1, ha_x, wvx)), np.asarray(fn(*x2, hb_x, wvx2)))
    o = H.identity(name, a, b, functions=fq(c, meth) + (fq(c, "_build_measurement_intermediates") if what != "overlap" else []) + fns, inputs=c.inp, t0=t0,
                   note=f"{what} unchanged under C = R_occ (+) R_virt applied to Hamiltonian (rotate_orbs), walkers, beta orbitals and the alpha amplitude indices")
    if o["status"] == REFUTED:
        na, nb = nat()
        o["replayed"] = bool(np.max(np.abs(na - nb)) > 1e-4 * (1 + np.max(np.abs(na))))       # single-precision casts inside the CI energy
        o["witness"] = dict(o.get("witness") or {}, native=dict(original=str(na), rotated=str(nb)))
    return [o]


def canary():
    H.setup_repo()
    import jax.numpy as jnp
    from ad_afqmc import hamiltonian
    inp = H.Inputs(7)
    hh, hl, hc = inp.declare("h", (2, 2, 2)), inp.declare("l", (1, 4)), inp.declare("c", (2, 2))
    inp.build()
    ham = hamiltonian.hamiltonian(2)
    out, _ = evaluate(inp.sp, ham.rotate_orbs, (dict(h1=hh["V"].s, chol=hl["V"].s), hc["V"].s), (dict(h1=jnp.asarray(hh["V"].x), chol=jnp.asarray(hl["V"].x)), jnp.asarray(hc["V"].x)))
    C = hc["V"].s
    o = H.identity("canary.rot.similarity_instead_of_congruence", np.asarray(out["h1"], dtype=object)[0], C.dot(hh["V"].s[0]).dot(C.T))
    o["kind"] = "canary"
    return [o]


def rot_congruence_allsizes():
    """C15.rot.congruence.allsizes (PROOF, all norb and all numbers of Cholesky vectors): tensor normal form of the traced rotate_orbs with
    SYMBOLIC sizes: h1[s]'[q,p] = sum_ij C[i,q] h1[s][i,j] C[j,p] and chol'[g,(q,p)] = sum_ij C[i,q] L[g,(i,j)] C[j,p]."""
    t0 = time.time()
    H.setup_repo()
    import jax
    import jax.numpy as jnp
    from ad_afqmc import hamiltonian
    from vc.jxvc import tensorform as T
    fns = ["hamiltonian.hamiltonian.rotate_orbs"]
    forms = []
    for n, g in ((3, 5), (5, 7)):          # distinct primes per size symbol; the second pair checks that tracing is uniform in the sizes
        ham = hamiltonian.hamiltonian(n)
        hd = dict(h1=jnp.zeros((2, n, n)), chol=jnp.zeros((g, n * n)))
        closed = jax.make_jaxpr(lambda h, c: ham.rotate_orbs(h, c))(hd, jnp.eye(n))
        # inputs in pytree order: chol, h1, mo_coeff
        L = T.atom("L", ["g", "n", "n"], composite=[[0], [1, 2]])
        h1 = T.Stack([T.atom("h1_up", ["n", "n"]), T.atom("h1_dn", ["n", "n"])])
        C = T.atom("C", ["n", "n"])
        it = T.Interp(dict(n=n, g=g))
        try:
            out = it.run(closed.jaxpr, closed.consts, [L, h1, C])
        except Unsupported as e:
            return [ob("C15.rot.congruence.allsizes", UNDECIDED, kind="proof", backend="tensor-normal-form", detail=f"Unsupported: {e}", functions=fns, wall=time.time() - t0)]
        tree = jax.tree_util.tree_structure(jax.eval_shape(lambda h, c: ham.rotate_orbs(h, c), hd, jnp.eye(n)))
        res = jax.tree_util.tree_unflatten(tree, out)
        want_chol = T.reshape(T.ein("iq,gij,jp->gqp", C, L, C), [g, n * n], dict(n=n, g=g))
        want_h1 = T.Stack([T.ein("iq,ij,jp->qp", C, h1[s], C) for s in range(2)])
        forms.append((res, want_chol, want_h1, dict(it.seen)))
    out = []
    (r1, wc1, wh1, seen1), (r2, wc2, wh2, seen2) = forms
    uniform = T.describe(r1["chol"]) == T.describe(r2["chol"]) and T.describe(r1["h1"]) == T.describe(r2["h1"]) and seen1 == seen2
    out.append(ob("C15.rot.congruence.allsizes.uniform", DISCHARGED if uniform else UNDECIDED, kind="proof", backend="tensor-normal-form", functions=fns, wall=time.time() - t0,
                  detail=f"the traced program and its normal form are identical at (norb, nchol) = (3, 5) and (5, 7); primitives {seen1}"))
    for nm, got, want in (("chol", r1["chol"], wc1), ("h1", r1["h1"], wh1)):
        ok = T.equal(got, want)
        o = ob(f"C15.rot.congruence.allsizes.{nm}", DISCHARGED if ok else REFUTED, kind="proof", backend="tensor-normal-form", functions=fns, wall=time.time() - t0,
               detail=(f"normal form {T.describe(got)} == C^T X C for all sizes" if ok else f"normal form {T.describe(got)} differs from {T.describe(want)}"),
               witness=None if ok else dict(got=str(T.describe(got))[:600], want=str(T.describe(want))[:600]), witness_class="" if ok else "normal-form")
        if not ok:
            rng = np.random.default_rng(0)
            n, g = 3, 2
            ham = hamiltonian.hamiltonian(n)
            h = rng.normal(size=(2, n, n)); Lx = rng.normal(size=(g, n, n)); Cx = rng.normal(size=(n, n))
            nat = ham.rotate_orbs(dict(h1=jnp.asarray(h), chol=jnp.asarray(Lx.reshape(g, -1))), jnp.asarray(Cx))
            dev = float(np.abs(np.asarray(nat["chol"]).reshape(g, n, n) - np.array([Cx.T @ Lx[k] @ Cx for k in range(g)])).max()) if nm == "chol" else \
                float(max(np.abs(np.asarray(nat["h1"])[s] - Cx.T @ h[s] @ Cx).max() for s in range(2)))
            o["replayed"] = bool(dev > 1e-10)
            o["witness"]["native"] = dict(norb=n, nchol=g, max_abs_deviation=dev)
        out.append(o)
    return out


def init_walkers_natorbs(norb=4, nu=3, nd=2):
    """C13.init.natorbs: the first statements of get_init_walkers (extracted by AST) take the natural orbitals of spin s from eigh(rdm1[s]) - spin by spin -
    keeping the n_s columns of largest occupation (eigh returns ascending eigenvalues: reversed order, first n_s), and the unrestricted branch returns
    n_walkers copies of [natorbs_up, natorbs_dn].  eigh is a callee under its contract (returns the eigenvector matrix OF ITS ARGUMENT): the contract is applied
    only after the argument has been identified as rdm1[0] or rdm1[1]; tagged eigenvector matrices."""
    t0 = time.time()
    q = "wavefunctions.wave_function.get_init_walkers"
    fn, _ = front.get_function(q)
    assigns = [n for n in fn.body if isinstance(n, ast.Assign) and isinstance(n.targets[0], ast.Name) and n.targets[0].id in ("natorbs_up", "natorbs_dn")]
    top_if = next((n for n in fn.body if isinstance(n, ast.If) and ast.unparse(n.test) == "restricted"), None)
    name = f"C13.init.natorbs[norb={norb},nel={nu}+{nd}]"
    if len(assigns) != 2 or top_if is None or not top_if.orelse or not isinstance(top_if.orelse[0], ast.Return):
        return [ob(name, UNDECIDED, kind="bounded", detail="natural-orbital statements / unrestricted return not found", functions=[q])]
    A, B = np.zeros((norb, norb)), np.ones((norb, norb))
    V = {id(A): 100.0 + np.arange(norb * norb, dtype=float).reshape(norb, norb), id(B): 500.0 + np.arange(norb * norb, dtype=float).reshape(norb, norb)}
    calls = []

    class _LA:
        @staticmethod
        def eigh(x):
            if id(x) not in V:
                raise Unsupported("eigh applied to something that is not rdm1[0] or rdm1[1]")
            calls.append("up" if x is A else "dn")
            return np.arange(norb, dtype=float), V[id(x)]

    class _JNP:
        linalg = _LA()
        array = staticmethod(np.array)

    class _Self:
        nelec = (nu, nd)
    nw = 2
    ns = dict(jnp=_JNP(), np=np, self=_Self(), rdm1=[A, B], n_walkers=nw)
    mod = ast.Module([__import__("copy").deepcopy(s_) for s_ in assigns], [])
    ast.fix_missing_locations(mod)
    try:
        exec(compile(mod, "get_init_walkers", "exec"), ns)
        ret = eval(compile(ast.Expression(__import__("copy").deepcopy(top_if.orelse[0].value)), "get_init_walkers", "eval"), ns)
    except Unsupported as e:
        return [ob(name, REFUTED, kind="bounded", backend="concrete-exec(tagged)", detail=str(e), functions=[q], replayed=None, witness_class="eigh-argument")]
    bad = []
    want = [V[id(A)][:, ::-1][:, :nu], V[id(B)][:, ::-1][:, :nd]]
    if not np.array_equal(np.asarray(ns["natorbs_up"]), want[0]):
        bad.append("natorbs_up is not the n_up leading natural orbitals of rdm1[0]")
    if not np.array_equal(np.asarray(ns["natorbs_dn"]), want[1]):
        bad.append("natorbs_dn is not the n_dn leading natural orbitals of rdm1[1]")
    ok_ret = isinstance(ret, list) and len(ret) == 2 and all(np.asarray(ret[s_]).shape == (nw,) + want[s_].shape and all(np.array_equal(np.asarray(ret[s_])[k].real, want[s_]) for k in range(nw)) for s_ in range(2))
    if not ok_ret:
        bad.append("the unrestricted branch does not return n_walkers copies of [natorbs_up, natorbs_dn]")
    o = ob(name, REFUTED if bad else DISCHARGED, kind="bounded", backend="concrete-exec(tagged)", functions=[q], wall=time.time() - t0,
           detail=("; ".join(bad) if bad else f"natural orbitals of spin s come from eigh(rdm1[s]) (calls {calls}), n_s columns of largest occupation, {nw} copies per spin"),
           witness=dict(mismatch=bad, eigh_calls=calls) if bad else None, witness_class="natural-orbitals" if bad else "")
    if bad:
        # native replay: a spin-broken uhf trial, unrestricted initial walkers must have |overlap| = 1 with the trial
        try:
            H.setup_repo()
            import jax.numpy as jnp
            from ad_afqmc import wavefunctions as wf
            rng = np.random.default_rng(8)
            C = [np.linalg.qr(rng.normal(size=(5, 5)))[0][:, :3], np.linalg.qr(rng.normal(size=(5, 5)))[0][:, :2]]
            trial = wf.uhf(5, (3, 2))
            wave = dict(mo_coeff=[jnp.asarray(C[0]), jnp.asarray(C[1])], rdm1=jnp.asarray(np.array([C[0] @ C[0].T, C[1] @ C[1].T])))
            w = trial.get_init_walkers(wave, 2, restricted=False)
            ov = np.asarray(trial.calc_overlap(w, wave))
            o["replayed"] = bool(np.max(np.abs(np.abs(ov) - 1.0)) > 1e-8)
            o["witness"]["native"] = dict(abs_overlap_of_initial_walkers_with_a_uhf_trial=np.abs(ov).tolist())
        except Exception as e:   # noqa
            o["witness"]["native_error"] = repr(e)[:300]
    return [o]

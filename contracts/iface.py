"""C16 (partial): what pyscf_interface.prep_afqmc writes is what mpi_jax._prep_afqmc reads, and the amplitude / integral
conventions in between.  pyscf itself (SCF, CC, integrals, CASSCF.get_h1eff) is external: its results enter as free symbols.

io.*      interface facts read off the two ASTs (file names, dataset keys, header order, argument binding, npz keys,
          wave_data keys consumed by the trial classes) and the electron-count arithmetic (LIA, all integers)
layout    the REAL write_dqmc against the reader's own statements (extracted from _prep_afqmc), on tagged arrays
amp.*     the REAL amplitude block of prep_afqmc on symbolic CC amplitudes: the CISD / UCISD trial state defined by the
          written arrays (in the conventions C01 proves the overlap code to have) equals exp(T1+T2)|Phi0> truncated at doubles
custom.*  the REAL custom-integrals block: triangular unpacking and basis transformation of the Cholesky vectors
"""
from __future__ import annotations

import ast
import copy
import time
from fractions import Fraction

import numpy as np
import z3

from vc import front
from vc.common import ob, DISCHARGED, REFUTED, UNDECIDED, Unsupported, REPO

PI, MJ = "pyscf_interface", "mpi_jax"
FNS = ["pyscf_interface.prep_afqmc", "pyscf_interface.write_dqmc", "mpi_jax._prep_afqmc"]


def _fn(mod, name):
    src, tree = front.load(mod)
    return next(n for n in tree.body if isinstance(n, ast.FunctionDef) and n.name == name)


def _const(n):
    return n.value if isinstance(n, ast.Constant) else None


def _g(name, cond, detail, kind="ground", witness=None):
    return ob(name, DISCHARGED if cond else REFUTED, kind=kind, backend="ast-facts", detail=detail, functions=FNS, replayed=(None if cond else True),
              witness=None if cond else (witness or dict(fact=detail)), witness_class="" if cond else "interface-mismatch")


# ------------------------------------------------------------------------------------------------ io facts
def _writer_facts():
    w = _fn(PI, "write_dqmc")
    keys, cond_keys, header = {}, set(), None
    for node in ast.walk(w):
        if isinstance(node, ast.Assign) and isinstance(node.targets[0], ast.Subscript) and isinstance(node.targets[0].value, ast.Name) \
                and node.targets[0].value.id == "fh5":
            k = _const(node.targets[0].slice)
            keys[k] = ast.unparse(node.value)
            if k == "header":
                header = [ast.unparse(e) for e in node.value.args[0].elts]
    for node in ast.walk(w):
        if isinstance(node, ast.If):
            for sub in ast.walk(node):
                if isinstance(sub, ast.Assign) and isinstance(sub.targets[0], ast.Subscript) and getattr(sub.targets[0].value, "id", "") == "fh5":
                    cond_keys.add(_const(sub.targets[0].slice))
    params = [a.arg for a in w.args.args]
    defaults = dict(zip(params[len(params) - len(w.args.defaults):], [ast.unparse(d) for d in w.args.defaults]))
    return dict(keys=keys, cond_keys=cond_keys, header=header, params=params, defaults=defaults)


def _reader_facts():
    r = _fn(MJ, "_prep_afqmc")
    out = dict(file=None, reads={}, header=None, npz={}, wave_keys={})
    for node in ast.walk(r):
        if isinstance(node, ast.With):
            call = node.items[0].context_expr
            if isinstance(call, ast.Call) and ast.unparse(call.func) == "h5py.File" and _const(call.args[0]) == "FCIDUMP_chol":
                out["file"] = _const(call.args[0])
                for sub in node.body:
                    for n in ast.walk(sub):
                        if isinstance(n, ast.Assign):
                            src = ast.unparse(n.value)
                            for c in ast.walk(n.value):
                                k = None
                                if isinstance(c, ast.Subscript) and getattr(c.value, "id", "") == "fh5":
                                    k = _const(c.slice)
                                if isinstance(c, ast.Call) and ast.unparse(c.func) == "fh5.get":
                                    k = _const(c.args[0])
                                if k is not None:
                                    out["reads"][k] = (ast.unparse(n.targets[0]), src)
                                    if k == "header":
                                        out["header"] = [ast.unparse(e) for e in n.targets[0].elts]
    for node in ast.walk(r):
        if isinstance(node, ast.Subscript) and isinstance(node.value, ast.Call) and ast.unparse(node.value.func) == "np.load":
            out["npz"].setdefault(_const(node.value.args[0]), set()).add(_const(node.slice))
        if isinstance(node, ast.Subscript) and isinstance(node.value, ast.Name) and node.value.id == "amplitudes":
            out["npz"].setdefault("amplitudes.npz", set()).add(_const(node.slice))
    return out, r


def io_facts():
    """C16.io.*: interface facts of writer and reader (ground facts about the current source; they hold for every input)"""
    t0 = time.time()
    W = _writer_facts()
    R, rnode = _reader_facts()
    P = _fn(PI, "prep_afqmc")
    obs = []
    obs.append(_g("C16.io.file", R["file"] == "FCIDUMP_chol" and W["defaults"].get("filename") == "'FCIDUMP_chol'",
                  f"reader opens {R['file']!r}; write_dqmc default filename {W['defaults'].get('filename')}"))
    missing = [k for k in R["reads"] if k not in W["keys"] or k in W["cond_keys"]]
    obs.append(_g("C16.io.keys", not missing and len(R["reads"]) >= 4, f"datasets read {sorted(R['reads'])} are all written unconditionally (written: {sorted(W['keys'])}); missing: {missing}"))
    hw, hr = W["header"], R["header"]
    ok = hw is not None and hr is not None and len(hw) == len(hr) == 4 and hw[:3] == hr[:3] and hw[3] == "chol.shape[0]" and hr[3] == "nchol"
    obs.append(_g("C16.io.header", ok, f"header written as {hw}, unpacked as {hr}"))
    # the call in prep_afqmc
    call = next(n for n in ast.walk(P) if isinstance(n, ast.Call) and ast.unparse(n.func) == "write_dqmc")
    bound = dict(zip(W["params"], [ast.unparse(a) for a in call.args]))
    bound.update({k.arg: ast.unparse(k.value) for k in call.keywords})
    want = dict(hcore="h1e", hcore_mod="h1e_mod", chol="chol", nelec="sum(nelec)", nmo="nbasis", enuc="enuc", ms="mol.spin", filename="'FCIDUMP_chol'", mo_coeffs="trial_coeffs")
    obs.append(_g("C16.io.binding", bound == want, f"write_dqmc is called with {bound}"))
    roles = {k: v[0] for k, v in R["reads"].items()}
    obs.append(_g("C16.io.roles", roles.get("energy_core") == "h0" and roles.get("hcore") == "h1" and roles.get("chol") == "chol"
                  and W["keys"].get("energy_core") == "enuc" and W["keys"].get("hcore") == "hcore.flatten()" and W["keys"].get("chol") == "chol.flatten()",
                  f"reader: {roles}; writer: { {k: W['keys'][k] for k in ('energy_core', 'hcore', 'chol') if k in W['keys']} }"))
    # npz files
    saved = {}
    for n in ast.walk(P):
        if isinstance(n, ast.Call) and ast.unparse(n.func) == "np.savez":
            saved.setdefault(_const(n.args[0]), []).append({k.arg for k in n.keywords})
    okm = any("mo_coeff" in s for s in saved.get("mo_coeff.npz", [])) and R["npz"].get("mo_coeff.npz") == {"mo_coeff"}
    obs.append(_g("C16.io.npz.mo_coeff", okm, f"saved {saved.get('mo_coeff.npz')}, loaded keys {R['npz'].get('mo_coeff.npz')}"))
    amp_saved = saved.get("amplitudes.npz", [])
    amp_read = R["npz"].get("amplitudes.npz", set())
    oka = {"ci1", "ci2"} in amp_saved and {"ci1a", "ci1b", "ci2aa", "ci2ab", "ci2bb"} in amp_saved and amp_read == {"ci1", "ci2", "ci1a", "ci1b", "ci2aa", "ci2ab", "ci2bb"}
    obs.append(_g("C16.io.npz.amplitudes", oka, f"saved key sets {amp_saved}, loaded keys {sorted(amp_read)}"))
    # wave_data keys handed to the trial classes vs keys the classes read
    wsrc, wtree = front.load("wavefunctions")
    used = {}
    for cls in ("cisd", "ucisd"):
        node = front.classes("wavefunctions")[cls]
        used[cls] = {_const(n.slice) for n in ast.walk(node) if isinstance(n, ast.Subscript) and isinstance(n.value, ast.Name) and n.value.id == "wave_data" and _const(n.slice)}
    given = {}
    for n in ast.walk(rnode):
        if isinstance(n, ast.Assign) and ast.unparse(n.targets[0]) == "trial_wave_data" and isinstance(n.value, ast.Dict):
            ks = {_const(k): ast.unparse(v) for k, v in zip(n.value.keys, n.value.values)}
            given["ucisd" if "ci1A" in ks else "cisd"] = ks
    always = {"mo_coeff", "rdm1"}
    okw = all(cls in given and used[cls] - always <= set(given[cls]) for cls in ("cisd", "ucisd")) and \
        given.get("ucisd", {}).get("ci1A") == "ci1a" and given.get("ucisd", {}).get("ci2AB") == "ci2ab" and given.get("ucisd", {}).get("ci2BB") == "ci2bb" \
        and given.get("ucisd", {}).get("ci2AA") == "ci2aa" and given.get("ucisd", {}).get("ci1B") == "ci1b" and given.get("cisd", {}).get("ci2") == "ci2"
    obs.append(_g("C16.io.wave_keys", okw, f"trial classes read wave_data keys {used}; the reader provides {given}"))
    for o in obs:
        o["wall"] = round(time.time() - t0, 3)
    return obs


# ------------------------------------------------------------------------------------------------ electron counts
def _z(e, env):
    if isinstance(e, ast.Tuple):
        return [_z(x, env) for x in e.elts]
    if isinstance(e, ast.Name):
        return env[e.id]
    if isinstance(e, ast.Constant) and isinstance(e.value, int):
        return z3.IntVal(e.value)
    if isinstance(e, ast.BinOp):
        a, b = _z(e.left, env), _z(e.right, env)
        if isinstance(e.op, ast.Add):
            return a + b
        if isinstance(e.op, ast.Sub):
            return a - b
        if isinstance(e.op, ast.FloorDiv):
            return a / b        # z3 Int division is floor division for a positive divisor (the divisor here is the literal 2)
    if isinstance(e, ast.Call) and ast.unparse(e.func) == "abs":
        a = _z(e.args[0], env)
        return z3.If(a >= 0, a, -a)
    raise Unsupported(f"expression {ast.unparse(e)} outside the integer fragment")


def io_nelec():
    """C16.io.nelec (proof, all integers): the reader's nelec_sp, computed from the written header (N = n_up + n_dn, ms = n_up - n_dn with
    n_up >= n_dn >= 0 as pyscf's mol.nelec / mol.spin and CASSCF.nelecas give them), is (n_up, n_dn)."""
    t0 = time.time()
    r = _fn(MJ, "_prep_afqmc")
    node = next(n for n in ast.walk(r) if isinstance(n, ast.Assign) and ast.unparse(n.targets[0]) == "nelec_sp")
    nu, nd = z3.Ints("n_up n_dn")
    env = dict(nelec=nu + nd, ms=nu - nd)
    try:
        a, b = _z(node.value, env)
    except Unsupported as e:
        return [ob("C16.io.nelec", UNDECIDED, detail=str(e), functions=[FNS[2]])]
    s = z3.Solver()
    s.add(nu >= nd, nd >= 0, z3.Not(z3.And(a == nu, b == nd)))
    res = s.check()
    out = []
    if res == z3.unsat:
        out.append(ob("C16.io.nelec", DISCHARGED, backend="z3-lia", wall=time.time() - t0, functions=[FNS[2]],
                      detail=f"{ast.unparse(node.value)} == (n_up, n_dn) for all n_up >= n_dn >= 0 with nelec = n_up + n_dn, ms = n_up - n_dn"))
    elif res == z3.sat:
        m = s.model()
        wit = dict(n_up=m[nu].as_long(), n_dn=m[nd].as_long())
        N, ms = wit["n_up"] + wit["n_dn"], wit["n_up"] - wit["n_dn"]
        got = eval(compile(ast.Expression(node.value), "<nelec_sp>", "eval"), dict(nelec=N, ms=ms, abs=abs))
        out.append(ob("C16.io.nelec", REFUTED, backend="z3-lia", wall=time.time() - t0, functions=[FNS[2]], replayed=bool(tuple(got) != (wit["n_up"], wit["n_dn"])),
                      detail=f"{ast.unparse(node.value)} != (n_up, n_dn)", witness=dict(wit, header=dict(nelec=N, ms=ms), reader_gives=list(got)), witness_class="electron-count"))
    else:
        out.append(ob("C16.io.nelec", UNDECIDED, backend="z3-lia", detail="solver unknown", functions=[FNS[2]]))
    # vacuity guard: without n_up >= n_dn the statement must fail (negative spin swaps the channels)
    s2 = z3.Solver()
    s2.add(nu >= 0, nd >= 0, z3.Not(z3.And(a == nu, b == nd)))
    out.append(ob("C16.canary.nelec_needs_nonnegative_spin", REFUTED if s2.check() == z3.sat else DISCHARGED, kind="canary", backend="z3-lia",
                  detail="dropping n_up >= n_dn must make the electron-count obligation fail", functions=[FNS[2]]))
    return out


# ------------------------------------------------------------------------------------------------ layout round trip
class _FakeFile(dict):
    def __enter__(self):
        return self

    def __exit__(self, *a):
        return False

    def get(self, k):
        return self[k]


def io_layout(nmo=3, nchol=2):
    """C16.io.layout (bounded): the real write_dqmc followed by the reader's own statements reproduces h0, h1[p,q], chol[g,p,q] entry by entry"""
    t0 = time.time()
    import sys
    if sys.path[0] != REPO:
        sys.path.insert(0, REPO)
    from vc import symx
    from ad_afqmc import pyscf_interface as pi
    store = {}

    class H5:
        @staticmethod
        def File(name, mode):
            if mode == "w":
                store[name] = _FakeFile()
            return store[name]
    w = symx.rebind(pi.write_dqmc, h5py=H5)
    h1 = 100.0 + np.arange(nmo * nmo, dtype=float).reshape(nmo, nmo)
    L = 1000.0 + np.arange(nchol * nmo * nmo, dtype=float).reshape(nchol, nmo, nmo)
    w(h1, h1 - 0.5, L.reshape(nchol, -1), 3, nmo, -7.25, ms=1, filename="FCIDUMP_chol", mo_coeffs=np.zeros((2, nmo, nmo)))
    # the reader's statements: the with-block on FCIDUMP_chol and the ham_data assignments, extracted mechanically
    r = _fn(MJ, "_prep_afqmc")
    stmts = []
    for node in r.body:
        if isinstance(node, ast.With) and "FCIDUMP_chol" in ast.unparse(node.items[0].context_expr):
            stmts.append(node)
        elif isinstance(node, ast.Assign) and ast.unparse(node.targets[0]).startswith(("ms, nelec, nmo, nchol", "ham_data")):
            stmts.append(node)
        elif isinstance(node, ast.Assign) and ast.unparse(node.targets[0]) in ("nelec_sp", "norb"):
            stmts.append(node)
    ns = dict(h5py=H5, jnp=np, np=np, options=dict(ene0=0.0), int=int, abs=abs)
    mod = ast.Module([copy.deepcopy(s) for s in stmts], [])
    ast.fix_missing_locations(mod)
    try:
        exec(compile(mod, REPO + "/ad_afqmc/mpi_jax.py", "exec"), ns)
    except Exception as e:   # noqa
        # the reader's own statements fail on what the real writer produced: that IS the native failure of the round trip
        return [ob(f"C16.io.layout[nmo={nmo},nchol={nchol}]", REFUTED, kind="bounded", backend="concrete-exec(tagged)", functions=FNS, replayed=True, witness_class="raises",
                   detail=f"the reader's statements raise {type(e).__name__}: {e} on the file written by write_dqmc", witness=dict(written_keys=sorted(store.get("FCIDUMP_chol", {})), error=repr(e)[:200]))]
    hd = ns["ham_data"]
    bad = []
    if float(hd["h0"]) != -7.25:
        bad.append(("h0", float(hd["h0"])))
    if not np.array_equal(np.asarray(hd["h1"])[0], h1) or not np.array_equal(np.asarray(hd["h1"])[1], h1):
        bad.append(("h1", np.asarray(hd["h1"]).tolist()))
    if not np.array_equal(np.asarray(hd["chol"]).reshape(nchol, nmo, nmo), L) or np.asarray(hd["chol"]).shape != (nchol, nmo * nmo):
        bad.append(("chol", np.asarray(hd["chol"]).shape))
    if tuple(ns["nelec_sp"]) != (2, 1) or ns["norb"] != nmo:
        bad.append(("nelec_sp/norb", ns["nelec_sp"], ns["norb"]))
    return [ob(f"C16.io.layout[nmo={nmo},nchol={nchol}]", REFUTED if bad else DISCHARGED, kind="bounded", backend="concrete-exec(tagged)", wall=time.time() - t0, functions=FNS,
               replayed=bool(bad), witness=dict(mismatch=str(bad)[:400]) if bad else None, witness_class="layout" if bad else "",
               detail=f"write_dqmc then the reader's {len(stmts)} extracted statements: h0, h1 (both spins), chol and (n_up, n_dn) = (2, 1) come back entry by entry; mismatches {bad[:2]}")]


# ------------------------------------------------------------------------------------------------ amplitudes
def _amp_block():
    """the statements of prep_afqmc that build and save the CI amplitudes: body / orelse of `if isinstance(cc, UCCSD)`"""
    P = _fn(PI, "prep_afqmc")
    for n in ast.walk(P):
        if isinstance(n, ast.If) and ast.unparse(n.test) == "isinstance(cc, UCCSD)":
            return n
    raise Unsupported("amplitude block not found")


def _einsum(spec, *ops):
    ins, out = spec.split("->")
    ins = ins.split(",")
    dims = {}
    for s_, o in zip(ins, ops):
        for ch, d in zip(s_, np.shape(o)):
            dims[ch] = d
    letters = sorted(dims)
    res = np.empty([dims[c] for c in out], dtype=object)
    summed = [c for c in letters if c not in out]
    for idx in np.ndindex(*res.shape):
        env = dict(zip(out, idx))
        tot = None
        for sidx in np.ndindex(*[dims[c] for c in summed]):
            env.update(zip(summed, sidx))
            t = None
            for s_, o in zip(ins, ops):
                v = o[tuple(env[c] for c in s_)]
                t = v if t is None else t * v
            tot = t if tot is None else tot + t
        res[idx] = tot
    return res


def amp(kind="ccsd", norb=4, nocc=(2, 2), _no_t1sq=False):
    """C16.amp.<kind>: the arrays written to amplitudes.npz define, in the CISD / UCISD conventions of the library (C01), the state
    (1 + T1 + T2 + T1^2/2)|Phi0> = exp(T1 + T2)|Phi0> truncated at doubles, for pyscf's amplitude conventions
    RCCSD: T1 = sum t1[i,a] E_ai, T2 = 1/2 sum t2[i,j,a,b] E_ai E_bj (t2[i,j,a,b] = t2[j,i,b,a]);
    UCCSD: T2 = 1/4 sum t2aa[i,j,a,b] a+_a a+_b a_j a_i + (same for bb) + sum t2ab[i,j,a,b] a+_{a,up} a+_{b,dn} a_{j,dn} a_{i,up}.
    Hence <psi_CISD|H|Phi0>/<psi_CISD|Phi0> is the coupled-cluster energy (H connects Phi0 to at most doubles)."""
    t0 = time.time()
    from vc.jxvc import harness as H
    from vc.spec.fock import Fock
    from contracts.wf import cisd_state, ucisd_state
    H.setup_repo()
    nocc = tuple(nocc)
    nA, nB = nocc
    vA, vB = norb - nA, norb - nB
    inp = H.Inputs(21)
    blk = _amp_block()
    saved = {}

    class NP:
        def __getattr__(self, k):
            return getattr(np, k)
        einsum = staticmethod(_einsum)

        @staticmethod
        def array(x):
            return np.asarray(x, dtype=object) if getattr(x, "dtype", None) == object else np.asarray(x)

        @staticmethod
        def savez(fname, **kw):
            saved[fname] = kw

    class CC:
        pass
    cc = CC()
    F = Fock(norb, nocc)
    name = f"C16.amp.{kind}[norb={norb},nocc={nA}+{nB}]"
    if kind == "ccsd":
        if nA != nB:
            raise Unsupported("restricted CCSD needs a closed shell")
        h1, h2 = inp.declare("t1", (nA, vA)), inp.declare("t2", (nA, nA, vA, vA))
        inp.build()
        t1 = h1["V"].s
        t2 = h2["V"].s + np.transpose(h2["V"].s, (1, 0, 3, 2))          # t2[i,j,a,b] = t2[j,i,b,a]
        cc.t1, cc.t2 = t1, t2
        stmts = blk.orelse
    else:
        hs = dict(t1a=inp.declare("t1a", (nA, vA)), t1b=inp.declare("t1b", (nB, vB)), aa=inp.declare("t2aa", (nA, nA, vA, vA)),
                  ab=inp.declare("t2ab", (nA, nB, vA, vB)), bb=inp.declare("t2bb", (nB, nB, vB, vB)))
        inp.build()

        def anti(x):
            return x - np.transpose(x, (1, 0, 2, 3)) - np.transpose(x, (0, 1, 3, 2)) + np.transpose(x, (1, 0, 3, 2))
        t1a, t1b = hs["t1a"]["V"].s, hs["t1b"]["V"].s
        t2aa, t2bb, t2ab = anti(hs["aa"]["V"].s), anti(hs["bb"]["V"].s), hs["ab"]["V"].s
        cc.t1, cc.t2 = (t1a, t1b), (t2aa, t2ab, t2bb)
        stmts = blk.body
    sp = inp.sp
    mod = ast.Module([copy.deepcopy(s) for s in stmts], [])
    ast.fix_missing_locations(mod)
    ns = dict(np=NP(), cc=cc)
    exec(compile(mod, REPO + "/ad_afqmc/pyscf_interface.py", "exec"), ns)
    arrs = saved.get("amplitudes.npz")
    if arrs is None:
        return [ob(name, UNDECIDED, kind="bounded", detail="amplitudes.npz was not written by the extracted block", functions=FNS[:1])]
    I = np.eye(norb)
    one = sp.const(1)
    ref = np.array([one * int(round(complex(x).real)) for x in F.det_vec(I[:, :nA], I[:, :nB])], dtype=object)
    half, quarter = sp.const(Fraction(1, 2)), sp.const(Fraction(1, 4))

    def E(a, i, s_, v):
        return F.apply_E(a, i, s_, v)
    if kind == "ccsd":
        got = cisd_state(F, np.asarray(arrs["ci1"], dtype=object), np.asarray(arrs["ci2"], dtype=object))
        Es = lambda a, i, v: E(a, i, 0, v) + E(a, i, 1, v)

        def T1(v):
            out = F.zeros(v)
            for i in range(nA):
                for a in range(vA):
                    out = out + Es(nA + a, i, v) * t1[i, a]
            return out

        def T2(v):
            out = F.zeros(v)
            for i in range(nA):
                for j in range(nA):
                    for a in range(vA):
                        for b in range(vA):
                            out = out + Es(nA + a, i, Es(nA + b, j, v)) * (t2[i, j, a, b] * half)
            return out
    else:
        moB = np.array([[sp.const(1) if p == q else sp.const(0) for q in range(norb)] for p in range(norb)], dtype=object)
        got = ucisd_state(F, *[np.asarray(arrs[k], dtype=object) for k in ("ci1a", "ci1b", "ci2aa", "ci2bb", "ci2ab")], moB)

        def T1(v):
            out = F.zeros(v)
            for i in range(nA):
                for a in range(vA):
                    out = out + E(nA + a, i, 0, v) * t1a[i, a]
            for i in range(nB):
                for a in range(vB):
                    out = out + E(nB + a, i, 1, v) * t1b[i, a]
            return out

        def T2(v):
            out = F.zeros(v)
            # a+_a a+_b a_j a_i = E_ai E_bj for i != j, a != b (occupied / virtual indices never coincide); antisymmetric amplitudes vanish otherwise
            for i in range(nA):
                for j in range(nA):
                    for a in range(vA):
                        for b in range(vA):
                            if i != j and a != b:
                                out = out + E(nA + a, i, 0, E(nA + b, j, 0, v)) * (t2aa[i, j, a, b] * quarter)
            for i in range(nB):
                for j in range(nB):
                    for a in range(vB):
                        for b in range(vB):
                            if i != j and a != b:
                                out = out + E(nB + a, i, 1, E(nB + b, j, 1, v)) * (t2bb[i, j, a, b] * quarter)
            for i in range(nA):
                for j in range(nB):
                    for a in range(vA):
                        for b in range(vB):
                            out = out + E(nA + a, i, 0, E(nB + b, j, 1, v)) * t2ab[i, j, a, b]
            return out
    t1ref = T1(ref)
    want = ref + t1ref + T2(ref) + (T1(t1ref) * half if not _no_t1sq else 0)
    o = H.identity(name, got, want, functions=FNS[:1], inputs=inp, t0=t0,
                   note=f"CI state of the written amplitudes (keys {sorted(arrs)}) == (1 + T1 + T2 + T1^2/2)|Phi0> in all {F.dim} Fock components, all amplitude values")
    if o["status"] == REFUTED and not _no_t1sq:
        # native replay: the same block on the numeric amplitudes (plain numpy), CI state vs truncated exponential in float64
        o["replayed"] = _amp_native(kind, norb, nocc, inp, stmts)
    return [o]


def _amp_native(kind, norb, nocc, inp, stmts):
    try:
        from vc.spec.fock import Fock
        from contracts.wf import cisd_state, ucisd_state
        rng = np.random.default_rng(2)
        nA, nB = nocc
        vA, vB = norb - nA, norb - nB
        saved = {}

        class NP:
            def __getattr__(self, k):
                return getattr(np, k)

            @staticmethod
            def savez(fname, **kw):
                saved[fname] = kw

        class CC:
            pass
        cc = CC()
        F = Fock(norb, nocc)
        if kind == "ccsd":
            t1 = rng.normal(size=(nA, vA)); t2 = rng.normal(size=(nA, nA, vA, vA)); t2 = t2 + t2.transpose(1, 0, 3, 2)
            cc.t1, cc.t2 = t1, t2
        else:
            anti = lambda x: x - x.transpose(1, 0, 2, 3) - x.transpose(0, 1, 3, 2) + x.transpose(1, 0, 3, 2)
            t1a, t1b = rng.normal(size=(nA, vA)), rng.normal(size=(nB, vB))
            t2aa, t2bb, t2ab = anti(rng.normal(size=(nA, nA, vA, vA))), anti(rng.normal(size=(nB, nB, vB, vB))), rng.normal(size=(nA, nB, vA, vB))
            cc.t1, cc.t2 = (t1a, t1b), (t2aa, t2ab, t2bb)
        mod = ast.Module([copy.deepcopy(s) for s in stmts], [])
        ast.fix_missing_locations(mod)
        exec(compile(mod, "<amp>", "exec"), dict(np=NP(), cc=cc))
        arrs = saved["amplitudes.npz"]
        I = np.eye(norb)
        ref = F.det_vec(I[:, :nA], I[:, :nB]).astype(complex)
        E = F.apply_E
        if kind == "ccsd":
            got = cisd_state(F, arrs["ci1"], arrs["ci2"])
            Es = lambda a, i, v: E(a, i, 0, v) + E(a, i, 1, v)
            T1 = lambda v: sum(Es(nA + a, i, v) * t1[i, a] for i in range(nA) for a in range(vA))
            T2 = lambda v: sum(Es(nA + a, i, Es(nA + b, j, v)) * (0.5 * t2[i, j, a, b]) for i in range(nA) for j in range(nA) for a in range(vA) for b in range(vA))
        else:
            got = ucisd_state(F, arrs["ci1a"], arrs["ci1b"], arrs["ci2aa"], arrs["ci2bb"], arrs["ci2ab"], np.eye(norb))
            T1 = lambda v: sum(E(nA + a, i, 0, v) * t1a[i, a] for i in range(nA) for a in range(vA)) + sum(E(nB + a, i, 1, v) * t1b[i, a] for i in range(nB) for a in range(vB))

            def T2(v):
                out = 0 * v
                for i in range(nA):
                    for j in range(nA):
                        for a in range(vA):
                            for b in range(vA):
                                if i != j and a != b:
                                    out = out + E(nA + a, i, 0, E(nA + b, j, 0, v)) * (0.25 * t2aa[i, j, a, b])
                for i in range(nB):
                    for j in range(nB):
                        for a in range(vB):
                            for b in range(vB):
                                if i != j and a != b:
                                    out = out + E(nB + a, i, 1, E(nB + b, j, 1, v)) * (0.25 * t2bb[i, j, a, b])
                for i in range(nA):
                    for j in range(nB):
                        for a in range(vA):
                            for b in range(vB):
                                out = out + E(nA + a, i, 0, E(nB + b, j, 1, v)) * t2ab[i, j, a, b]
                return out
        want = ref + T1(ref) + T2(ref) + 0.5 * T1(T1(ref))
        return bool(np.abs(np.asarray(got, dtype=complex) - np.asarray(want, dtype=complex)).max() > 1e-10)
    except Exception:   # noqa
        return None


def amp_canary():
    """vacuity guard: without the T1^2/2 term the reference must NOT be reproduced"""
    o = dict(amp("ccsd", norb=3, nocc=(1, 1), _no_t1sq=True)[0])
    o["name"] = "C16.canary.amp_needs_t1_squared"
    o["kind"] = "canary"
    return [o]


# ------------------------------------------------------------------------------------------------ custom integrals
def custom_unpack(norb=3, nchol=2):
    """C16.custom.*: the custom-integrals branch of prep_afqmc - the triangular unpacking loop gives symmetric matrices with
    chol[g][m][n] = chol0[g][max(m,n)(max(m,n)+1)/2 + min(m,n)] (pyscf's 4-fold pair index), then h1e -> B^T h1e B and chol[g] -> B^T chol[g] B"""
    t0 = time.time()
    from vc.jxvc import harness as H
    H.setup_repo()
    P = _fn(PI, "prep_afqmc")
    branch = next(n for n in ast.walk(P) if isinstance(n, ast.If) and ast.unparse(n.test) == "integrals is not None")
    # the statements after `chol0 = modified_cholesky(...)` (their inputs: chol0, h1e, basis_coeff, norb)
    body = branch.body
    k0 = next(i for i, s in enumerate(body) if isinstance(s, ast.Assign) and ast.unparse(s.targets[0]) == "chol0")
    stmts = body[k0 + 1:]
    npair = norb * (norb + 1) // 2
    inp = H.Inputs(31)
    hc, hh, hb = inp.declare("c0", (nchol, npair)), inp.declare("h", (norb, norb)), inp.declare("B", (norb, norb))
    inp.build()
    sp = inp.sp

    class NP:
        def __getattr__(self, k):
            return getattr(np, k)

        @staticmethod
        def zeros(shape, dtype=None):
            a = np.empty(shape, dtype=object)
            a[...] = sp.zero
            return a
    chol0, h1e, B = hc["V"].s, hh["V"].s + hh["V"].s.T, hb["V"].s
    ns = dict(np=NP(), chol0=chol0, h1e=h1e, basis_coeff=B, norb=norb, range=range)
    mod = ast.Module([copy.deepcopy(s) for s in stmts], [])
    ast.fix_missing_locations(mod)
    try:
        exec(compile(mod, REPO + "/ad_afqmc/pyscf_interface.py", "exec"), ns)
    except Exception as e:   # noqa
        return [ob(f"C16.custom.unpack[norb={norb}]", UNDECIDED, kind="bounded", detail=f"extracted block raised {type(e).__name__}: {e}", functions=FNS[:1])]
    U = np.empty((nchol, norb, norb), dtype=object)
    for g in range(nchol):
        for m in range(norb):
            for n in range(norb):
                a, b = max(m, n), min(m, n)
                U[g, m, n] = chol0[g, a * (a + 1) // 2 + b]
    want_chol = np.array([B.T.dot(U[g]).dot(B) for g in range(nchol)], dtype=object)
    want_h = B.T.dot(h1e).dot(B)
    fns = FNS[:1]
    out = [H.identity(f"C16.custom.chol[norb={norb},nchol={nchol}]", np.asarray(ns["chol"], dtype=object), want_chol, functions=fns, inputs=inp, t0=t0,
                      note="chol[g] == B^T unpack(chol0[g]) B with pyscf's lower-triangular pair index, all values"),
           H.identity(f"C16.custom.h1[norb={norb}]", np.asarray(ns["h1e"], dtype=object), want_h, functions=fns, inputs=inp, t0=t0, note="h1e == B^T h1e B")]
    if ns.get("nchol") != nchol:
        out.append(ob(f"C16.custom.nchol[norb={norb}]", REFUTED, kind="bounded", detail=f"nchol = {ns.get('nchol')} for {nchol} Cholesky vectors", functions=fns, replayed=True))
    if any(o["status"] == REFUTED for o in out):
        # native replay: the same statements with plain numpy on the numeric point of the symbols
        c0x, hx, Bx = np.asarray(hc["V"].x, dtype=float), np.asarray(hh["V"].x, dtype=float), np.asarray(hb["V"].x, dtype=float)
        hx = hx + hx.T
        nsx = dict(np=np, chol0=c0x, h1e=hx, basis_coeff=Bx, norb=norb, range=range)
        exec(compile(mod, REPO + "/ad_afqmc/pyscf_interface.py", "exec"), nsx)
        Ux = np.zeros((nchol, norb, norb))
        for g in range(nchol):
            for m in range(norb):
                for n in range(norb):
                    a, b = max(m, n), min(m, n)
                    Ux[g, m, n] = c0x[g, a * (a + 1) // 2 + b]
        dev_c = float(np.abs(np.asarray(nsx["chol"]) - np.array([Bx.T @ Ux[g] @ Bx for g in range(nchol)])).max())
        dev_h = float(np.abs(np.asarray(nsx["h1e"]) - Bx.T @ hx @ Bx).max())
        for o in out:
            if o["status"] == REFUTED and o.get("replayed") is None:
                d = dev_c if ".chol" in o["name"] else dev_h
                o["replayed"] = bool(d > 1e-10)
                o["witness"] = dict(o.get("witness") or {}, native=dict(max_abs_deviation=d))
    return out


# ------------------------------------------------------------------------------------------------ trial hand-over in the reader
def io_trial(norb=3, nelec_sp=(2, 1)):
    """C16.io.trial.<option>: the reader's own statements that turn mo_coeff.npz / amplitudes.npz into wave_data (extracted by AST position and
    executed on tagged arrays): the rhf / uhf trial orbitals are the leading n_s columns of spin block s of the written coefficients, rdm1[s] is
    their projector, cisd / ucisd receive the equally named amplitude arrays and (ucisd) the full coefficient blocks; the trial object has the
    class, norb and (n_up, n_dn) of the option."""
    t0 = time.time()
    import sys
    if sys.path[0] != REPO:
        sys.path.insert(0, REPO)
    from ad_afqmc import wavefunctions
    r = _fn(MJ, "_prep_afqmc")
    stmts = []
    for node in r.body:
        if isinstance(node, ast.Assign):
            tgt = ast.unparse(node.targets[0])
            if tgt in ("wave_data", "mo_coeff") or tgt.startswith("wave_data["):
                stmts.append(node)
        elif isinstance(node, ast.If) and ast.unparse(node.test).startswith("options['trial'] =="):
            stmts.append(node)
    if len(stmts) < 4:
        return [ob("C16.io.trial", UNDECIDED, kind="bounded", detail=f"only {len(stmts)} wave_data statements found in the reader", functions=[FNS[2]])]
    out = []
    for opt, cls in (("rhf", "rhf"), ("uhf", "uhf"), ("cisd", "cisd"), ("ucisd", "ucisd")):
        nelec_o = (nelec_sp[0], nelec_sp[0]) if opt in ("rhf", "cisd") else tuple(nelec_sp)      # rhf / cisd trials are closed shell
        nu, nd = nelec_o
        M = 10.0 + np.arange(2 * norb * norb, dtype=float).reshape(2, norb, norb)
        M[1] += 0.5
        amps = dict(ci1=100.0 + np.arange(nu * (norb - nu), dtype=float).reshape(nu, norb - nu), ci2=200.0 + np.arange((nu * (norb - nu)) ** 2, dtype=float).reshape(nu, norb - nu, nu, norb - nu),
                    ci1a=300.0 + np.zeros((nu, norb - nu)), ci1b=400.0 + np.zeros((nd, norb - nd)), ci2aa=500.0 + np.zeros((nu, norb - nu, nu, norb - nu)),
                    ci2ab=600.0 + np.zeros((nu, norb - nu, nd, norb - nd)), ci2bb=700.0 + np.zeros((nd, norb - nd, nd, norb - nd)))
        files = {"mo_coeff.npz": dict(mo_coeff=M), "amplitudes.npz": amps}

        class NP:
            def __getattr__(self, k):
                return getattr(np, k)

            @staticmethod
            def load(name):
                return files[name]
        ns = dict(np=NP(), jnp=np, wavefunctions=wavefunctions, options=dict(trial=opt, n_batch=1), nelec_sp=nelec_o, norb=norb, rank=1, print=lambda *a, **k: None)
        mod = ast.Module([copy.deepcopy(s) for s in stmts], [])
        ast.fix_missing_locations(mod)
        name = f"C16.io.trial.{opt}[norb={norb}]"
        try:
            exec(compile(mod, REPO + "/ad_afqmc/mpi_jax.py", "exec"), ns)
        except Exception as e:   # noqa
            out.append(ob(name, REFUTED, kind="bounded", backend="concrete-exec(tagged)", functions=[FNS[2]], replayed=True, witness_class="raises",
                          detail=f"the reader's wave_data statements raise {type(e).__name__}: {e}", witness=dict(error=repr(e)[:200])))
            continue
        wd, trial = ns["wave_data"], ns.get("trial")
        bad = []
        occ = [M[0][:, :nu], M[1][:, :nd]]
        rd = np.asarray(wd["rdm1"])
        for s_ in range(2):
            if not np.array_equal(rd[s_], occ[s_] @ occ[s_].T):
                bad.append(f"rdm1[{s_}] is not the projector on the leading n_{'ud'[s_]} columns of block {s_}")
        if type(trial).__name__ != cls or getattr(trial, "norb", None) != norb or tuple(getattr(trial, "nelec", ())) != tuple(nelec_o):
            bad.append(f"trial object {type(trial).__name__}(norb={getattr(trial, 'norb', None)}, nelec={getattr(trial, 'nelec', None)})")
        if opt == "rhf" and not np.array_equal(np.asarray(wd["mo_coeff"]), occ[0]):
            bad.append("rhf mo_coeff is not M[0][:, :n_up]")
        if opt == "uhf":
            for s_ in range(2):
                if not np.array_equal(np.asarray(wd["mo_coeff"][s_]), occ[s_]):
                    bad.append(f"uhf mo_coeff[{s_}] is not M[{s_}][:, :n_{'ud'[s_]}]")
        if opt == "cisd":
            for k in ("ci1", "ci2"):
                if not np.array_equal(np.asarray(wd[k]), amps[k]):
                    bad.append(f"wave_data[{k!r}] is not amplitudes[{k!r}]")
        if opt == "ucisd":
            for k, f in (("ci1A", "ci1a"), ("ci1B", "ci1b"), ("ci2AA", "ci2aa"), ("ci2AB", "ci2ab"), ("ci2BB", "ci2bb")):
                if not np.array_equal(np.asarray(wd[k]), amps[f]):
                    bad.append(f"wave_data[{k!r}] is not amplitudes[{f!r}]")
            if not np.array_equal(np.asarray(wd["mo_coeff"]), M):
                bad.append("ucisd mo_coeff is not the full written coefficient array")
        out.append(ob(name, REFUTED if bad else DISCHARGED, kind="bounded", backend="concrete-exec(tagged)", wall=time.time() - t0, functions=[FNS[2]], replayed=bool(bad),
                      witness=dict(mismatch=bad[:4]) if bad else None, witness_class="trial-hand-over" if bad else "",
                      detail=(f"{len(stmts)} extracted statements, option trial={opt!r}, norb={norb}, (n_up, n_dn)={tuple(nelec_o)}: " + ("; ".join(bad[:3]) if bad else "orbitals / amplitudes / rdm1 / trial object as specified"))))
    return out


# ------------------------------------------------------------------------------------------------ trial coefficients written by prep_afqmc
def trial_coeffs(kind="uhf", nbasis=3):
    """C16.trial.coeffs.<kind>: the statements of prep_afqmc that build trial_coeffs (extracted by AST position) on tagged data, with np.linalg.qr under its contract
    (fresh Q, upper-triangular R with known diagonal signs; applied only after its argument is identified as basis^T S mo_coeff[s]):
      uhf: trial_coeffs[s] = Q_s diag(sign(diag R_s)) built from mo_coeff[s] (spin by spin);  rohf: both blocks from the one mo_coeff, same sign fix;
      rhf: both blocks = Q of mo_coeff (no sign fix).   Column scaling by +-1 keeps every leading-column span, so with the qr contract the written trial spans the
      mean-field occupied orbitals in the chosen basis; mo_coeff.npz receives exactly this array."""
    t0 = time.time()
    P = _fn(PI, "prep_afqmc")
    node = next((n for n in P.body if isinstance(n, ast.If) and "scf.uhf.UHF, scf.rohf.ROHF" in ast.unparse(n.test)), None)
    name = f"C16.trial.coeffs.{kind}"
    if node is None:
        return [ob(name, UNDECIDED, kind="bounded", detail="the trial-coefficient statement of prep_afqmc was not found", functions=FNS[:1])]

    class UHF:
        pass

    class ROHF:
        pass

    class RHF:
        pass

    class _NS:
        pass
    scf = _NS()
    scf.uhf, scf.rohf, scf.rhf = _NS(), _NS(), _NS()
    scf.uhf.UHF, scf.rohf.ROHF, scf.rhf.RHF = UHF, ROHF, RHF
    n = nbasis
    Ma = 10.0 + np.arange(n * n, dtype=float).reshape(n, n)
    Mb = 50.0 + np.arange(n * n, dtype=float).reshape(n, n) * 1.5
    mf = {"uhf": UHF, "rohf": ROHF, "rhf": RHF}[kind]()
    mf.mo_coeff = [Ma, Mb] if kind == "uhf" else Ma
    Q = {0: 100.0 + np.arange(n * n, dtype=float).reshape(n, n), 1: 300.0 + np.arange(n * n, dtype=float).reshape(n, n)}
    sg = {0: np.array([1.0, -1.0, 1.0, -1.0][:n]), 1: np.array([-1.0, -1.0, 1.0, 1.0][:n])}
    calls, saved = [], {}

    class _LA:
        @staticmethod
        def qr(x):
            k = 0 if np.array_equal(x, Ma) else (1 if np.array_equal(x, Mb) else None)
            if k is None:
                raise Unsupported("qr applied to something that is not basis^T S mo_coeff[s]")
            calls.append(k)
            R = np.triu(np.ones((n, n))) * sg[k][:, None]        # upper triangular, diagonal signs sg[k]
            return Q[k], R

    class NP:
        linalg = _LA()

        def __getattr__(self, k):
            return getattr(np, k)

        @staticmethod
        def savez(fname, **kw):
            saved[fname] = kw
    ns = dict(np=NP(), scf=scf, mf=mf, nbasis=n, norb_frozen=0, basis_coeff=np.eye(n), overlap=np.eye(n), trial_coeffs=np.empty((2, n, n)), isinstance=isinstance)
    mod = ast.Module([copy.deepcopy(node)], [])
    ast.fix_missing_locations(mod)
    try:
        exec(compile(mod, REPO + "/ad_afqmc/pyscf_interface.py", "exec"), ns)
    except Unsupported as e:
        return [ob(name, REFUTED, kind="bounded", backend="concrete-exec(tagged)", detail=str(e), functions=FNS[:1], witness_class="qr-argument", replayed=None)]
    tc = np.asarray(ns["trial_coeffs"])
    if kind == "uhf":
        want = [Q[0] * sg[0][None, :], Q[1] * sg[1][None, :]]
        want_calls = [0, 1]
    elif kind == "rohf":
        want = [Q[0] * sg[0][None, :]] * 2
        want_calls = [0]
    else:
        want = [Q[0]] * 2
        want_calls = [0]
    bad = []
    for s_ in range(2):
        if not np.array_equal(tc[s_], want[s_]):
            bad.append(f"trial_coeffs[{s_}] is not Q{' diag(sign(diag R))' if kind != 'rhf' else ''} of the spin-{'ud'[s_]}{'pn'[s_]} coefficients")
    if calls != want_calls:
        bad.append(f"qr calls {calls} (expected {want_calls})")
    sv = saved.get("mo_coeff.npz", {}).get("mo_coeff")
    if sv is None or not np.array_equal(np.asarray(sv), tc):
        bad.append("mo_coeff.npz does not receive trial_coeffs")
    o = ob(name, REFUTED if bad else DISCHARGED, kind="bounded", backend="concrete-exec(tagged)", functions=FNS[:1], wall=time.time() - t0,
           detail=("; ".join(bad) if bad else f"trial_coeffs[s] = Q_s{' diag(sign(diag R_s))' if kind != 'rhf' else ''} from mo_coeff[s]; written to mo_coeff.npz (qr calls {calls})"),
           witness=dict(mismatch=bad) if bad else None, witness_class="trial-coefficients" if bad else "")
    if bad:
        # native replay with numpy's qr: the written blocks must keep the leading-column spans of basis^T S mo_coeff[s]
        try:
            rng = np.random.default_rng(3)
            A = [rng.normal(size=(n, n)), rng.normal(size=(n, n))]
            mf2 = {"uhf": UHF, "rohf": ROHF, "rhf": RHF}[kind]()
            mf2.mo_coeff = A if kind == "uhf" else A[0]

            class NP2:
                def __getattr__(self, k):
                    return getattr(np, k)

                @staticmethod
                def savez(fname, **kw):
                    pass
            ns2 = dict(np=NP2(), scf=scf, mf=mf2, nbasis=n, norb_frozen=0, basis_coeff=np.eye(n), overlap=np.eye(n), trial_coeffs=np.empty((2, n, n)), isinstance=isinstance)
            exec(compile(mod, REPO + "/ad_afqmc/pyscf_interface.py", "exec"), ns2)
            t2 = np.asarray(ns2["trial_coeffs"])
            dev = 0.0
            for s_ in range(2):
                src = A[s_] if kind == "uhf" else A[0]
                for k in range(1, n):
                    Pq = t2[s_][:, :k] @ np.linalg.pinv(t2[s_][:, :k])
                    Pa = src[:, :k] @ np.linalg.pinv(src[:, :k])
                    dev = max(dev, float(np.abs(Pq - Pa).max()))
            o["replayed"] = bool(dev > 1e-8)
            o["witness"]["native"] = dict(max_deviation_of_leading_column_projectors=dev)
        except Exception as e:   # noqa
            o["witness"]["native_error"] = repr(e)[:300]
    return [o]

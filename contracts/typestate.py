"""C08 – overlap-cache typestate (Engine A, abstract interpretation of the REAL sampling.py / propagation.py ASTs).

Ghost state of a prop_data dictionary: the walker value (a structural term: atoms for arrays, lists of atoms for
[up, dn] containers, SEL(mask, a, b) for jnp.where selections), `vo` = the (walker term, wave_data version) the cached
overlaps were computed from (None = unknown), `sync` = the value of `vo` at the last point the cache was coherent.
Rules: DESIGN.md Appendix A.  Obligations:
  coh.entry.*   at entry of every step function (propagate, propagate_one_body, CPMC site-scan body) the cache is coherent
  coh.read.*    every arithmetic read of prop_data["overlaps"] inside a step function sees the value of the last coherent point
  coh.exit.*    a step function returns a coherent state
  coh.block.*   after each block/SR the sampler re-establishes coherence before the next step can read
  coh.driver.*  the drivers call no step function directly and only verified sampler entry points
Entry points are analysed from an INCOHERENT initial state (no assumption on what preceded the call).
"""
from __future__ import annotations

import ast
import itertools
import time

from vc import front
from vc.common import ob, DISCHARGED, REFUTED, UNDECIDED, Unsupported

STEP_FUNCS = ("propagate", "propagate_one_body", "propagate_1")
ENTRY_POINTS = ["propagate_phaseless", "propagate_phaseless_ad", "propagate_phaseless_ad_1", "propagate_phaseless_ad_nosr",
                "propagate_phaseless_ad_norot", "propagate_phaseless_ad_nosr_norot", "propagate_free"]
PHASELESS_PROPS = ["propagator_restricted", "propagator_unrestricted"]
CPMC_PROPS = ["propagator_cpmc", "propagator_cpmc_slow", "propagator_cpmc_nn", "propagator_cpmc_nn_slow", "propagator_cpmc_continuous"]
WALKER_MODIFIERS = {"_apply_trotprop", "_multiply_constant"}        # return new walkers
_fresh = itertools.count(1)


class Atom:
    def __init__(s, tag="w"):
        s.id = next(_fresh); s.tag = tag

    def __repr__(s):
        return f"{s.tag}{s.id}"


class Sel:
    """jnp.where(mask, a, b) on walker-valued / overlap-valued operands"""

    def __init__(s, mask, a, b):
        s.mask, s.a, s.b = mask, a, b

    def __repr__(s):
        return f"Sel({s.mask},{s.a},{s.b})"


class OVL:       # value of trial.calc_overlap(walkers term, wave_data version)
    def __init__(s, src):
        s.src = src


class RATIO:     # value derived from trial.calc_overlap_ratio_vmap(greens of pd, ...)
    def __init__(s, pd):
        s.pd = pd


class MASK:
    def __init__(s):
        s.id = next(_fresh)


class WD:
    def __init__(s):
        s.v = next(_fresh)


class OTHER:
    pass


class OVLREAD:
    def __init__(s, pd, vo):
        s.pd, s.vo = pd, vo


class PD:
    def __init__(s, walkers=None):
        s.walkers = walkers if walkers is not None else Atom()
        s.vo = None
        s.sync = None
        s.sub = {}

    def clone(s):
        c = PD(s.walkers)
        c.vo, c.sync, c.sub = s.vo, s.sync, dict(s.sub)
        return c


class Closure:
    def __init__(s, node, env, selfobj):
        s.node, s.env, s.selfobj = node, env, selfobj


class Obj:
    def __init__(s, role, cls=None):
        s.role, s.cls = role, cls


class Ret(Exception):
    def __init__(s, v):
        s.v = v


def wkey(w):
    """hashable structural key of a walker term"""
    if isinstance(w, Atom):
        return ("a", w.id)
    if isinstance(w, (list, tuple)):
        return ("l",) + tuple(wkey(x) for x in w)
    if isinstance(w, Sel):
        return ("s", w.mask.id if isinstance(w.mask, MASK) else id(w.mask), wkey(w.a), wkey(w.b))
    return ("o", id(w))


def branch(w, mask_id, which):
    """project a walker term on one branch of the selection with this mask"""
    if isinstance(w, Sel) and isinstance(w.mask, MASK) and w.mask.id == mask_id:
        return branch(w.a if which == 0 else w.b, mask_id, which)
    if isinstance(w, (list, tuple)):
        return [branch(x, mask_id, which) for x in w]
    return w


def coherent(pd, wdv):
    vo = pd.vo
    if vo is None:
        return False
    return _coh(vo, pd.walkers, wdv)


def _coh(vo, walkers, wdv):
    if isinstance(vo, Sel):
        mid = vo.mask.id if isinstance(vo.mask, MASK) else None
        if mid is None:
            return False
        return _coh(vo.a, branch(walkers, mid, 0), wdv) and _coh(vo.b, branch(walkers, mid, 1), wdv)
    if isinstance(vo, tuple) and len(vo) == 2:
        return vo[0] == wkey(walkers) and vo[1] == wdv
    return False


def vo_equal(a, b):
    if a is None or b is None:
        return False
    if isinstance(a, Sel) or isinstance(b, Sel):
        return isinstance(a, Sel) and isinstance(b, Sel) and wkey(Sel(a.mask, 0, 0))[1] == wkey(Sel(b.mask, 0, 0))[1] \
            and vo_equal(a.a, b.a) and vo_equal(a.b, b.b)
    return a == b


class Analysis:
    def __init__(self, name, prop_cls):
        self.name, self.prop_cls = name, prop_cls
        self.obls = []            # (kind, where, ok, detail)
        self.wd = WD()
        self.counter = {}
        self.depth_step = 0
        self.unsupported = []

    def ob(self, kind, where, ok, detail=""):
        k = (kind, where)
        n = self.counter.get(k, 0)
        self.counter[k] = n + 1
        self.obls.append((kind, f"{where}@{n}", bool(ok), detail))

    # ------------------------------------------------------------------ class table
    def find_method(self, cls, name):
        q = front.resolve_method("propagation", cls, name) if cls != "sampler" else front.resolve_method("sampling", "sampler", name)
        if not q:
            return None, None
        node, _ = front.get_function(q)
        return q, node

    # ------------------------------------------------------------------ calls
    def call_func(self, fnode, args, selfobj, env0=None, qual=""):
        env = dict(env0 or {})
        params = [a.arg for a in fnode.args.args]
        if selfobj is not None and params and params[0] == "self":
            env["self"] = selfobj
            params = params[1:]
        for p, a in zip(params, args):
            env[p] = a
        fname = getattr(fnode, "name", "<lambda>")
        is_step = fname in STEP_FUNCS and qual.startswith("propagation.")
        pds = [a for a in args if isinstance(a, PD)]
        if is_step:
            for pd in pds:
                self.ob("entry", f"{qual.split('.', 1)[1]}", coherent(pd, self.wd.v),
                        f"cache src {pd.vo} vs walkers {wkey(pd.walkers)} / wave_data v{self.wd.v}")
                pd.sync = pd.vo
            self.depth_step += 1
        try:
            if isinstance(fnode, ast.Lambda):
                return self.ev(fnode.body, env)
            try:
                for st in fnode.body:
                    self.stmt(st, env)
                r = OTHER()
            except Ret as rr:
                r = rr.v
            if is_step:
                for pd in ([r] if isinstance(r, PD) else []):
                    self.ob("exit", f"{qual.split('.', 1)[1]}", coherent(pd, self.wd.v), f"cache src {pd.vo} vs walkers {wkey(pd.walkers)}")
            return r
        finally:
            if is_step:
                self.depth_step -= 1

    def stmt(self, st, env):
        if isinstance(st, ast.Expr):
            self.ev(st.value, env)
        elif isinstance(st, ast.Return):
            raise Ret(self.ev(st.value, env) if st.value else None)
        elif isinstance(st, ast.FunctionDef):
            env[st.name] = Closure(st, env, env.get("self"))
        elif isinstance(st, (ast.Assign, ast.AnnAssign)):
            if st.value is None:
                return
            v = self.ev(st.value, env)
            for t in (st.targets if isinstance(st, ast.Assign) else [st.target]):
                self.assign(t, v, env)
        elif isinstance(st, ast.AugAssign):
            cur = self.ev(_load(st.target), env)
            val = self.ev(st.value, env)
            res = self.arith(cur, val, st)
            self.assign(st.target, res, env)
        elif isinstance(st, ast.If):
            self.ev(st.test, env)
            for b in st.body:
                self.stmt(b, env)
            for b in st.orelse:
                self.stmt(b, env)
        elif isinstance(st, (ast.Pass, ast.Assert, ast.Raise, ast.Import, ast.ImportFrom)):
            return
        elif isinstance(st, ast.For):
            self.ev(st.iter, env)
            for b in st.body:
                self.stmt(b, env)
        else:
            raise Unsupported("typestate: statement " + type(st).__name__)

    def assign(self, t, v, env):
        if isinstance(t, ast.Name):
            env[t.id] = v
        elif isinstance(t, (ast.Tuple, ast.List)):
            vs = list(v) if isinstance(v, (tuple, list)) and len(v) == len(t.elts) else [OTHER() for _ in t.elts]
            for e, x in zip(t.elts, vs):
                self.assign(e, x, env)
        elif isinstance(t, ast.Subscript):
            # p["key"] = v   or   p["walkers"][k] = v
            if isinstance(t.value, ast.Subscript):
                base = self.ev(t.value.value, env)
                key = _const(t.value.slice)
                sub = _const(t.slice)
                if isinstance(base, PD) and key == "walkers":
                    w = base.walkers
                    comps = list(w) if isinstance(w, (list, tuple)) else [Atom(), Atom()]
                    if isinstance(sub, int) and sub < len(comps):
                        comps[sub] = v if isinstance(v, (Atom, Sel)) else Atom()
                    base.walkers = comps
                return
            base = self.ev(t.value, env)
            key = _const(t.slice)
            if isinstance(base, PD):
                if key == "walkers":
                    base.walkers = v if isinstance(v, (Atom, Sel, list, tuple)) and _is_w(v) else Atom()
                elif key == "overlaps":
                    base.vo = self.ovl_src(v, base)
                    if coherent(base, self.wd.v):
                        base.sync = base.vo
                else:
                    base.sub[key] = v
        elif isinstance(t, ast.Attribute):
            return
        else:
            raise Unsupported("typestate: target " + type(t).__name__)

    def ovl_src(self, v, pd):
        """the (walkers, wave_data) the assigned overlap value was computed from; None if unknown"""
        if isinstance(v, OVL):
            return v.src
        if isinstance(v, Sel) and isinstance(v.a, OVL) and isinstance(v.b, OVL):
            return Sel(v.mask, v.a.src, v.b.src)
        if isinstance(v, OVLREAD):          # p["overlaps"] = p["overlaps"] (or .real of it)
            return v.vo
        if isinstance(v, tuple) and v and v[0] == "RATIO*OVL":
            # C10 contract (assumed here, proved there): ratios * cached overlap of the pre-update walkers is the overlap of the
            # updated walkers, provided the factor read the last coherent cache value
            _, ratio, rd = v
            if rd.pd is pd and vo_equal(rd.vo, pd.sync) and pd.sync is not None:
                return (wkey(pd.walkers), self.wd.v)
            return None
        return None

    # ------------------------------------------------------------------ expressions
    def ev(self, e, env):
        if isinstance(e, ast.Name):
            return env.get(e.id, OTHER())
        if isinstance(e, ast.Constant):
            return OTHER()
        if isinstance(e, (ast.Tuple, ast.List)):
            vals = [self.ev(x, env) for x in e.elts]
            return list(vals) if isinstance(e, ast.List) else tuple(vals)
        if isinstance(e, ast.Lambda):
            return Closure(e, env, env.get("self"))
        if isinstance(e, ast.Subscript):
            b = self.ev(e.value, env)
            k = _const(e.slice)
            if isinstance(b, PD):
                if k == "overlaps":
                    return OVLREAD(b, b.vo)
                if k == "walkers":
                    return ("WALKERS", b)
                return b.sub.get(k, OTHER())
            if isinstance(b, tuple) and b and b[0] == "WALKERS":
                w = b[1].walkers
                if isinstance(w, (list, tuple)) and isinstance(k, int) and k < len(w):
                    return w[k]
                if isinstance(k, int) and not isinstance(w, (list, tuple)):
                    comps = [Atom(), Atom()]
                    b[1].walkers = comps        # an [up, dn] container seen for the first time
                    return comps[k]
                return Atom()
            if isinstance(b, tuple) and b and b[0] == "AT":
                return b
            if isinstance(b, (list, tuple)) and isinstance(k, int) and k < len(b):
                return b[k]
            if isinstance(b, (Atom, Sel)):
                return Atom()          # slice / index of a walker array: a different array
            if isinstance(b, (OVL, OVLREAD, RATIO, MASK)):
                return b
            if not isinstance(e.slice, ast.Constant):
                self.ev(e.slice, env) if isinstance(e.slice, ast.expr) and not isinstance(e.slice, ast.Slice) else None
            return OTHER()
        if isinstance(e, ast.BinOp):
            l, r = self.ev(e.left, env), self.ev(e.right, env)
            return self.arith(l, r, e)
        if isinstance(e, ast.UnaryOp):
            v = self.ev(e.operand, env)
            return v if isinstance(v, (OVL, OVLREAD)) else OTHER()
        if isinstance(e, (ast.Compare, ast.BoolOp)):
            vals = [self.ev(c, env) for c in ast.iter_child_nodes(e) if isinstance(c, ast.expr)]
            if isinstance(e, ast.Compare):
                return MASK()
            return OTHER()
        if isinstance(e, (ast.IfExp, ast.JoinedStr, ast.ListComp, ast.GeneratorExp, ast.Dict, ast.Slice, ast.Starred)):
            for c in ast.iter_child_nodes(e):
                if isinstance(c, ast.expr):
                    try:
                        self.ev(c, env)
                    except Exception:
                        pass
            return OTHER()
        if isinstance(e, ast.Attribute):
            b = self.ev(e.value, env)
            if isinstance(b, Obj):
                return ("BOUND", b, e.attr)
            if isinstance(b, (OVLREAD, OVL)) and e.attr in ("real",):
                return b
            if isinstance(b, (Atom, Sel)) and e.attr in ("real",):
                return b           # CPMC walkers are real-valued (tag 'real-valued'): .real is the identity on them
            if isinstance(b, (Atom, Sel)) and e.attr == "at":
                return ("AT", b)
            if isinstance(b, tuple) and b and b[0] == "AT":
                return b
            if isinstance(b, MASK):
                return ("MASKATTR", b)
            if isinstance(b, RATIO):
                return b
            return ("ATTR", b, e.attr)
        if isinstance(e, ast.Call):
            return self.call(e, env)
        return OTHER()

    def arith(self, l, r, node):
        for x in (l, r):
            if isinstance(x, OVLREAD) and self.depth_step > 0:
                pd = x.pd
                self.ob("read", self.cur_where(node), vo_equal(x.vo, pd.sync) and pd.sync is not None,
                        f"cached overlaps src {x.vo}, last coherent src {pd.sync}")
        if isinstance(l, RATIO) and isinstance(r, OVLREAD) or isinstance(r, RATIO) and isinstance(l, OVLREAD):
            rt, rd = (l, r) if isinstance(l, RATIO) else (r, l)
            if isinstance(getattr(node, "op", None), ast.Mult):
                return ("RATIO*OVL", rt, rd)
        if isinstance(l, RATIO) or isinstance(r, RATIO):
            return l if isinstance(l, RATIO) else r
        return OTHER()

    def cur_where(self, node):
        return self._where[-1] if getattr(self, "_where", None) else "?"

    def call(self, e, env):
        fn = self.ev(e.func, env)
        args = [self.ev(a, env) for a in e.args]
        kw = {k.arg: self.ev(k.value, env) for k in e.keywords if k.arg}
        name = ast.unparse(e.func)
        if name in ("checkpoint", "jax.checkpoint"):
            return args[0]
        if name in ("lax.scan", "jax.lax.scan"):
            f, init = args[0], args[1]
            out = self.invoke(f, [init, OTHER()])
            st = out[0] if isinstance(out, (tuple, list)) and out else init
            out2 = self.invoke(f, [st, OTHER()])          # inductive step from the state an iteration produces
            st2 = out2[0] if isinstance(out2, (tuple, list)) and out2 else st
            ys = out2[1] if isinstance(out2, (tuple, list)) and len(out2) > 1 else OTHER()
            return (st2, ys)
        if name in ("jnp.where", "jax.numpy.where") and len(args) == 3:
            m, a, b = args
            m = m[1] if isinstance(m, tuple) and m and m[0] == "MASKATTR" else m
            if isinstance(a, (OVL,)) and isinstance(b, (OVL,)):
                return Sel(m if isinstance(m, MASK) else MASK(), a, b)
            if _is_w(a) and _is_w(b) and isinstance(a, (Atom, Sel)) and isinstance(b, (Atom, Sel)):
                return Sel(m if isinstance(m, MASK) else MASK(), a, b)
            if isinstance(a, RATIO) or isinstance(b, RATIO):
                return a if isinstance(a, RATIO) else b
            if isinstance(b, (OVLREAD, OVL)) and not isinstance(a, (OVL, OVLREAD)):
                return OTHER()
            return OTHER()
        if isinstance(fn, tuple) and fn and fn[0] == "MASKATTR":       # mask.reshape(...)
            return fn[1]
        if isinstance(fn, tuple) and fn and fn[0] == "AT":             # walker.at[...].mul/set/add(...)
            return Atom() if isinstance(e.func, ast.Attribute) and e.func.attr in ("mul", "set", "add", "multiply") else fn
        if name in ("jnp.einsum", "jnp.dot", "jnp.matmul") and any(isinstance(a, (Atom, Sel)) for a in args):
            return Atom()
        if name in ("jnp.array", "jnp.real", "jnp.asarray") and args:
            return args[0] if isinstance(args[0], (OVL, OVLREAD, Atom, Sel, RATIO)) else OTHER()
        if isinstance(fn, tuple) and fn and fn[0] == "BOUND":
            return self.call_bound(fn[1], fn[2], args, kw, e)
        if isinstance(fn, tuple) and fn and fn[0] == "ATTR":
            base, attr = fn[1], fn[2]
            if isinstance(base, (OVLREAD, OVL)) and attr in ("real", "conj"):
                return base
            return OTHER()
        if isinstance(fn, Closure):
            return self.invoke(fn, args)
        if name.startswith("linalg_utils.qr_vmap"):
            return (Atom() if not name.endswith("uhf") else [Atom(), Atom()], OTHER())
        if name.startswith("sr.stochastic_reconfiguration"):
            w = args[0]
            neww = [Atom(), Atom()] if "uhf" in name else Atom()
            return (neww, OTHER())
        return OTHER()

    def call_bound(self, obj, meth, args, kw, e):
        if obj.role == "TRIAL":
            if meth == "calc_overlap":
                w = args[0]
                wd = args[1] if len(args) > 1 else None
                wt = w[1].walkers if isinstance(w, tuple) and w and w[0] == "WALKERS" else w
                if _is_w(wt) and isinstance(wd, WD):
                    return OVL((wkey(wt), wd.v))
                return OVL(None)
            if meth == "optimize":
                self.wd = WD()
                return self.wd
            if meth == "calc_overlap_ratio_vmap":
                return RATIO(None)
            if meth == "get_init_walkers":
                return Atom()
            return OTHER()
        if obj.role == "HAM":
            return args[0] if args else OTHER()
        cls = obj.cls
        if obj.role == "PROP":
            cls = self.prop_cls
        q, fnode = self.find_method(cls, meth)
        if fnode is None:
            return OTHER()
        if meth in WALKER_MODIFIERS:
            w = args[1] if meth == "_apply_trotprop" else args[0]
            wt = w[1].walkers if isinstance(w, tuple) and w and w[0] == "WALKERS" else w
            return [Atom(), Atom()] if isinstance(wt, (list, tuple)) else Atom()
        self._where = getattr(self, "_where", [])
        self._where.append(q.split(".", 1)[1])
        try:
            return self.call_func(fnode, args, Obj(obj.role, cls), qual=q)
        finally:
            self._where.pop()

    def invoke(self, f, args):
        if isinstance(f, Closure):
            name = getattr(f.node, "name", "<lambda>")
            is_site = name.startswith("scanned_fun") and self.depth_step > 0
            if is_site:
                for pd in [a for a in args if isinstance(a, PD)]:
                    self.ob("entry", self.cur_where(None) + "." + name, coherent(pd, self.wd.v), f"site-scan body: cache src {pd.vo}")
                    pd.sync = pd.vo
            r = self.call_func(f.node, args, None, env0=f.env)
            if is_site and isinstance(r, (tuple, list)) and r and isinstance(r[0], PD):
                self.ob("exit", self.cur_where(None) + "." + name, coherent(r[0], self.wd.v), f"site-scan body returns cache src {r[0].vo} for walkers {wkey(r[0].walkers)}")
            return r
        return OTHER()


def _is_w(v):
    if isinstance(v, (Atom, Sel)):
        return True
    if isinstance(v, (list, tuple)) and v and all(isinstance(x, (Atom, Sel)) for x in v):
        return True
    return False


def _const(s):
    return s.value if isinstance(s, ast.Constant) else None


def _load(t):
    import copy
    t2 = copy.deepcopy(t)
    for n in ast.walk(t2):
        if hasattr(n, "ctx"):
            n.ctx = ast.Load()
    return t2


# ====================================================================================== obligations
def _emit(prefix, A, functions):
    out = []
    for kind, where, ok, detail in A.obls:
        out.append(ob(f"C08.coh.{kind}.{prefix}.{where}", DISCHARGED if ok else REFUTED, backend="pyvc-typestate",
                      detail=("ok: " if ok else "INCOHERENT: ") + detail[:240], witness_class=kind,
                      witness=None if ok else dict(entry_point=prefix, where=where, state=detail), functions=functions))
    return out


def entry_point(entry, prop_cls, uhf=None):
    """analyse one sampler entry point with one propagator class, from an INCOHERENT prop_data"""
    t0 = time.time()
    A = Analysis(entry, prop_cls)
    q, fnode = A.find_method("sampler", entry)
    if fnode is None:
        return [ob(f"C08.coh.entrypoint.{entry}.{prop_cls}", UNDECIDED, detail="entry point not found")]
    container = [Atom(), Atom()] if prop_cls != "propagator_restricted" else Atom()
    pd = PD(container)            # vo = None: nothing assumed about the cache
    amap = {"ham": Obj("HAM"), "prop": Obj("PROP", prop_cls), "trial": Obj("TRIAL"), "prop_data": pd, "wave_data": A.wd}
    params = [a.arg for a in fnode.args.args][1:]
    args = [amap.get(p, OTHER()) for p in params]
    A._where = [f"sampler.{entry}"]
    try:
        res = A.call_func(fnode, args, Obj("SAMPLER", "sampler"), qual=q)
    except Unsupported as e:
        return [ob(f"C08.coh.entrypoint.{entry}.{prop_cls}", UNDECIDED, backend="pyvc-typestate", detail=str(e))]
    fns = [q, f"propagation.{prop_cls}.propagate" if front.resolve_method("propagation", prop_cls, "propagate") else ""]
    fns = [f for f in fns if f] + ["sampling.sampler._block_scan", "sampling.sampler._sr_block_scan", "sampling.sampler._step_scan", "sampling.sampler._ad_block"]
    out = _emit(f"{entry}.{prop_cls}", A, fns)
    nreads = sum(1 for k, *_ in A.obls if k == "read")
    nentry = sum(1 for k, *_ in A.obls if k == "entry")
    if entry != "propagate_free" and (nreads == 0 or nentry == 0):
        out.append(ob(f"C08.coh.vacuity.{entry}.{prop_cls}", UNDECIDED, backend="pyvc-typestate",
                      detail=f"analysis reached {nentry} step-function entries and {nreads} reads: nothing was checked"))
    if out:
        out[0]["wall"] = round(time.time() - t0, 3)
    return out


def step_function(prop_cls, meth="propagate"):
    """a step function analysed on its own from a COHERENT state: reads see the last coherent value and the state it
    returns is coherent (this is the inductive step for every driver/sampler history)"""
    A = Analysis(meth, prop_cls)
    q, fnode = A.find_method(prop_cls, meth)
    if fnode is None or not q.startswith("propagation."):
        return []
    container = [Atom(), Atom()] if prop_cls != "propagator_restricted" else Atom()
    pd = PD(container)
    pd.vo = (wkey(pd.walkers), A.wd.v)
    amap = {"trial": Obj("TRIAL"), "prop_data": pd, "wave_data": A.wd}
    params = [a.arg for a in fnode.args.args][1:]
    args = [amap.get(p, OTHER()) for p in params]
    A._where = [q.split(".", 1)[1]]
    try:
        A.call_func(fnode, args, Obj("PROP", prop_cls), qual=q)
    except Unsupported as e:
        return [ob(f"C08.coh.step.{prop_cls}.{meth}", UNDECIDED, backend="pyvc-typestate", detail=str(e))]
    return _emit(f"step.{prop_cls}", A, [q])


def driver():
    """coh.driver: the drivers never call a step function directly (they would read a cache nobody refreshed) and use only
    sampler entry points whose coherence at first read is established by coh.entry.*"""
    out = []
    src, tree = front.load("driver")
    for fn in [n for n in tree.body if isinstance(n, ast.FunctionDef)]:
        bad, used = [], set()
        for node in ast.walk(fn):
            if isinstance(node, ast.Call) and isinstance(node.func, ast.Attribute):
                recv = ast.unparse(node.func.value)
                if node.func.attr in STEP_FUNCS + ("propagate_free",) and "sampler" not in recv:
                    bad.append(ast.unparse(node)[:80])
                if "sampler" in recv and node.func.attr.startswith("propagate"):
                    used.add(node.func.attr)
        unknown = sorted(used - set(ENTRY_POINTS))
        out.append(ob(f"C08.coh.driver.{fn.name}.no_direct_step", REFUTED if bad else DISCHARGED, backend="pyvc-typestate",
                      detail="direct step-function calls: " + "; ".join(bad) if bad else f"only sampler entry points are used: {sorted(used)}",
                      functions=[f"driver.{fn.name}"], witness_class="direct-step"))
        out.append(ob(f"C08.coh.driver.{fn.name}.entry_points_verified", UNDECIDED if unknown else DISCHARGED, backend="pyvc-typestate",
                      detail=f"sampler entry points used but not analysed: {unknown}" if unknown else "all used entry points are analysed by coh.entry.*",
                      functions=[f"driver.{fn.name}"]))
    return out


def canary():
    """vacuity guard: an entry point analysed WITHOUT its initial refresh must be refuted -- emulated by analysing the block
    scan directly from an incoherent state"""
    A = Analysis("canary", "propagator_restricted")
    q, fnode = A.find_method("sampler", "_block_scan")
    pd = PD(Atom())
    amap = {"prop": Obj("PROP", "propagator_restricted"), "trial": Obj("TRIAL"), "prop_data": pd, "wave_data": A.wd}
    params = [a.arg for a in fnode.args.args][1:]
    A._where = ["sampler._block_scan"]
    A.call_func(fnode, [amap.get(p, OTHER()) for p in params], Obj("SAMPLER", "sampler"), qual=q)
    bad = [o for o in A.obls if not o[2]]
    return [ob("C08.canary.block_scan_from_incoherent_state", REFUTED if bad else DISCHARGED, kind="canary", backend="pyvc-typestate",
               detail=f"{len(bad)} obligations fail from an incoherent state, as they must")]

"""C09 – weights stay real, finite and non-negative; dead walkers stay dead (Engine A, IEEE-754 Float64 theory).

The REAL bodies of the propagate() functions are executed over ONE representative walker lane whose weight is a symbolic
double.  Everything that is not weight arithmetic (trial callees, overlaps, exp/cos/abs of complex quantities, ...) is
HAVOC'ed: replaced by a fresh double ranging over ALL bit patterns including NaN and +-inf, constrained only by what the
library function guarantees (|z| is not negative, cos is in [-1,1] or NaN, exp is not negative).  This over-approximates
the real code, so a proof holds for it.  Invariant Inv(w): w is not NaN, finite, 0 <= w <= 100.
"""
from __future__ import annotations

import z3

from vc.pyvc.engine import run_scenario, Opaque, Obj, is_z3, to_z3, discharge
from vc.pyvc import libmodels as LM
from vc.pyvc import arrmodels as _AM   # noqa
from vc.common import ob, DISCHARGED, REFUTED, UNDECIDED, Unsupported

F64 = z3.Float64()
RNE = z3.RNE()


def fp(x):
    return z3.FPVal(x, F64)


def Inv(w):
    return z3.And(z3.Not(z3.fpIsNaN(w)), z3.Not(z3.fpIsInf(w)), z3.fpGEQ(w, fp(0.0)), z3.fpLEQ(w, fp(100.0)))


def finite(x):
    return z3.And(z3.Not(z3.fpIsNaN(x)), z3.Not(z3.fpIsInf(x)))


class Havoc:
    """installs Float64 / havoc library models for one run"""

    def __init__(self, run):
        self.run = run
        run.uninterp_libs = True
        run.havoc_fp = True
        self.saved = dict(LM._MODELS)
        M = LM._MODELS
        M["np.abs"] = self.abs_
        M["np.cos"] = self.cos_
        M["np.exp"] = self.exp_
        M["np.log"] = self.log_
        M["np.isnan"] = lambda it, a, kw: z3.fpIsNaN(self.as_fp(a[0]))
        M["np.where"] = self.where_
        M["np.sum"] = self.sum_
        M["np.real"] = lambda it, a, kw: self.as_fp(a[0])
        M["np.count_nonzero"] = lambda it, a, kw: self.fresh("cnt")
        M["jax.lax.scan"] = self.scan_
        M["jax.random.split"] = lambda it, a, kw: (Opaque("split0", [a[0]]), Opaque("split1", [a[0]]))
        self.sums = []
        self.logs = []

    def restore(self):
        LM._MODELS.clear()
        LM._MODELS.update(self.saved)

    def fresh(self, base):
        return z3.FP(f"{base}!{next(self.run.counter)}", F64)

    def as_fp(self, v):
        if is_z3(v) and z3.is_fp(v):
            return v
        if isinstance(v, (int, float)) and not isinstance(v, bool):
            return fp(float(v))
        return self.fresh("hv")          # anything else: havoc over all doubles

    def abs_(self, it, a, kw):
        v = a[0]
        if is_z3(v) and z3.is_fp(v):
            return z3.fpAbs(v)
        r = self.fresh("abs")
        self.run.assumed.append(z3.Or(z3.fpIsNaN(r), z3.fpGEQ(r, fp(0.0))))
        return r

    def cos_(self, it, a, kw):
        r = self.fresh("cos")
        self.run.assumed.append(z3.Or(z3.fpIsNaN(r), z3.And(z3.fpGEQ(r, fp(-1.0)), z3.fpLEQ(r, fp(1.0)))))
        return r

    def exp_(self, it, a, kw):
        r = self.fresh("exp")
        self.run.assumed.append(z3.Or(z3.fpIsNaN(r), z3.fpGEQ(r, fp(0.0))))
        return r

    def log_(self, it, a, kw):
        x = self.as_fp(a[0])
        r = self.fresh("log")
        self.logs.append((x, r))
        return r

    def where_(self, it, a, kw):
        c, x, y = a
        isnum = lambda v: (is_z3(v) and z3.is_fp(v)) or (isinstance(v, (int, float)) and not isinstance(v, bool))
        if not (isnum(x) or isnum(y)) or (isinstance(x, Opaque) and isinstance(y, Opaque)):
            return Opaque("where", [c, x, y])        # selection between non-weight quantities (walkers, constants, ...)
        if not is_z3(c):
            c = z3.Bool(f"hc!{next(self.run.counter)}")      # havoc'ed predicate
        return z3.If(c, self.as_fp(x), self.as_fp(y))

    def sum_(self, it, a, kw):
        x = self.as_fp(a[0])
        s = self.fresh("sum")
        self.sums.append((x, s))
        return s

    def scan_(self, it, a, kw):
        """lax.scan over sites: the body is proved to preserve Inv on the weight lane (inductive step); afterwards the carried
        weight is a fresh double satisfying Inv, every other carried value is havoc'ed"""
        f, init = a[0], a[1]
        run = self.run
        carry = dict(init) if isinstance(init, dict) else init
        w0 = self.fresh("wscan")
        run.assumed.append(Inv(w0))
        if isinstance(carry, dict):
            carry = {k: (w0 if k == "weights" else Opaque("carry:" + k)) for k in carry}
        out = it.call_value(f, [carry, Opaque("x")], {})
        c2 = out[0] if isinstance(out, (tuple, list)) else out
        if isinstance(c2, dict) and "weights" in c2:
            w1 = self.as_fp(c2["weights"])
            k = run.registry.setdefault("scan_bodies", 0)
            run.registry["scan_bodies"] = k + 1
            run.prove(f"site{k}.step", Inv(w1), note="site-scan body preserves 0 <= w <= 100, finite, not NaN")
            run.prove(f"site{k}.dead", z3.Implies(z3.fpIsZero(w0), z3.fpIsZero(w1)), note="a dead walker stays dead inside the site loop")
            wout = self.fresh("wafter")
            run.assumed.append(z3.Implies(Inv(w1), Inv(wout)))         # induction over the sites (sound only together with site.step)
            run.assumed.append(z3.Implies(z3.And(Inv(w1), z3.Implies(z3.fpIsZero(w0), z3.fpIsZero(w1))), z3.Implies(z3.fpIsZero(run.registry.get("w_entry_scan", w0)), z3.BoolVal(True))))
            res = {kk: (wout if kk == "weights" else Opaque("after:" + kk)) for kk in c2}
            run.registry.setdefault("scan_dead", []).append((w0, w1, wout))
            return (res, Opaque("ys"))
        return (Opaque("scan.carry"), Opaque("ys"))


_orig_getattr = LM.getattr_


def _getattr(it, o, attr):
    if getattr(it.run, "havoc_fp", False):
        if isinstance(o, Opaque) and attr in ("real", "imag"):
            r = z3.FP(f"hv!{next(it.run.counter)}", F64)
            if getattr(it.run, "havoc_finite", False):
                it.run.assumed.append(finite(r))       # stated hypothesis of the '.fin' obligations: the importance function is a finite number
            return r
        if is_z3(o) and z3.is_fp(o) and attr in ("real",):
            return o
        if is_z3(o) and z3.is_fp(o) and attr == "size":
            return z3.FP(f"size!{next(it.run.counter)}", F64)
    return _orig_getattr(it, o, attr)


LM.getattr_ = _getattr
_orig_binop = LM.binop


def _binop(it, op, a, b):
    if getattr(it.run, "havoc_fp", False):
        fa, fb = is_z3(a) and z3.is_fp(a), is_z3(b) and z3.is_fp(b)
        if (fa and isinstance(b, Opaque)) or (fb and isinstance(a, Opaque)):
            r = z3.FP(f"hv!{next(it.run.counter)}", F64)        # double (op) unknown quantity: havoc
            if getattr(it.run, "havoc_finite", False):
                it.run.assumed.append(finite(r))
            return r
    return _orig_binop(it, op, a, b)


LM.binop = _binop

PROPS = {   # class -> (step function, kind of window)
    "propagator_restricted": "phaseless", "propagator_unrestricted": "phaseless",
    "propagator_cpmc": "cpmc", "propagator_cpmc_slow": "cpmc", "propagator_cpmc_nn": "cpmc", "propagator_cpmc_nn_slow": "cpmc",
    "propagator_cpmc_continuous": "cpmc",
}


def step(cls, meth="propagate", pieces_only=False, finite_ratio=False):
    """C09.w.step / w.dead / w.window / w.shift for one propagator class.  finite_ratio: the same obligations under the property's hypothesis
    'finite, non-zero overlaps' in the form 'the real / imaginary part taken of a non-weight quantity is a finite double' (names get '.fin'):
    under it the continuous-CPMC step is provable, so a change of its constraint / floor / cap tests fails a proof obligation, not only a replay"""
    from vc import front
    q = front.resolve_method("propagation", cls, meth)
    if q is None:
        return []

    def sc(run):
        hv = Havoc(run)
        run.havoc_finite = bool(finite_ratio)
        try:
            for c in PROPS:          # walker-only helpers are not weight arithmetic: abstracted
                for m in ("_apply_trotprop", "_multiply_constant"):
                    run.contracts[f"propagation.{c}.{m}"] = lambda it, *a, **k: Opaque("walkers'")
            if meth == "propagate":
                # assume-guarantee: propagate_one_body is verified on its own (w.<cls>.propagate_one_body.*); inside propagate() it is
                # replaced by its contract 'returns a state whose weight lane satisfies Inv'
                def ob_contract(it, selfobj, trial, ham_data, prop_data, wave_data):
                    wnew = hv.fresh("w_onebody")
                    run.assumed.append(Inv(wnew))
                    win = prop_data["weights"]
                    if is_z3(win) and z3.is_fp(win):
                        run.assumed.append(z3.Implies(z3.fpIsZero(win), z3.fpIsZero(wnew)))
                    res = dict(prop_data)
                    res.update(weights=wnew, overlaps=Opaque("overlaps'"), greens=Opaque("greens'"), walkers=Opaque("walkers'"))
                    run.registry.setdefault("onebody", []).append((prop_data["weights"], wnew))
                    return res
                run.contracts["propagation.propagator_cpmc.propagate_one_body"] = ob_contract
            P = run.construct("propagation", cls, **({"neighbors": ((0, 1),)} if "nn" in cls else {}))
            dt, nw = z3.FP("dt", F64), z3.FP("n_walkers", F64)
            run.assume(finite(dt), z3.fpGT(dt, fp(1e-12)), z3.fpLT(dt, fp(1e3)), z3.fpGEQ(nw, fp(1.0)), z3.fpLEQ(nw, fp(1e9)), finite(nw))
            P.fields["dt"], P.fields["n_walkers"] = dt, nw
            w = z3.FP("w", F64)
            run.assume(Inv(w))
            e_est, shift = z3.FP("e_estimate", F64), z3.FP("shift_in", F64)
            run.assume(finite(e_est))
            pd = {"weights": w, "walkers": [Opaque("wu"), Opaque("wd")] if cls != "propagator_restricted" else Opaque("walkers"),
                  "overlaps": Opaque("overlaps"), "pop_control_ene_shift": shift, "e_estimate": e_est, "greens": Opaque("greens"),
                  "hs_constant": Opaque("hs"), "hs_constant_onsite": Opaque("hs1"), "hs_constant_nn": Opaque("hs2"), "key": Opaque("key")}
            ham = Opaque("ham_data")
            trial = Opaque("trial")
            if meth == "propagate":
                out = run.method(P, meth, trial, ham, pd, Opaque("fields"), Opaque("wave_data"))
            else:
                out = run.method(P, meth, trial, ham, pd, Opaque("wave_data"))
            w2 = out["weights"]
            if not (is_z3(w2) and z3.is_fp(w2)):
                raise Unsupported("weight lost its Float64 value")
            if pieces_only:
                return      # only the per-piece obligations generated on the way (site-scan bodies) are claimed for this class
            run.prove("step", Inv(w2), note="Inv(w) => Inv(w'): finite, not NaN, 0 <= w' <= 100")
            dead_hyp = z3.fpIsZero(w)
            run.prove("dead", z3.Implies(dead_hyp, z3.fpIsZero(w2)), note="w = 0 => w' = 0")
            if PROPS[cls] == "phaseless" and meth == "propagate":
                # the chain is the same for every lane, so the per-step factor is w' at w = 1 (then w' = f because f <= 100)
                run.prove("window", z3.Implies(z3.fpEQ(w, fp(1.0)), z3.Or(z3.fpIsZero(w2), z3.And(z3.fpGEQ(w2, fp(1.0e-3)), z3.fpLEQ(w2, fp(100.0))))),
                          note="the per-step factor (w' at w = 1) is 0 or inside [1e-3, 100]")
            if "pop_control_ene_shift" in out and hv.sums and hv.logs and meth == "propagate":
                x, s_ = hv.sums[-1]
                lx, lr = hv.logs[-1]
                sh = out["pop_control_ene_shift"]
                if is_z3(sh) and z3.is_fp(sh):
                    # sum lemma (stated): all lanes satisfy Inv (w.step) => the sum is finite and 0 <= sum <= 100 n_walkers; 'alive' := sum >= 1e-290
                    alive = z3.And(finite(s_), z3.fpGEQ(s_, fp(1.0e-290)), z3.fpLEQ(s_, z3.fpMul(RNE, fp(100.0), nw)))
                    run.prove("shift.logarg", z3.Implies(alive, z3.And(finite(lx), z3.fpGT(lx, fp(0.0)))),
                              note="log is taken of sum(w')/n_walkers, a positive finite double while the population is alive")
                    # log lemma (stated): the log of a positive finite double is finite and |log| <= 800
                    run.assume(z3.And(finite(lr), z3.fpLEQ(z3.fpAbs(lr), fp(800.0))), z3.fpLEQ(z3.fpAbs(e_est), fp(1.0e300)))
                    run.prove("shift.finite", finite(sh), note="e_estimate - 0.1 log(.)/dt is finite (|log| <= 800, dt >= 1e-12, |e_estimate| <= 1e300)")
        finally:
            hv.restore()
    return run_scenario(f"C09.w.{cls}.{meth}" + (".fin" if finite_ratio else ""), sc, functions=[q], timeout_ms=180000, no_exception="noexc")


def init_weights():
    """C09.w.init: init_prop_data sets every weight to 1 (jnp.ones)"""
    import ast
    from vc import front
    out = []
    for cls in ("propagator_restricted", "propagator_unrestricted"):
        q = front.resolve_method("propagation", cls, "init_prop_data")
        fn, _ = front.get_function(q)
        ok = any(isinstance(s, ast.Assign) and ast.unparse(s.targets[0]) == "prop_data['weights']" and ast.unparse(s.value).replace("jax.numpy", "jnp") == "jnp.ones(self.n_walkers)"
                 for s in fn.body)
        out.append(ob(f"C09.w.init.{cls}", DISCHARGED if ok else UNDECIDED, backend="pyvc-struct", detail="weights := ones(n_walkers): Inv holds initially", functions=[q]))
    return out


def block_bookkeeping():
    """C09.w.killed / w.blockshift: _block_scan's shift update and the killed-walker fraction"""
    out = []

    def lem(name, hyps, goal, note, fns):
        st, be, det, mod, wl = discharge(dict(hyps=hyps, goal=goal), 120000)
        out.append(ob("C09." + name, st, backend=be, wall=wl, detail=note if st == DISCHARGED else det, witness=mod, functions=fns))
    # killed fraction: integers 0 <= killed_per_block <= n_walkers, accumulated over n_sr*n_ene blocks, divided by n_sr*n_ene*n_walkers
    k, nb, nwk = z3.Reals("killed nblocks nwalkers")
    lem("w.killed", [nb >= 1, nwk >= 1, k >= 0, k <= nb * nwk], z3.And(k / (nb * nwk) >= 0, k / (nb * nwk) <= 1),
        "0 <= n_killed/(n_sr n_ene n_walkers) <= 1 given 0 <= killed per block <= n_walkers (size - count_nonzero)", ["sampling.sampler._ad_block", "sampling.sampler._block_scan"])
    # block shift: 0.9*shift + 0.1*block_energy is finite if both are finite and of moderate size
    s, e = z3.FP("shift", F64), z3.FP("block_energy", F64)
    big = fp(1e300)
    new = z3.fpAdd(RNE, z3.fpMul(RNE, fp(0.9), s), z3.fpMul(RNE, fp(0.1), e))
    lem("w.blockshift", [finite(s), finite(e), z3.fpLEQ(z3.fpAbs(s), big), z3.fpLEQ(z3.fpAbs(e), big)], finite(new),
        "0.9*shift + 0.1*block_energy is finite for finite operands below 1e300", ["sampling.sampler._block_scan"])
    return out


def block_energy():
    """C09.w.blockenergy: the block energy sum(e*w)/sum(w) is finite when the capped energies are finite and some walker is alive:
    executed on the real _block_scan statements via the estimator contract of C12 (est.block) - here only the Float64 fact
    that a finite numerator over a positive finite denominator (not subnormal-tiny) is finite."""
    out = []
    n, d = z3.FP("num", F64), z3.FP("den", F64)
    st, be, det, mod, wl = discharge(dict(hyps=[finite(n), finite(d), z3.fpGEQ(d, fp(1e-8)), z3.fpLEQ(z3.fpAbs(n), fp(1e290))], goal=finite(z3.fpDiv(RNE, n, d))), 120000)
    out.append(ob("C09.w.blockenergy", st, backend=be, wall=wl, detail="finite/|positive >= 1e-8| is finite (weights are 0 or >= 1e-8-ish after the constraints)" if st == DISCHARGED else det,
                  witness=mod, functions=["sampling.sampler._block_scan"]))
    return out


def canary():
    def sc(run):
        hv = Havoc(run)
        try:
            run.contracts["propagation.propagator_restricted._apply_trotprop"] = lambda it, *a, **k: Opaque("walkers'")
            P = run.construct("propagation", "propagator_restricted")
            w = z3.FP("w", F64)
            run.assume(Inv(w))
            pd = {"weights": w, "walkers": Opaque("walkers"), "overlaps": Opaque("overlaps"), "pop_control_ene_shift": z3.FP("s", F64), "e_estimate": z3.FP("e", F64)}
            out = run.method(P, "propagate", Opaque("trial"), Opaque("ham"), pd, Opaque("fields"), Opaque("wd"))
            run.prove("below_50", z3.fpLEQ(out["weights"], fp(50.0)), kind="canary")
        finally:
            hv.restore()
    return run_scenario("C09.canary", sc, timeout_ms=60000)

"""C10 – sidecar contracts for the CPMC pieces (uhf_cpmc / ghf_cpmc helpers, HS constants, site-loop bodies).

cpmc.ratio / cpmc.update  for EVERY ordered pair of spin-orbitals and symbolic update constants Delta = diag(c0 at i, c1 at j):
      ratio = det(I + G Delta),  green' = (I + Delta)(I + G Delta)^-1 G     (the code stores G^T)
   written in push-through (Woodbury) form the contract holds for ANY matrix G, so G is a matrix of free symbols.
cpmc.woodbury  bridge to the statement: for G = calc_full_green(phi):  det(I+G Delta) = overlap((I+Delta)phi)/overlap(phi) and
      (I+Delta)(I+G Delta)^-1 G = calc_full_green((I+Delta) phi)         (identity in trial, walker, c0, c1)
cpmc.hs / cpmc.hsop  the Hubbard-Stratonovich constants of init_prop_data satisfy a+b = 2, ab = exp(-dt U) and
      1/2 (a^n_up b^n_dn + b^n_up a^n_dn) = exp(-dt U n_up n_dn)  on the four states of one site.
"""
from __future__ import annotations

import ast
import time
from fractions import Fraction

import numpy as np

from vc.common import ob, DISCHARGED, REFUTED, UNDECIDED, Unsupported
from vc.jxvc import harness as H
from vc.jxvc.field import Fr, det_sym, inv_sym, is_obj
from vc.jxvc.interp import evaluate
from vc import front

WF = "wavefunctions"


def _eye(sp, n):
    a = np.empty((n, n), dtype=object)
    for i in range(n):
        for j in range(n):
            a[i, j] = sp.one if i == j else sp.zero
    return a


def _spec(kind, sp, norb, Gt, c, si, i, sj, j):
    """push-through form; Gt is what the code stores (transposed Green's function)"""
    one = sp.one
    if kind == "uhf_cpmc":
        out = Gt.copy()
        ratio = one
        for s_ in (0, 1):
            D = np.empty((norb, norb), dtype=object)
            D[:] = sp.zero
            hit = False
            for (ss, k), cc in (((si, i), c[0]), ((sj, j), c[1])):
                if ss == s_:
                    D[k, k] = D[k, k] + cc
                    hit = True
            if not hit:
                continue
            G = Gt[s_].T
            A = _eye(sp, norb) + G.dot(D)
            ratio = ratio * det_sym(A)
            out[s_] = ((_eye(sp, norb) + D).dot(inv_sym(A)).dot(G)).T
        return ratio, out
    n = 2 * norb
    D = np.empty((n, n), dtype=object)
    D[:] = sp.zero
    for (ss, k), cc in (((si, i), c[0]), ((sj, j), c[1])):
        D[k + ss * norb, k + ss * norb] = D[k + ss * norb, k + ss * norb] + cc
    G = Gt.T
    A = _eye(sp, n) + G.dot(D)
    return det_sym(A), ((_eye(sp, n) + D).dot(inv_sym(A)).dot(G)).T


def pairs(norb):
    out = [((0, i), (1, j)) for i in range(norb) for j in range(norb)]
    out += [((1, i), (0, j)) for i in range(norb) for j in range(norb)]
    out += [((s, i), (s, j)) for s in (0, 1) for i in range(norb) for j in range(norb) if i != j]
    return out


def update(kind, norb):
    """C10.cpmc.ratio / cpmc.update [kind, every ordered pair]"""
    H.setup_repo()
    import jax.numpy as jnp
    from ad_afqmc import wavefunctions as wf
    inp = H.Inputs(0)
    gshape = (2, norb, norb) if kind == "uhf_cpmc" else (2 * norb, 2 * norb)
    hg = inp.declare("g", gshape)
    hc = inp.declare("c", (2,))
    inp.build()
    G, c = hg["V"], hc["V"]
    trial = getattr(wf, kind)(norb, (1, 1))
    out = []
    fns = [f"{WF}.{kind}.calc_overlap_ratio", f"{WF}.{kind}.update_greens_function"]

    def upd(green, idx, cc):
        r = trial.calc_overlap_ratio(green, idx, cc)
        return r, trial.update_greens_function(green, r, idx, cc)
    for (si, i), (sj, j) in pairs(norb):
        t0 = time.time()
        idx = np.array([[si, i], [sj, j]])
        (r, Gn), it = evaluate(inp.sp, upd, (G.s, idx, c.s), (jnp.asarray(G.x), jnp.asarray(idx), jnp.asarray(c.x)))
        r0, G0 = _spec(kind, inp.sp, norb, G.s, c.s, si, i, sj, j)
        tagp = f"[{kind},norb={norb},({si},{i})({sj},{j})]"
        o1 = H.identity(f"C10.cpmc.ratio{tagp}", r, r0, functions=fns[:1], inputs=inp, t0=t0, note="ratio == det(I + G Delta) for an arbitrary matrix G")
        o2 = H.identity(f"C10.cpmc.update{tagp}", Gn, G0, functions=fns, inputs=inp, t0=t0,
                        note="green' == ((I+Delta)(I+G Delta)^-1 G)^T for an arbitrary matrix G")
        o2["witness_class"] = "same-spin" if si == sj else "opposite-spin"
        nr, nG = upd(jnp.asarray(G.x), jnp.asarray(idx), jnp.asarray(c.x))
        for o, sym_v, nat in ((o1, r, nr), (o2, Gn, nG)):
            x = H.crosscheck(o["name"], inp, sym_v, nat)
            if x:
                out.append(x)
            if o["status"] == REFUTED:
                _replay_update(o, kind, norb, si, i, sj, j)
            out.append(o)
    return out


def _replay_update(o, kind, norb, si, i, sj, j):
    """native replay: from-scratch Green's function / overlap of the row-scaled walker vs the incremental update"""
    import jax.numpy as jnp
    from ad_afqmc import wavefunctions as wf
    rng = np.random.default_rng(5)
    nel = (2, 1) if norb >= 3 else (1, 1)
    trial = getattr(wf, kind)(norb, nel)
    if kind == "uhf_cpmc":
        wave = {"mo_coeff": [jnp.array(rng.normal(size=(norb, nel[0]))), jnp.array(rng.normal(size=(norb, nel[1])))]}
    else:
        wave = {"mo_coeff": jnp.array(rng.normal(size=(2 * norb, nel[0] + nel[1])))}
    wu, wd = rng.normal(size=(norb, nel[0])), rng.normal(size=(norb, nel[1]))
    G = trial.calc_full_green(jnp.array(wu), jnp.array(wd), wave)
    c = jnp.array([0.37, -0.21])
    idx = jnp.array([[si, i], [sj, j]])
    ratio = trial.calc_overlap_ratio(G, idx, c)
    Gn = trial.update_greens_function(G, ratio, idx, c)
    w2 = [wu.copy(), wd.copy()]
    w2[si][i, :] *= (1 + 0.37)
    w2[sj][j, :] *= (1 - 0.21)
    G2 = trial.calc_full_green(jnp.array(w2[0]), jnp.array(w2[1]), wave)
    r2 = trial._calc_overlap(jnp.array(w2[0]), jnp.array(w2[1]), wave) / trial._calc_overlap(jnp.array(wu), jnp.array(wd), wave)
    er, eg = float(abs(ratio - r2)), float(jnp.abs(Gn - G2).max())
    bad = (er > 1e-9) if ".ratio" in o["name"] else (eg > 1e-9)
    o["replayed"] = bool(bad)
    o["witness"] = dict(o.get("witness") or {}, native=dict(pair=[[si, i], [sj, j]], constants=[0.37, -0.21], ratio_err=er, green_err=eg, nelec=nel))


def woodbury(kind, norb, nu, nd):
    """C10.cpmc.woodbury: the push-through expressions evaluated at G = calc_full_green(phi) are the from-scratch quantities
    of the row-scaled walker (I+Delta) phi; checked for one same-spin and one opposite-spin pair per shape."""
    H.setup_repo()
    import jax.numpy as jnp
    from ad_afqmc import wavefunctions as wf
    out = []
    for (si, i), (sj, j) in ([((0, 0), (1, 0)), ((0, 0), (1, norb - 1))] + ([((0, 0), (0, 1))] if nu >= 1 and norb >= 2 else [])):
        t0 = time.time()
        inp = H.Inputs(1)
        hwu, hwd = inp.declare("wu", (norb, nu)), inp.declare("wd", (norb, nd))
        hc = inp.declare("c", (2,))
        if kind == "uhf_cpmc":
            htu, htd = inp.declare("tu", (norb, nu)), inp.declare("td", (norb, nd))
        else:
            ht = inp.declare("t", (2 * norb, nu + nd))
        inp.build()
        sp = inp.sp
        trial = getattr(wf, kind)(norb, (nu, nd))
        wave = dict(mo_coeff=[htu["V"], htd["V"]]) if kind == "uhf_cpmc" else dict(mo_coeff=ht["V"])
        import jax
        leaves = lambda t, f: jax.tree_util.tree_map(f, t, is_leaf=lambda x: isinstance(x, H.V))
        wave_s, wave_x = leaves(wave, lambda v: v.s), leaves(wave, lambda v: jnp.asarray(v.x))
        wu, wd, c = hwu["V"], hwd["V"], hc["V"]
        G, _ = evaluate(sp, trial.calc_full_green, (wu.s, wd.s, wave_s), (jnp.asarray(wu.x), jnp.asarray(wd.x), wave_x))
        r0, G0 = _spec(kind, sp, norb, G, c.s, si, i, sj, j)
        # row-scaled walker
        w2 = [wu.s.copy(), wd.s.copy()]
        w2[si][i, :] = w2[si][i, :] * (sp.one + c.s[0])
        w2[sj][j, :] = w2[sj][j, :] * (sp.one + c.s[1])
        G2, _ = evaluate(sp, trial.calc_full_green, (w2[0], w2[1], wave_s), (jnp.asarray(wu.x), jnp.asarray(wd.x), wave_x))
        O1, _ = evaluate(sp, trial._calc_overlap, (wu.s, wd.s, wave_s), (jnp.asarray(wu.x), jnp.asarray(wd.x), wave_x))
        O2, _ = evaluate(sp, trial._calc_overlap, (w2[0], w2[1], wave_s), (jnp.asarray(wu.x), jnp.asarray(wd.x), wave_x))
        tagp = f"[{kind},norb={norb},nel={nu}+{nd},({si},{i})({sj},{j})]"
        out.append(H.identity(f"C10.cpmc.woodbury.ratio{tagp}", r0 * O1, O2, functions=[f"{WF}.{kind}.calc_full_green", f"{WF}.{kind}._calc_overlap"],
                              inputs=inp, t0=t0, note="det(I + G Delta) * overlap(phi) == overlap((I+Delta) phi)"))
        out.append(H.identity(f"C10.cpmc.woodbury.green{tagp}", G0, G2, functions=[f"{WF}.{kind}.calc_full_green"], inputs=inp, t0=t0,
                              note="(I+Delta)(I+G Delta)^-1 G == calc_full_green((I+Delta) phi)"))
    return out


def hs_constants():
    """C10.cpmc.hs / hsop: the three statements of init_prop_data that build hs_constant are executed with sympy objects"""
    import sympy as sp
    t0 = time.time()
    out = []
    for cls in ("propagator_cpmc", "propagator_cpmc_nn", "propagator_cpmc_nn_slow"):
        q = front.resolve_method("propagation", cls, "init_prop_data")
        fn, _ = front.get_function(q)
        dt, U, U1 = sp.symbols("dt U U1", positive=True)

        class _J:
            arccosh = staticmethod(sp.acosh)
            exp = staticmethod(sp.exp)
            array = staticmethod(lambda x: sp.Matrix(x))

        class _Self:
            pass
        s_ = _Self()
        s_.dt = dt
        ns = {"jnp": _J, "self": s_, "ham_data": {"u": U, "u_1": U1}, "prop_data": {}}
        stmts = [s for s in fn.body if isinstance(s, ast.Assign) and any(k in ast.unparse(s) for k in ("gamma", "const", "hs_constant"))]
        name = f"C10.cpmc.hs.{cls}"
        try:
            for s in stmts:
                exec(compile(ast.Module([s], []), "<init_prop_data>", "exec"), ns)
            simp = lambda e: sp.simplify(sp.expand(e.rewrite(sp.log).rewrite(sp.exp)))
            keys = [k for k in ns["prop_data"] if k.startswith("hs_constant")]
            if not keys:
                raise ValueError("no hs_constant built")
            for k in keys:
                M = ns["prop_data"][k]
                Uk = U1 if k.endswith("_nn") else U
                a, b = M[0, 0], M[0, 1]
                ok = (simp(M[1, 0] - b) == 0 and simp(M[1, 1] - a) == 0 and simp(a + b - 2) == 0 and simp(a * b - sp.exp(-dt * Uk)) == 0)
                out.append(ob(f"{name}.{k}", DISCHARGED if ok else REFUTED, kind="proof", backend="sympy", wall=time.time() - t0, functions=[q],
                              detail=f"{k} = [[a,b],[b,a]] with a+b = 2 and ab = exp(-dt {Uk})" if ok else
                              f"relations fail: a+b-2 -> {simp(a + b - 2)}, ab-exp(-dt {Uk}) -> {simp(a * b - sp.exp(-dt * Uk))}, layout {M}"))
        except Exception as e:   # noqa
            out.append(ob(name, UNDECIDED, backend="sympy", detail="could not evaluate the constant-building statements: " + repr(e)[:200], functions=[q]))
    a, b, E = sp.symbols("a b E")
    rel = {b: 2 - a}
    okop = all(sp.simplify((sp.Rational(1, 2) * (a ** nu * b ** nd + b ** nu * a ** nd)).subs(rel) - (1 if nu * nd == 0 else a * (2 - a))) == 0
               for nu in (0, 1) for nd in (0, 1))
    out.append(ob("C10.cpmc.hsop", DISCHARGED if okop else REFUTED, kind="proof", backend="sympy",
                  detail="1/2 (a^n_up b^n_dn + b^n_up a^n_dn) = exp(-dt U n_up n_dn) on the 4 states of a site, given a+b=2, ab=exp(-dtU)"))
    return out


def canary():
    H.setup_repo()
    import jax.numpy as jnp
    from ad_afqmc import wavefunctions as wf
    inp = H.Inputs(0)
    hg, hc = inp.declare("g", (4, 4)), inp.declare("c", (2,))
    inp.build()
    trial = wf.ghf_cpmc(2, (1, 1))
    idx = np.array([[0, 0], [1, 1]])
    r, _ = evaluate(inp.sp, trial.calc_overlap_ratio, (hg["V"].s, idx, hc["V"].s), (jnp.asarray(hg["V"].x), jnp.asarray(idx), jnp.asarray(hc["V"].x)))
    r0, _ = _spec("ghf_cpmc", inp.sp, 2, hg["V"].s, hc["V"].s, 0, 0, 1, 1)
    o = H.identity("C10.canary.ratio_plus_1", r, r0 + 1)
    o["kind"] = "canary"
    return [o]


# ====================================================================================== site-loop bodies
class _Captured(Exception):
    def __init__(self, carry, ys):
        self.carry, self.ys = carry, ys


class _PredTag:
    """result of a constraint test `x < 1e-8`: remembers WHICH quantity was tested, so that the select it feeds can be checked"""

    def __init__(self, operand):
        self.operand = operand


class _Oracle:
    """comparison oracle for the loop-body contract: constraint tests against the literals 1e-8 / 100 are false ('no
    constraint active'); the comparison of the uniform random number with the acceptance probability returns the
    enumerated bit and records the probability it was compared with."""

    def __init__(self, bit):
        self.bit, self.probs, self.constraints = bit, [], 0
        self.guards = []         # per constraint select: True if the value passed through when the test is false IS the tested quantity

    def select(self, it, e, ins):
        """select_n fed by a tagged constraint test: `where(x < 1e-8, 0, y)` must have y == x (each field value is constrained by its OWN ratio)"""
        pred = ins[0]
        if not (is_obj(pred) and any(isinstance(v, _PredTag) for v in pred.reshape(-1))):
            return None
        keep = ins[1] if is_obj(ins[1]) else None       # select_n(pred, case_false, case_true): jnp.where(c, 0, y) -> case_false = y
        ok = keep is not None and np.shape(keep) == np.shape(pred)
        if ok:
            for idx in np.ndindex(*pred.shape):
                t = pred[idx]
                ok = ok and isinstance(t, _PredTag) and (keep[idx] - t.operand).iszero()
        self.guards.append(bool(ok))
        if keep is None:
            raise Unsupported("constraint select without a symbolic pass-through value")
        return keep              # 'no constraint active' (as before): the pass-through value

    def primitive(self, it, p, e, ins):
        if p in ("lt", "gt", "le", "ge"):
            a, b = ins
            lit = None
            for x in (a, b):
                if not is_obj(x) and np.ndim(x) == 0 and float(np.real(x)) in (1.0e-8, 100.0):
                    lit = float(np.real(x))
            shape = np.broadcast(np.asarray(a, dtype=object), np.asarray(b, dtype=object)).shape
            if lit == 1.0e-8 and p == "lt" and is_obj(a) and not is_obj(b):
                self.constraints += 1
                out = np.empty(shape, dtype=object)
                aa = np.broadcast_to(a, shape)
                for idx in np.ndindex(*shape):
                    out[idx] = _PredTag(aa[idx])
                return out
            if lit is not None:
                self.constraints += 1
                return np.zeros(shape, dtype=bool)
            if is_obj(b) and not is_obj(a) and p == "lt":      # rns < prob
                self.probs.append(b)
                return np.full(shape, bool(self.bit))
            return None
        return None


def site_body(kind, fast=True, norb=2, nn=False):
    """C10.cpmc.site.{fast,slow}: the REAL scan body of propagate (one site iteration, extracted from the traced jaxpr) maps an
    invariant state  greens = calc_full_green(walkers), overlaps = overlap(walkers)  to an invariant state with
    walkers' = D_x walkers, weights' = w * norm, norm = [O(D_0 phi) + O(D_1 phi)] / (2 O(phi)), and compares the uniform number
    with O(D_0 phi)/(O(D_0 phi)+O(D_1 phi)); for both field values x, every site, one-body halves replaced by the identity."""
    H.setup_repo()
    import jax
    import jax.numpy as jnp
    from ad_afqmc import wavefunctions as wf, propagation
    out = []
    nel = (1, 1)
    if nn:
        pcls = propagation.propagator_cpmc_nn if fast else propagation.propagator_cpmc_nn_slow
    else:
        pcls = propagation.propagator_cpmc if fast else propagation.propagator_cpmc_slow
    which = ("nn-" if nn else "") + ("fast" if fast else "slow")
    for site in range(norb):
        for bit in (1, 0):
            t0 = time.time()
            inp = H.Inputs(2)
            hwu, hwd = inp.declare("wu", (1, norb, 1)), inp.declare("wd", (1, norb, 1))
            hh = inp.declare("h", (2, 2))
            hw = inp.declare("wt", (1,))
            if kind == "uhf_cpmc":
                htu, htd = inp.declare("tu", (norb, 1)), inp.declare("td", (norb, 1))
            else:
                ht = inp.declare("t", (2 * norb, 2))
            inp.build()
            sp = inp.sp
            trial = getattr(wf, kind)(norb, nel)
            prop = pcls(dt=0.05, n_walkers=1, **({"neighbors": ((0, 1),)} if nn else {}))
            wave = dict(mo_coeff=[htu["V"], htd["V"]]) if kind == "uhf_cpmc" else dict(mo_coeff=ht["V"])
            leaves = lambda t, f: jax.tree_util.tree_map(f, t, is_leaf=lambda x: isinstance(x, H.V))
            wave_s, wave_x = leaves(wave, lambda v: v.s), leaves(wave, lambda v: jnp.asarray(v.x))
            wu, wd = hwu["V"], hwd["V"]
            full_green = lambda a, b: evaluate(sp, trial.calc_full_green, (a, b, wave_s), (jnp.asarray(wu.x[0]), jnp.asarray(wd.x[0]), wave_x))[0]
            overlap = lambda a, b: evaluate(sp, trial._calc_overlap, (a, b, wave_s), (jnp.asarray(wu.x[0]), jnp.asarray(wd.x[0]), wave_x))[0]
            G0 = full_green(wu.s[0], wd.s[0])
            O0 = overlap(wu.s[0], wd.s[0])
            O0 = O0[()] if isinstance(O0, np.ndarray) else O0
            ov_arr = np.empty((1,), dtype=object)
            ov_arr[0] = O0
            pd_s = dict(walkers=[wu.s, wd.s], weights=hw["V"].s, overlaps=ov_arr, greens=G0[None], hs_constant=hh["V"].s,
                        pop_control_ene_shift=np.array(0.0), e_estimate=np.array(0.0))
            if nn:
                pd_s.update(hs_constant_onsite=hh["V"].s, hs_constant_nn=np.asarray(hh["V"].x), key=np.asarray(jax.random.PRNGKey(3)))
            Gx = trial.calc_full_green(jnp.asarray(wu.x[0]), jnp.asarray(wd.x[0]), wave_x)
            pd_x = dict(walkers=[jnp.asarray(wu.x), jnp.asarray(wd.x)], weights=jnp.asarray(hw["V"].x),
                        overlaps=jnp.asarray([trial._calc_overlap(jnp.asarray(wu.x[0]), jnp.asarray(wd.x[0]), wave_x)]).real,
                        greens=Gx[None], hs_constant=jnp.asarray(hh["V"].x), pop_control_ene_shift=jnp.asarray(0.0), e_estimate=jnp.asarray(0.0))
            if nn:
                pd_x.update(hs_constant_onsite=jnp.asarray(hh["V"].x), hs_constant_nn=jnp.asarray(hh["V"].x), key=jax.random.PRNGKey(3))
            ham_x = dict(exp_h1=jnp.array([jnp.eye(norb), jnp.eye(norb)]))
            ham_s = dict(exp_h1=np.array([np.eye(norb), np.eye(norb)]))
            fields_x = jnp.zeros((1, norb))
            oracle = _Oracle(bit)
            treedef = jax.tree_util.tree_structure(pd_x)
            nleaf = treedef.num_leaves

            def one_body(it, e, ins):       # contract of propagate_one_body with exp_h1 = identity is irrelevant here: pass the state through
                outs = e.outvars
                # outputs of propagate_one_body are the prop_data leaves (same pytree): return the matching inputs
                k = len(ins) - len(outs)
                cand = [x for x in ins]
                # locate prop_data leaves among the inputs by shape signature (they come in pytree order)
                res, j = [], 0
                for ov in outs:
                    while j < len(cand) and tuple(np.shape(cand[j])) != tuple(ov.aval.shape):
                        j += 1
                    res.append(cand[j])
                    j += 1
                return res

            def scan_hook(it, e, ins):
                P = e.params
                consts, carry, xs = [list(t) for t in P["ft_in"].update(ins).unpack()]
                if not (len(xs) == 1 and not is_obj(xs[0]) and np.asarray(xs[0]).dtype.kind in "iu" and P["length"] == norb):
                    return None          # not the site scan (e.g. a batching scan inside calc_overlap)
                cj = P["jaxpr"]
                xi = [np.asarray(site, dtype=np.asarray(x).dtype) for x in xs]
                it.scan_hook = None          # scans nested in the body (batching scans of calc_overlap) are ordinary scans
                o = it.run(cj.jaxpr, cj.consts, list(consts) + list(carry) + xi)
                c2, ys = [list(t) for t in P["ft_out"].update(o).unpack()]
                raise _Captured(c2, ys)
            try:
                evaluate(sp, lambda hm, pdd, ff, wv: prop.propagate(trial, hm, pdd, ff, wv), (ham_s, pd_s, np.zeros((1, norb)), wave_s), (ham_x, pd_x, fields_x, wave_x),
                         intercept={"propagate_one_body": one_body}, series=oracle, scan_hook=scan_hook, prim_hook={"select_n": oracle.select})
                raise Unsupported("no site scan reached in propagate")
            except _Captured as cap:
                full = jax.tree_util.tree_leaves(pd_s, is_leaf=lambda x: isinstance(x, np.ndarray))
                merged, j = [], 0
                for leaf in full:        # loop-invariant leaves are hoisted out of the carry by JAX: match the rest in pytree order
                    if j < len(cap.carry) and tuple(np.shape(cap.carry[j])) == tuple(np.shape(leaf)):
                        merged.append(cap.carry[j])
                        j += 1
                    else:
                        merged.append(leaf)
                carry = jax.tree_util.tree_unflatten(treedef, merged) if j == len(cap.carry) else None
            if carry is None:
                raise Unsupported("scan carry is not the prop_data pytree")
            # contract
            h = hh["V"].s
            k = h[0] if bit else h[1]
            def scaled(kk):
                a, b = wu.s[0].copy(), wd.s[0].copy()
                a[site, :] = a[site, :] * kk[0]
                b[site, :] = b[site, :] * kk[1]
                return a, b
            a1, b1 = scaled(k)
            OD = []
            for kk in (h[0], h[1]):
                aa, bb = scaled(kk)
                v = overlap(aa, bb)
                OD.append(v[()] if isinstance(v, np.ndarray) else v)
            half = sp.const(0.5)
            norm = (OD[0] + OD[1]) * half / O0
            G1 = full_green(a1, b1)
            O1 = OD[0] if bit else OD[1]
            tagp = f"[{kind},{which},site={site},x={bit}]"
            fns = [f"propagation.{pcls.__name__}.propagate", f"{WF}.{kind}.calc_overlap_ratio", f"{WF}.{kind}.update_greens_function"]
            mk = lambda nm, got, want, note: out.append(H.identity(f"C10.cpmc.site.{nm}{tagp}", got, want, functions=fns, inputs=inp, t0=t0, note=note))
            mk("walkers", np.concatenate([np.asarray(carry["walkers"][0]).reshape(-1), np.asarray(carry["walkers"][1]).reshape(-1)]),
               np.concatenate([a1.reshape(-1), b1.reshape(-1)]), "walkers' = D_x walkers (row of the site scaled by the chosen HS constants)")
            mk("overlaps", np.asarray(carry["overlaps"]).reshape(-1), np.array([O1], dtype=object), "overlaps' = overlap(walkers')")
            if fast:
                mk("greens", np.asarray(carry["greens"]).reshape(-1), np.asarray(G1).reshape(-1), "greens' = calc_full_green(walkers')  (invariant re-established)")
            mk("weights", np.asarray(carry["weights"]).reshape(-1), np.array([hw["V"].s[0] * norm], dtype=object),
               "weights' = w * [O(D_0 phi) + O(D_1 phi)] / (2 O(phi))")
            gd = oracle.guards
            o_g = ob(f"C10.cpmc.site.constraint{tagp}", DISCHARGED if (len(gd) >= 2 and all(gd)) else (REFUTED if gd and not all(gd) else UNDECIDED), kind="bounded", backend="ring",
                     functions=fns, wall=time.time() - t0, witness_class="" if (len(gd) >= 2 and all(gd)) else "constraint-guards-other-field",
                     detail=f"each constrained-path test `ratio < 1e-8` zeroes the ratio it tested (one per field value): {gd}",
                     witness=None if (len(gd) >= 2 and all(gd)) else dict(guards=gd))
            out.append(o_g)
            if len(oracle.probs) == 1:
                pr = np.asarray(oracle.probs[0], dtype=object).reshape(-1)
                mk("prob", pr, np.array([OD[0] / (OD[0] + OD[1])], dtype=object), "the uniform number is compared with O(D_0 phi)/(O(D_0 phi)+O(D_1 phi))")
            else:
                out.append(ob(f"C10.cpmc.site.prob{tagp}", UNDECIDED, kind="bounded", detail=f"{len(oracle.probs)} probability comparisons seen"))
    return out


class _OracleSeq(_Oracle):
    """like _Oracle, but the k-th comparison of a uniform number with an acceptance probability returns the k-th enumerated bit"""

    def __init__(self, bits):
        super().__init__(bits[0])
        self.bits = list(bits)

    def primitive(self, it, p, e, ins):
        if p == "lt" and is_obj(ins[1]) and not is_obj(ins[0]) and not (np.ndim(ins[0]) == 0 and float(np.real(ins[0])) in (1.0e-8, 100.0)):
            k = len(self.probs)
            self.bit = self.bits[k] if k < len(self.bits) else self.bits[-1]
        return super().primitive(it, p, e, ins)


def bond_body(kind, fast=True, norb=2, bits=(1, 1, 1, 1), bond=(1, 0)):
    """C10.cpmc.bond.{fast,slow}: the REAL neighbour-bond scan body of the nearest-neighbour CPMC propagators (one bond = four consecutive
    sub-steps up-up, up-dn, dn-up, dn-dn with the discrete field constants hs_constant_nn) maps an invariant state (greens = calc_full_green(walkers),
    overlaps = overlap(walkers)) to an invariant state: after sub-step k the walkers are D^(k)_{x_k} phi_{k-1} (row site_i of the first spin channel
    scaled by c[0], row site_j of the second by c[1]), weights pick up [O(D_0 phi) + O(D_1 phi)] / (2 O(phi)), and each uniform number is compared with
    O(D_0 phi)/(O(D_0 phi) + O(D_1 phi)); enumerated field patterns `bits`; site loop and one-body halves passed through (cpmc.site.* / cpmc.K)."""
    H.setup_repo()
    import jax
    import jax.numpy as jnp
    from ad_afqmc import wavefunctions as wf, propagation
    out = []
    nel = (1, 1)
    pcls = propagation.propagator_cpmc_nn if fast else propagation.propagator_cpmc_nn_slow
    bond = tuple(bond)         # first site != bond counter (0): a body that indexes a row by the loop counter instead of the site is visible
    which = "fast" if fast else "slow"
    for site in (0,):
        for bit in (tuple(bits),):
            t0 = time.time()
            inp = H.Inputs(2)
            hwu, hwd = inp.declare("wu", (1, norb, 1)), inp.declare("wd", (1, norb, 1))
            hh = inp.declare("h", (2, 2))
            # the neighbour-bond constants are exact rationals here (four chained rank-two updates with symbolic constants do not finish); their
            # defining relations are the subject of cpmc.hs
            HN = np.array([[Fraction(3, 2), Fraction(1, 2)], [Fraction(1, 2), Fraction(3, 2)]], dtype=object)
            hw = inp.declare("wt", (1,))
            if kind == "uhf_cpmc":
                htu, htd = inp.declare("tu", (norb, 1)), inp.declare("td", (norb, 1))
            else:
                ht = inp.declare("t", (2 * norb, 2))
            inp.build()
            sp = inp.sp
            trial = getattr(wf, kind)(norb, nel)
            prop = pcls(dt=0.05, n_walkers=1, neighbors=(bond,))
            wave = dict(mo_coeff=[htu["V"], htd["V"]]) if kind == "uhf_cpmc" else dict(mo_coeff=ht["V"])
            leaves = lambda t, f: jax.tree_util.tree_map(f, t, is_leaf=lambda x: isinstance(x, H.V))
            wave_s, wave_x = leaves(wave, lambda v: v.s), leaves(wave, lambda v: jnp.asarray(v.x))
            wu, wd = hwu["V"], hwd["V"]
            full_green = lambda a, b: evaluate(sp, trial.calc_full_green, (a, b, wave_s), (jnp.asarray(wu.x[0]), jnp.asarray(wd.x[0]), wave_x))[0]
            overlap = lambda a, b: evaluate(sp, trial._calc_overlap, (a, b, wave_s), (jnp.asarray(wu.x[0]), jnp.asarray(wd.x[0]), wave_x))[0]
            G0 = full_green(wu.s[0], wd.s[0])
            O0 = overlap(wu.s[0], wd.s[0])
            O0 = O0[()] if isinstance(O0, np.ndarray) else O0
            ov_arr = np.empty((1,), dtype=object)
            ov_arr[0] = O0
            pd_s = dict(walkers=[wu.s, wd.s], weights=hw["V"].s, overlaps=ov_arr, greens=G0[None], hs_constant=hh["V"].s, hs_constant_onsite=hh["V"].s,
                        hs_constant_nn=np.array([[sp.const(x) for x in row] for row in HN], dtype=object), key=np.asarray(jax.random.PRNGKey(3)), pop_control_ene_shift=np.array(0.0), e_estimate=np.array(0.0))
            Gx = trial.calc_full_green(jnp.asarray(wu.x[0]), jnp.asarray(wd.x[0]), wave_x)
            pd_x = dict(walkers=[jnp.asarray(wu.x), jnp.asarray(wd.x)], weights=jnp.asarray(hw["V"].x),
                        overlaps=jnp.asarray([trial._calc_overlap(jnp.asarray(wu.x[0]), jnp.asarray(wd.x[0]), wave_x)]).real,
                        greens=Gx[None], hs_constant=jnp.asarray(hh["V"].x), hs_constant_onsite=jnp.asarray(hh["V"].x), hs_constant_nn=jnp.asarray(np.array(HN, dtype=float)),
                        key=jax.random.PRNGKey(3), pop_control_ene_shift=jnp.asarray(0.0), e_estimate=jnp.asarray(0.0))
            ham_x = dict(exp_h1=jnp.array([jnp.eye(norb), jnp.eye(norb)]))
            ham_s = dict(exp_h1=np.array([np.eye(norb), np.eye(norb)]))
            fields_x = jnp.zeros((1, norb))
            oracle = _OracleSeq(bit)
            treedef = jax.tree_util.tree_structure(pd_x)
            nleaf = treedef.num_leaves

            # ---- spec of the four sub-steps (computed first: the Green's-function update callee is replaced by its contract below)
            hN = np.array([[sp.const(x) for x in row] for row in HN], dtype=object)
            steps = [((0, bond[0]), (0, bond[1])), ((0, bond[0]), (1, bond[1])), ((1, bond[0]), (0, bond[1])), ((1, bond[0]), (1, bond[1]))]
            half = sp.const(0.5)

            def scaled(w2, kk, st):
                out2 = [w2[0].copy(), w2[1].copy()]
                (s1, i1), (s2, i2) = st
                out2[s1][i1, :] = out2[s1][i1, :] * kk[0]
                out2[s2][i2, :] = out2[s2][i2, :] * kk[1]
                return out2
            cur = [wu.s[0].copy(), wd.s[0].copy()]
            Ocur, wgt, want_probs, seq = O0, hw["V"].s[0], [], []
            for st, bk in zip(steps, bit):
                cand = [scaled(cur, hN[0], st), scaled(cur, hN[1], st)]
                OD = []
                for cnd in cand:
                    v = overlap(cnd[0], cnd[1])
                    OD.append(v[()] if isinstance(v, np.ndarray) else v)
                want_probs.append(OD[0] / (OD[0] + OD[1]))
                wgt = wgt * ((OD[0] + OD[1]) * half / Ocur)
                ratio = (OD[0] if bk else OD[1]) / Ocur
                cur = cand[0] if bk else cand[1]
                Ocur = OD[0] if bk else OD[1]
                seq.append(dict(st=st, consts=hN[0] if bk else hN[1], ratio=ratio, green=full_green(cur[0], cur[1])))
            upd = dict(n=0, args_ok=[])

            def h_update(it, e, ins):
                """contract of update_greens_function (cpmc.update / cpmc.woodbury): for the pair and constants it is stated for, the updated Green's function is
                the from-scratch Green's function of the scaled walker - applied only after checking the arguments the body passes"""
                if len(e.outvars) != 1 or upd["n"] >= len(seq):
                    return None
                rec = seq[upd["n"]]
                upd["n"] += 1
                g_in, ratios, idx, uc = ins[0], ins[1], ins[2], ins[3]
                ok = (not is_obj(idx)) and np.asarray(idx).tolist() == [list(rec["st"][0]), list(rec["st"][1])]
                ucs = np.asarray(uc, dtype=object).reshape(-1) if is_obj(uc) else it.sym(np.asarray(uc)).reshape(-1)
                ok = ok and len(ucs) == 2 and all((ucs[q] - (rec["consts"][q] - sp.const(1))).iszero() for q in range(2))
                rr = np.asarray(ratios, dtype=object).reshape(-1) if is_obj(ratios) else it.sym(np.asarray(ratios)).reshape(-1)
                ok = ok and len(rr) == 1 and (rr[0] - rec["ratio"]).iszero()
                upd["args_ok"].append(bool(ok))
                return [np.asarray(rec["green"], dtype=object)[None]]

            def one_body(it, e, ins):       # contract of propagate_one_body with exp_h1 = identity is irrelevant here: pass the state through
                outs = e.outvars
                # outputs of propagate_one_body are the prop_data leaves (same pytree): return the matching inputs
                k = len(ins) - len(outs)
                cand = [x for x in ins]
                # locate prop_data leaves among the inputs by shape signature (they come in pytree order)
                res, j = [], 0
                for ov in outs:
                    while j < len(cand) and tuple(np.shape(cand[j])) != tuple(ov.aval.shape):
                        j += 1
                    res.append(cand[j])
                    j += 1
                return res

            def scan_hook(it, e, ins):
                P = e.params
                consts, carry, xs = [list(t) for t in P["ft_in"].update(ins).unpack()]
                if not (len(xs) == 1 and not is_obj(xs[0]) and np.asarray(xs[0]).dtype.kind in "iu"):
                    return None          # a batching scan inside calc_overlap
                if P["length"] == norb and P["length"] != 1:
                    # the on-site loop: passed through (its body is the subject of cpmc.site.*)
                    return list(carry) + [np.zeros(v.aval.shape, dtype=v.aval.dtype) for v in e.outvars[len(carry):]]
                if P["length"] != 1:
                    return None
                cj = P["jaxpr"]
                xi = [np.asarray(site, dtype=np.asarray(x).dtype) for x in xs]
                it.scan_hook = None          # scans nested in the body (batching scans of calc_overlap) are ordinary scans
                o = it.run(cj.jaxpr, cj.consts, list(consts) + list(carry) + xi)
                c2, ys = [list(t) for t in P["ft_out"].update(o).unpack()]
                raise _Captured(c2, ys)
            try:
                evaluate(sp, lambda hm, pdd, ff, wv: prop.propagate(trial, hm, pdd, ff, wv), (ham_s, pd_s, np.zeros((1, norb)), wave_s), (ham_x, pd_x, fields_x, wave_x),
                         intercept=dict({"propagate_one_body": one_body}, **({"update_greens_function": h_update} if fast else {})), series=oracle, scan_hook=scan_hook,
                         prim_hook={"select_n": oracle.select})
                raise Unsupported("no site scan reached in propagate")
            except _Captured as cap:
                full = jax.tree_util.tree_leaves(pd_s, is_leaf=lambda x: isinstance(x, np.ndarray))
                merged, j = [], 0
                for leaf in full:        # loop-invariant leaves are hoisted out of the carry by JAX: match the rest in pytree order
                    if j < len(cap.carry) and tuple(np.shape(cap.carry[j])) == tuple(np.shape(leaf)):
                        merged.append(cap.carry[j])
                        j += 1
                    else:
                        merged.append(leaf)
                carry = jax.tree_util.tree_unflatten(treedef, merged) if j == len(cap.carry) else None
            if carry is None:
                raise Unsupported("scan carry is not the prop_data pytree")
            # contract (the spec sequence was computed above)
            G1 = full_green(cur[0], cur[1])
            tagp = f"[{kind},{which},bond={bond[0]}-{bond[1]},x={''.join(map(str, bit))}]"
            fns = [f"propagation.{pcls.__name__}.propagate", f"{WF}.{kind}.calc_overlap_ratio", f"{WF}.{kind}.update_greens_function"]
            mk = lambda nm, got, want, note: out.append(H.identity(f"C10.cpmc.bond.{nm}{tagp}", got, want, functions=fns, inputs=inp, t0=t0, note=note))
            mk("walkers", np.concatenate([np.asarray(carry["walkers"][0]).reshape(-1), np.asarray(carry["walkers"][1]).reshape(-1)]),
               np.concatenate([cur[0].reshape(-1), cur[1].reshape(-1)]), "walkers after the four sub-steps = D^(4) D^(3) D^(2) D^(1) walkers (rows scaled by the chosen nn constants)")
            mk("overlaps", np.asarray(carry["overlaps"]).reshape(-1), np.array([Ocur], dtype=object), "overlaps' = overlap(walkers')")
            if fast:
                mk("greens", np.asarray(carry["greens"]).reshape(-1), np.asarray(G1).reshape(-1), "greens' = calc_full_green(walkers')  (invariant re-established)")
            mk("weights", np.asarray(carry["weights"]).reshape(-1), np.array([wgt], dtype=object), "weights' = w * prod_k [O(D_0 phi_k) + O(D_1 phi_k)] / (2 O(phi_k))")
            if len(oracle.probs) == 4:
                pr = np.array([np.asarray(p_, dtype=object).reshape(-1)[0] for p_ in oracle.probs], dtype=object)
                mk("prob", pr, np.array(want_probs, dtype=object), "each uniform number is compared with O(D_0 phi)/(O(D_0 phi)+O(D_1 phi)) of ITS sub-step")
            else:
                out.append(ob(f"C10.cpmc.bond.prob{tagp}", UNDECIDED, kind="bounded", detail=f"{len(oracle.probs)} probability comparisons seen (4 expected)"))
            if fast:
                ao = upd["args_ok"]
                out.append(ob(f"C10.cpmc.bond.update_args{tagp}", DISCHARGED if (len(ao) == 4 and all(ao)) else (REFUTED if ao and not all(ao) else UNDECIDED), kind="bounded", backend="ring",
                              functions=fns, wall=time.time() - t0, witness=None if (len(ao) == 4 and all(ao)) else dict(args_ok=ao), witness_class="" if (len(ao) == 4 and all(ao)) else "update-arguments",
                              detail=f"every Green's-function update is called with the pair of its sub-step, the chosen constants minus one and the overlap ratio of the chosen field value: {ao}"))
            gd = oracle.guards
            okg = len(gd) >= 8 and all(gd) if fast else (all(gd) if gd else True)
            if fast:
                out.append(ob(f"C10.cpmc.bond.constraint{tagp}", DISCHARGED if okg else (REFUTED if gd and not all(gd) else UNDECIDED), kind="bounded", backend="ring", functions=fns,
                              wall=time.time() - t0, detail=f"each constrained-path test zeroes the ratio it tested (two per sub-step): {gd}", witness=None if okg else dict(guards=gd),
                              witness_class="" if okg else "constraint-guards-other-field"))
    return out


def replay_site(o):
    """native replay of a site-contract violation: one real propagate() step on a small lattice; the stored overlaps / greens
    must equal the from-scratch values of the propagated walkers, and fast == slow"""
    H.setup_repo()
    import jax.numpy as jnp
    from ad_afqmc import wavefunctions as wf, propagation
    if ".site.constraint" in o["name"]:
        return _replay_constraint(o)
    kind = "ghf_cpmc" if "ghf_cpmc" in o["name"] else "uhf_cpmc"
    norb, nel = 3, (2, 1)
    rng = np.random.default_rng(11)
    trial = getattr(wf, kind)(norb, nel)
    if kind == "uhf_cpmc":
        wave = {"mo_coeff": [jnp.array(rng.normal(size=(norb, nel[0]))), jnp.array(rng.normal(size=(norb, nel[1])))]}
    else:
        wave = {"mo_coeff": jnp.array(rng.normal(size=(2 * norb, nel[0] + nel[1])))}
    nw = 3
    res = {}
    for cls in (propagation.propagator_cpmc, propagation.propagator_cpmc_slow):
        prop = cls(dt=0.05, n_walkers=nw)
        rng2 = np.random.default_rng(12)
        walkers = [jnp.array(rng2.normal(size=(nw, norb, nel[0]))), jnp.array(rng2.normal(size=(nw, norb, nel[1])))]
        ov = trial.calc_overlap(walkers, wave)
        walkers = [walkers[0] * jnp.sign(ov.real)[:, None, None], walkers[1]]
        pd = dict(walkers=walkers, weights=jnp.ones(nw), overlaps=trial.calc_overlap(walkers, wave).real,
                  greens=trial.calc_full_green_vmap(walkers, wave), pop_control_ene_shift=jnp.array(0.0), e_estimate=jnp.array(0.0))
        gamma = np.arccosh(np.exp(0.05 * 4.0 / 2))
        const = np.exp(-0.05 * 4.0 / 2)
        pd["hs_constant"] = jnp.array(const * np.array([[np.exp(gamma), np.exp(-gamma)], [np.exp(-gamma), np.exp(gamma)]]))
        ham = dict(exp_h1=jnp.array([np.eye(norb) + 0.01 * rng.normal(size=(norb, norb))] * 2))
        fields = jnp.array(np.random.default_rng(13).normal(size=(nw, norb)))
        out = prop.propagate(trial, ham, pd, fields, wave)
        res[cls.__name__] = out
    f, s = res["propagator_cpmc"], res["propagator_cpmc_slow"]
    e_ov = float(jnp.max(jnp.abs(f["overlaps"] - trial.calc_overlap(f["walkers"], wave))))
    e_g = float(jnp.max(jnp.abs(f["greens"] - trial.calc_full_green_vmap(f["walkers"], wave))))
    e_fs = float(max(jnp.max(jnp.abs(f["weights"] - s["weights"])), jnp.max(jnp.abs(f["walkers"][0] - s["walkers"][0]))))
    o["replayed"] = bool(max(e_ov, e_g, e_fs) > 1e-8)
    o["witness"] = dict(o.get("witness") or {}, native=dict(kind=kind, overlaps_vs_scratch=e_ov, greens_vs_scratch=e_g, fast_vs_slow=e_fs))


def replay_bond(o):
    """native replay of a neighbour-bond contract violation: one real propagate() step of the nearest-neighbour fast and slow propagators with the same key on a
    3-site chain: stored overlaps / greens must equal the from-scratch values of the propagated walkers, and fast == slow"""
    H.setup_repo()
    import jax
    import jax.numpy as jnp
    from ad_afqmc import wavefunctions as wf, propagation
    kind = "ghf_cpmc" if "ghf_cpmc" in o["name"] else "uhf_cpmc"
    norb, nel, nw = 3, (2, 1), 4
    rng = np.random.default_rng(21)
    trial = getattr(wf, kind)(norb, nel)
    wave = {"mo_coeff": [jnp.array(rng.normal(size=(norb, nel[0]))), jnp.array(rng.normal(size=(norb, nel[1])))]} if kind == "uhf_cpmc" else \
        {"mo_coeff": jnp.array(rng.normal(size=(2 * norb, nel[0] + nel[1])))}
    res = {}
    for cls in (propagation.propagator_cpmc_nn, propagation.propagator_cpmc_nn_slow):
        prop = cls(dt=0.05, n_walkers=nw, neighbors=((1, 0), (2, 1), (0, 2)))      # first site of a bond != its index in the list
        rng2 = np.random.default_rng(22)
        walkers = [jnp.array(rng2.normal(size=(nw, norb, nel[0]))), jnp.array(rng2.normal(size=(nw, norb, nel[1])))]
        ov = trial.calc_overlap(walkers, wave)
        walkers = [walkers[0] * jnp.sign(ov.real)[:, None, None], walkers[1]]

        def hs(u):
            g_, c_ = np.arccosh(np.exp(0.05 * u / 2)), np.exp(-0.05 * u / 2)
            return jnp.array(c_ * np.array([[np.exp(g_), np.exp(-g_)], [np.exp(-g_), np.exp(g_)]]))
        pd = dict(walkers=walkers, weights=jnp.ones(nw), overlaps=trial.calc_overlap(walkers, wave).real, greens=trial.calc_full_green_vmap(walkers, wave),
                  pop_control_ene_shift=jnp.array(0.0), e_estimate=jnp.array(0.0), hs_constant_onsite=hs(4.0), hs_constant_nn=hs(1.0), hs_constant=hs(4.0),
                  key=jax.random.PRNGKey(7))
        ham = dict(exp_h1=jnp.array([np.eye(norb)] * 2))
        res[cls.__name__] = prop.propagate(trial, ham, pd, jnp.zeros((nw, norb)), wave)
    f, s_ = res["propagator_cpmc_nn"], res["propagator_cpmc_nn_slow"]
    e_ov = float(jnp.max(jnp.abs(f["overlaps"] - trial.calc_overlap(f["walkers"], wave))))
    e_g = float(jnp.max(jnp.abs(f["greens"] - trial.calc_full_green_vmap(f["walkers"], wave))))
    e_fs = float(max(jnp.max(jnp.abs(f["weights"] - s_["weights"])), jnp.max(jnp.abs(f["walkers"][0] - s_["walkers"][0])), jnp.max(jnp.abs(f["walkers"][1] - s_["walkers"][1]))))
    e_sl = float(jnp.max(jnp.abs(s_["overlaps"] - trial.calc_overlap(s_["walkers"], wave))))
    dev = max(e_ov, e_g, e_fs, e_sl)
    o["replayed"] = bool(not np.isfinite(dev) or dev > 1e-8)
    o["witness"] = dict(o.get("witness") or {}, native=dict(kind=kind, lattice="3 sites, bonds (1,0),(2,1),(0,2)", fast_overlaps_vs_scratch=e_ov, fast_greens_vs_scratch=e_g,
                                                          fast_vs_slow=e_fs, slow_overlaps_vs_scratch=e_sl))


def _replay_constraint(o):
    """native replay: 2 sites, trial [1;1] per spin, walker up = [-3; 4] (G_up[0,0] = -3), walker dn = [1;1]: at site 0 the first field value has a
    negative ratio (rejected), the second a positive one (allowed); with zero Gaussian fields the allowed value is chosen and the weight must be
    w * ratio_1 / 2 > 0 after the site loop (one-body halves = identity)."""
    import jax.numpy as jnp
    from ad_afqmc import wavefunctions as wf, propagation
    cls = propagation.propagator_cpmc if ",fast," in o["name"] else propagation.propagator_cpmc_slow
    norb, nel, dt, U = 2, (1, 1), 0.05, 4.0
    trial = wf.uhf_cpmc(norb, nel)
    T_ = [jnp.array([[1.0], [1.0]]), jnp.array([[1.0], [1.0]])]
    wave = {"mo_coeff": T_}
    walkers = [jnp.array([[[-3.0], [4.0]]]), jnp.array([[[1.0], [1.0]]])]
    gamma, const = np.arccosh(np.exp(dt * U / 2)), np.exp(-dt * U / 2)
    hs = const * np.array([[np.exp(gamma), np.exp(-gamma)], [np.exp(-gamma), np.exp(gamma)]])
    pd = dict(walkers=walkers, weights=jnp.ones(1), overlaps=trial.calc_overlap(walkers, wave).real, greens=trial.calc_full_green_vmap(walkers, wave),
              pop_control_ene_shift=jnp.array(0.0), e_estimate=jnp.array(0.0), hs_constant=jnp.array(hs))
    ham = dict(exp_h1=jnp.array([np.eye(norb)] * 2))
    out = cls(dt=dt, n_walkers=1).propagate(trial, ham, pd, jnp.zeros((1, norb)), wave)
    Gu, Gd = -3.0, 0.5
    r0 = (1 + (hs[0, 0] - 1) * Gu) * (1 + (hs[0, 1] - 1) * Gd)
    r1 = (1 + (hs[1, 0] - 1) * Gu) * (1 + (hs[1, 1] - 1) * Gd)
    w = float(np.asarray(out["weights"])[0])
    o["replayed"] = bool(not (np.isfinite(w) and w > 0))
    o["witness"] = dict(o.get("witness") or {}, native=dict(walker_up=[-3.0, 4.0], walker_dn=[1.0, 1.0], ratio_field0_site0=float(r0), ratio_field1_site0=float(r1),
                                                          weight_after_one_step=w, expected="finite and positive (field 1 is allowed at site 0)"))


def kinetic(cls_name="propagator_cpmc", norb=2, nchol=2):
    """C10.cpmc.K: the matrix handed to expm for the one-body half step is -dt/2 K (K = the lattice one-body matrix h1 of that spin) up to a multiple
    of the identity - for ANY Cholesky vectors and ANY trial density (rdm1) in ham_data / wave_data"""
    t0 = time.time()
    H.setup_repo()
    import jax
    import jax.numpy as jnp
    from ad_afqmc import propagation, wavefunctions as wf
    inp = H.Inputs(21)
    hh, hl, hr, h0 = inp.declare("h", (2, norb, norb)), inp.declare("l", (nchol, norb, norb)), inp.declare("r", (2, norb, norb)), inp.declare("h0", ())
    inp.build()
    sp = inp.sp
    sym = lambda a: a + np.swapaxes(a, -1, -2)
    h1, L, rho = sym(hh["V"].s), sym(hl["V"].s), sym(hr["V"].s)
    cls = getattr(propagation, cls_name)
    kw = dict(dt=0.01, n_walkers=1)
    if "nn" in cls_name:
        kw["neighbors"] = ((0, 1),)
    prop = cls(**kw)
    trial = wf.uhf_cpmc(norb, (1, 1))
    args = []

    def h_expm(it, e, ins):
        args.append(it.sym(ins[0]))
        return [it.sym(ins[0])]
    ham_s = dict(h0=h0["V"].s[()], h1=h1, chol=L.reshape(nchol, norb * norb), ene0=np.array(0.0))
    ham_x = dict(h0=jnp.asarray(0.1), h1=jnp.zeros((2, norb, norb)), chol=jnp.zeros((nchol, norb * norb)), ene0=jnp.asarray(0.0))
    fn = lambda hm, wv: prop._build_propagation_intermediates(hm, trial, wv)
    evaluate(sp, fn, (ham_s, dict(rdm1=rho)), (ham_x, dict(rdm1=jnp.zeros((2, norb, norb)))), intercept={"expm": h_expm})
    q = front.resolve_method("propagation", cls_name, "_build_propagation_intermediates")
    name = f"C10.cpmc.K.{cls_name}"
    if len(args) != 2:
        A = args[0] if args else None
        if A is None or A.ndim != 3:
            return [ob(name, UNDECIDED, kind="bounded", detail=f"{len(args)} expm calls seen", functions=[q])]
        args = [A[0], A[1]]
    bad = []
    half_dt = sp.const(Fraction_(1, 200))
    for s_ in range(2):
        D = args[s_] + h1[s_] * half_dt          # should be c * identity
        for p in range(norb):
            for r in range(norb):
                if p != r and not D[p, r].iszero():
                    bad.append((s_, p, r))
            if not (D[p, p] - D[0, 0]).iszero():
                bad.append((s_, p, p))
    o = ob(name, REFUTED if bad else DISCHARGED, kind="bounded", backend="ring", wall=time.time() - t0, functions=[q], witness_class="mean-field-shift-in-one-body-propagator",
           detail=("expm argument == -dt/2 h1[s] + c I for any chol / rdm1" if not bad else
                   f"expm argument differs from -dt/2 h1[s] by a matrix that depends on chol and rdm1 (entries {bad[:4]}): the one-body half step is exp(-dt/2 (K - v0 - v1)) with "
                   f"v1 = -sum_g tr(L_g rho) L_g, not exp(-dt K/2)"), witness=dict(entries=bad[:8]) if bad else None)
    if bad:
        _replay_kinetic(o, cls_name)
    return [o]


def Fraction_(a, b):
    from fractions import Fraction
    return Fraction(a, b)


def _replay_kinetic(o, cls_name):
    """native: 2-site Hubbard, non-uniform trial density, Cholesky vectors of the on-site U as produced by the standard set-up: compare exp_h1 with expm(-dt K/2)"""
    try:
        from contracts import native
        native.setup()
        import jax.numpy as jnp
        import scipy.linalg as sla
        from ad_afqmc import propagation, wavefunctions as wf
        norb, U, dt = 2, 4.0, 0.05
        K = np.array([[0.0, -1.0], [-1.0, 0.0]])
        L = np.zeros((norb, norb, norb))
        for i in range(norb):
            L[i, i, i] = np.sqrt(U)
        rho = np.array([np.diag([0.8, 0.2]), np.diag([0.3, 0.7])])           # non-uniform density profile
        cls = getattr(propagation, cls_name)
        kw = dict(dt=dt, n_walkers=1)
        if "nn" in cls_name:
            kw["neighbors"] = ((0, 1),)
        prop = cls(**kw)
        ham = prop._build_propagation_intermediates(dict(h0=0.0, h1=jnp.array([K, K]), chol=jnp.array(L.reshape(norb, -1)), ene0=0.0), wf.uhf_cpmc(norb, (1, 1)), dict(rdm1=jnp.array(rho)))
        E = np.asarray(ham["exp_h1"])
        ref = sla.expm(-dt * K / 2)
        ratio = E[0] / ref
        dev = float(np.max(np.abs(ratio - ratio[0, 0])))
        o["replayed"] = bool(dev > 1e-8)
        o["witness"] = dict(o.get("witness") or {}, native=dict(system="2-site Hubbard U=4, dt=0.05, rdm1 up diag(0.8,0.2) dn diag(0.3,0.7), chol = sqrt(U) e_i e_i^T",
                                                                exp_h1_up=E[0].tolist(), expm_minus_dt_K_over_2=ref.tolist(), not_proportional_by=dev))
    except Exception as e:  # noqa
        o["witness"] = dict(o.get("witness") or {}, native_error=repr(e)[:300])


def tail(cls_name="propagator_cpmc", kind="uhf_cpmc", norb=2):
    """C10.cpmc.tail.<cls>: after the one-body halves and the site loop (both passed through here: their contracts are cpmc.K / cpmc.site.*),
    the REAL propagate multiplies every weight by exp(dt * E_shift) with E_shift = pop_control_ene_shift (NOT the running energy estimate),
    zeroes weights above 100, and sets  pop_control_ene_shift' = e_estimate - 0.1 log(sum(w') / n_walkers) / dt."""
    t0 = time.time()
    H.setup_repo()
    import jax
    import jax.numpy as jnp
    from ad_afqmc import wavefunctions as wf, propagation
    nel, nw, dt = (1, 1), 2, 0.05
    E_shift, E_est = 0.4375, -1.28125           # distinct dyadic values: exp(dt * .) is computed natively inside the traced function
    inp = H.Inputs(6)
    hwu, hwd = inp.declare("wu", (nw, norb, 1)), inp.declare("wd", (nw, norb, 1))
    hw, hlg = inp.declare("wt", (nw,)), inp.declare("lg", ())
    hh = inp.declare("h", (2, 2))
    inp.build()
    sp = inp.sp
    trial = getattr(wf, kind)(norb, nel)
    pcls = getattr(propagation, cls_name)
    prop = pcls(dt=dt, n_walkers=nw, **({"neighbors": ((0, 1),)} if "nn" in cls_name else {}))
    rng = np.random.default_rng(1)
    mo = [rng.normal(size=(norb, 1)), rng.normal(size=(norb, 1))]
    wave_x = dict(mo_coeff=[jnp.asarray(mo[0]), jnp.asarray(mo[1])]) if kind == "uhf_cpmc" else dict(mo_coeff=jnp.asarray(rng.normal(size=(2 * norb, 2))))
    wave_s = jax.tree_util.tree_map(lambda a: np.asarray(a), wave_x)
    G = np.zeros((nw, 2, norb, norb)) if kind == "uhf_cpmc" else np.zeros((nw, 2 * norb, 2 * norb))
    ov = np.ones(nw)
    pd_s = dict(walkers=[hwu["V"].s, hwd["V"].s], weights=hw["V"].s, overlaps=ov, greens=G, hs_constant=hh["V"].s,
                pop_control_ene_shift=np.array(E_shift), e_estimate=np.array(E_est))
    pd_x = dict(walkers=[jnp.asarray(hwu["V"].x), jnp.asarray(hwd["V"].x)], weights=jnp.asarray(hw["V"].x), overlaps=jnp.asarray(ov), greens=jnp.asarray(G),
                hs_constant=jnp.asarray(hh["V"].x), pop_control_ene_shift=jnp.asarray(E_shift), e_estimate=jnp.asarray(E_est))
    if "nn" in cls_name:
        pd_s.update(hs_constant_onsite=hh["V"].s, hs_constant_nn=np.asarray(hh["V"].x), key=np.asarray(jax.random.PRNGKey(5)))
        pd_x.update(hs_constant_onsite=jnp.asarray(hh["V"].x), hs_constant_nn=jnp.asarray(hh["V"].x), key=jax.random.PRNGKey(5))
    ham_x = dict(exp_h1=jnp.array([jnp.eye(norb), jnp.eye(norb)]))      # no scalar leaves: the one-body pass-through matches leaves by shape
    ham_s = dict(exp_h1=np.array([np.eye(norb), np.eye(norb)]))
    logs, seen = [], dict(scans=0, caps=0)

    class Or:
        def primitive(self, it, p, e, ins):
            if p in ("gt", "lt", "ge", "le"):
                a, b = ins
                lit = [float(np.real(x)) for x in (a, b) if not is_obj(x) and np.ndim(x) == 0]
                if lit and lit[0] in (100.0, 1.0e-8):
                    seen["caps"] += (lit[0] == 100.0)
                    return np.zeros(np.broadcast(np.asarray(a, dtype=object), np.asarray(b, dtype=object)).shape, dtype=bool)   # no cap active
            if p == "log" and is_obj(ins[0]):
                logs.append(ins[0])
                return hlg["V"].s.reshape(np.shape(ins[0]))
            return None

    def one_body(it, e, ins):
        res, j = [], 0
        for ovv in e.outvars:
            while j < len(ins) and tuple(np.shape(ins[j])) != tuple(ovv.aval.shape):
                j += 1
            res.append(ins[j])
            j += 1
        return res

    def scan_hook(it, e, ins):
        P = e.params
        consts, carry, xs = [list(t) for t in P["ft_in"].update(ins).unpack()]
        seen["scans"] += 1
        ncar = len(carry)
        return list(carry) + [np.zeros(v.aval.shape, dtype=v.aval.dtype) for v in e.outvars[ncar:]]
    name = f"C10.cpmc.tail.{cls_name}[{kind}]"
    fns = [f"propagation.{cls_name}.propagate"]
    fields = np.zeros((nw, norb))
    try:
        out, it = evaluate(sp, lambda hm, pdd, ff, wv: prop.propagate(trial, hm, pdd, ff, wv), (ham_s, pd_s, fields, wave_s), (ham_x, pd_x, jnp.asarray(fields), wave_x),
                           intercept={"propagate_one_body": one_body}, series=Or(), scan_hook=scan_hook)
    except Unsupported as ex:
        return [ob(name + ".weights", UNDECIDED, kind="bounded", backend="ring", detail=f"Unsupported: {ex}", functions=fns, wall=time.time() - t0)]
    if seen["scans"] == 0:
        return [ob(name + ".weights", UNDECIDED, kind="bounded", detail="no site scan seen", functions=fns)]
    w_in, w_out = hw["V"].s, np.asarray(out["weights"], dtype=object)
    want = float(np.exp(dt * E_shift))
    ratios = [complex(inp.val(w_out[k] / w_in[k])) for k in range(nw)]
    indep = all(((w_out[k] / w_in[k]) - sp.const(ratios[k].real)).iszero() for k in range(nw)) if all(abs(r.imag) < 1e-15 for r in ratios) else False
    ok = indep and all(abs(r - want) < 1e-13 for r in ratios)
    obs = []
    o = ob(name + ".weights", DISCHARGED if ok else REFUTED, kind="bounded", backend="ring", wall=time.time() - t0, functions=fns,
           detail=f"weights' / weights = {ratios} ; exp(dt * pop_control_ene_shift) = {want}, exp(dt * e_estimate) = {float(np.exp(dt * E_est))} (dt = {dt}, E_shift = {E_shift}, e_estimate = {E_est}; "
                  f"{seen['scans']} scans and both one-body halves passed through, {seen['caps']} cap test(s) answered 'inactive')",
           witness=None if ok else dict(ratio=str(ratios), expected=want), witness_class="" if ok else "tail-rescale")
    if not ok:
        _replay_tail(o, cls_name, kind, norb)
    obs.append(o)
    # pop_control update
    if len(logs) == 1:
        arg = np.asarray(logs[0], dtype=object).reshape(-1)[0]
        want_arg = sum((w_out[k] for k in range(1, nw)), w_out[0]) * sp.const(Fraction(1, nw))
        got_shift = np.asarray(out["pop_control_ene_shift"], dtype=object).reshape(-1)[0]
        want_shift = sp.const(E_est) - hlg["V"].s[()] * sp.const(0.1) * sp.const(Fraction(1, 1) / Fraction(dt))
        o2 = H.identity(name + ".shift", np.array([arg, got_shift], dtype=object), np.array([want_arg, want_shift], dtype=object), functions=fns, inputs=inp, t0=t0,
                        note="argument of log == sum(w')/n_walkers and pop_control_ene_shift' == e_estimate - 0.1 log(.)/dt")
        obs.append(o2)
    else:
        obs.append(ob(name + ".shift", UNDECIDED, kind="bounded", detail=f"{len(logs)} symbolic log calls seen", functions=fns))
    return obs


def _replay_tail(o, cls_name, kind, norb):
    """native replay: one real CPMC step on a small Hubbard system after pop_control_ene_shift and e_estimate have been set apart;
    the weights must scale by exp(dt * delta) when pop_control_ene_shift is shifted by delta (and not at all when e_estimate is)."""
    try:
        from contracts import native
        native.setup()
        import jax
        import jax.numpy as jnp
        from ad_afqmc import wavefunctions as wf, propagation, hamiltonian
        n, dt, nw = 2, 0.05, 4
        trial = wf.uhf_cpmc(n, (1, 1))
        T = [jnp.array([[1.0], [0.8]]), jnp.array([[0.9], [1.0]])]
        wave = {"mo_coeff": T, "rdm1": jnp.array([T[0] @ T[0].T / 2, T[1] @ T[1].T / 2])}
        prop = getattr(propagation, cls_name)(dt=dt, n_walkers=nw)
        h1 = np.array([[0.0, -1.0], [-1.0, 0.0]])
        ham_data = {"h0": 0.0, "h1": jnp.array([h1, h1]), "chol": jnp.zeros((1, n * n)), "ene0": 0.0, "u": 4.0, "u_1": 1.0}
        hh_ = hamiltonian.hamiltonian(n)
        ham_data = hh_.build_measurement_intermediates(dict(ham_data), trial, wave)
        ham_data = hh_.build_propagation_intermediates(ham_data, prop, trial, wave)
        rng = np.random.default_rng(4)
        walkers = [jnp.array(1.0 + 0.2 * rng.normal(size=(nw, n, 1))) + 0j, jnp.array(1.0 + 0.2 * rng.normal(size=(nw, n, 1))) + 0j]
        pd = prop.init_prop_data(trial, wave, ham_data, walkers)
        x = jnp.asarray(np.random.default_rng(0).normal(size=(nw, n)))
        base = dict(pd, pop_control_ene_shift=jnp.asarray(0.3), e_estimate=jnp.asarray(-0.9))
        a = np.asarray(prop.propagate(trial, ham_data, dict(base), x, wave)["weights"])
        b = np.asarray(prop.propagate(trial, ham_data, dict(base, pop_control_ene_shift=jnp.asarray(0.3 + 1.0)), x, wave)["weights"])
        c = np.asarray(prop.propagate(trial, ham_data, dict(base, e_estimate=jnp.asarray(-0.9 + 1.0)), x, wave)["weights"])
        good = np.allclose(b, a * np.exp(dt * 1.0), rtol=1e-10) and np.allclose(c, a, rtol=1e-10)
        o["replayed"] = bool(not good)
        o["witness"] = dict(o.get("witness") or {}, native=dict(system="2-site Hubbard, U=4, dt=0.05, 4 walkers", weights=a.tolist(), weights_with_E_shift_plus_1=b.tolist(),
                                                               weights_with_e_estimate_plus_1=c.tolist(), expected_factor=float(np.exp(dt))))
    except Exception as e:   # noqa
        o["witness"] = dict(o.get("witness") or {}, native_error=repr(e)[:300])

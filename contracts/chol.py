"""C17: modified-Cholesky routines reproduce their input.

np_gram     pyscf_interface.modified_cholesky (NumPy, threshold-terminated while loop): the REAL function object is executed
            path-wise over symbolic reals (vc/symx.py) for every symmetric PSD n x n input and every threshold err > 0:
                |A_ij - sum_g L_gi L_gj| <= err + n * 1e-10          (all i, j; every path = every pivot order / exit)
            The allowance n * 1e-10 is the code's own regulariser (delta_max + 1e-10) ** 0.5, once per vector.
jax_exact   linalg_utils.modified_cholesky (lax.scan, fixed number of vectors): with as many vectors as the rank (full rank n)
            the Gram matrix equals the input identically, for every pivot order (engine B with a case split on argmax).
"""
from __future__ import annotations

import itertools
import time
from fractions import Fraction

import numpy as np
import z3

from vc.common import ob, DISCHARGED, REFUTED, UNDECIDED, CRASH, Unsupported
from vc import symx

EPS = 1e-10
FN_NP = "pyscf_interface.modified_cholesky"


def _real_np():
    from vc.jxvc import harness as H
    H.setup_repo()
    from ad_afqmc import pyscf_interface as pi
    return pi.modified_cholesky


def _psd(A, n):
    """all principal minors >= 0 (<=> PSD for a symmetric matrix)"""
    cons = []
    for k in range(1, n + 1):
        for idx in itertools.combinations(range(n), k):
            cons.append(_det([[A[i][j] for j in idx] for i in idx]) >= 0)
    return cons


def _det(M):
    n = len(M)
    if n == 1:
        return M[0][0]
    return sum(((-1) ** j) * M[0][j] * _det([r[:j] + r[j + 1:] for r in M[1:]]) for j in range(n))


def _inputs(ctx, n, param="minors"):
    names = [[f"a{min(i, j)}{max(i, j)}" for j in range(n)] for i in range(n)]
    Az = [[z3.Real(names[i][j]) for j in range(n)] for i in range(n)]
    if param == "factor":
        # every symmetric PSD matrix is B B^T with B lower triangular: a change of variables instead of the minors precondition
        B = [[z3.Real(f"b{i}{j}") if j <= i else z3.RealVal(0) for j in range(n)] for i in range(n)]
        Az = [[z3.simplify(sum((B[i][q] * B[j][q] for q in range(n)), z3.RealVal(0))) for j in range(n)] for i in range(n)]
    if param == "diag":
        Az = [[z3.Real(f"d{i}") if i == j else z3.RealVal(0) for j in range(n)] for i in range(n)]
    if param == "rank1":
        x = [z3.Real(f"x{i}") for i in range(n)]
        Az = [[x[i] * x[j] for j in range(n)] for i in range(n)]
    A = np.empty((n, n), dtype=object)
    for i in range(n):
        for j in range(n):
            A[i, j] = symx.SymR(ctx, Az[i][j])
    err = z3.Real("err")
    return A, Az, symx.SymR(ctx, err), err


def _native_dev(A, err):
    f = _real_np()
    import warnings
    with warnings.catch_warnings():
        warnings.simplefilter("ignore")
        L = np.asarray(f(np.array(A, dtype=float), float(err)), dtype=float)
    G = L.T @ L if L.size else np.zeros_like(A)
    d = np.abs(np.asarray(A, dtype=float) - G)
    return (float("inf") if not np.all(np.isfinite(d)) else float(d.max())), L.shape[0]


def np_gram(n, bound_scale=1, canary=False, timeout_ms=30000, param="minors", part=0, parts=1, stop_on_unknown=False):
    """C17.np.gram[n]: one obligation per feasible path of the real NumPy routine"""
    t00 = time.time()
    fn = _real_np()
    store = {}

    def pre(ctx):
        A, Az, e, ez = _inputs(ctx, n, param)
        store[id(ctx)] = (A, Az, e, ez)
        return ([] if param in ("factor", "rank1") else [Az[i][i] >= 0 for i in range(n)] if param == "diag" else _psd(Az, n)) + [ez > 0]

    def run(ctx):
        A, Az, e, ez = store[id(ctx)]
        f = symx.rebind(fn, np=symx.make_shim(ctx))
        return f(A.copy(), e)

    try:
        paths = symx.explore(run, pre)
    except Unsupported as ex:
        return [ob(f"C17.np.gram[n={n}]", UNDECIDED, kind="bounded", backend="symx", detail=f"Unsupported: {ex}", functions=[FN_NP], wall=time.time() - t00)]
    obs = []
    paths = sorted(paths, key=lambda cr: cr[0].taken)[part::parts]
    for ctx, res in paths:
        t0 = time.time()
        A, Az, e, ez = store[id(ctx)]
        tag = "".join("T" if t else "F" for t in ctx.taken) or "-"
        name = f"C17.np.{'canary' if canary else 'gram'}[n={n}{'' if param == 'minors' else ',' + param},path={tag}]"
        trail = ",".join(ctx.events)
        if isinstance(res, Exception):
            obs.append(ob(name, UNDECIDED, kind="bounded", backend="symx", detail=f"{res} (trail {trail})", functions=[FN_NP], wall=time.time() - t0))
            continue
        assum = ctx.assumptions()
        # vacuity: the path must be inhabited; its witness is also the engine self-check against the native run
        st, m, _ = symx.prove(assum, z3.BoolVal(False), 10000)
        if st == "unsat":
            continue     # infeasible path (feasibility of the last decision was 'unknown' earlier)
        L = np.asarray(res, dtype=object)
        k = L.shape[0]
        detail = f"{k} vectors returned; decisions {tag}; {trail}"
        if st == "sat":
            try:
                Af = [[symx.model_float(m, Az[i][j]) for j in range(n)] for i in range(n)]
                ef = symx.model_float(m, ez)
                _, k_nat = _native_dev(Af, ef)
                if k_nat != k and not _near_tie(m, ctx):
                    obs.append(ob(name + ".selfcheck", CRASH, kind="bounded", backend="symx", functions=[FN_NP],
                                  detail=f"native run at the path witness returns {k_nat} vectors, the symbolic path {k}; A={Af} err={ef}"))
            except (ValueError, OverflowError):
                pass
        # safety: sqrt arguments
        bad_s = None
        for sname, goal, snap in ctx.safety:
            s2, m2, _ = symx.prove(snap, goal, timeout_ms)
            if s2 != "unsat":
                bad_s = (sname, s2, m2)
                break
        if bad_s:
            obs.append(_fail(name, f"safety {bad_s[0]}: square root of a possibly negative number; " + detail, bad_s[1], bad_s[2], Az, ez, n, bound_scale, t0))
            continue
        if any(isinstance(x, symx.Poison) for x in L.reshape(-1)):
            obs.append(_fail(name, "a NaN/inf (division by zero) is returned; " + detail, "sat" if st == "sat" else "unknown", m, Az, ez, n, bound_scale, t0))
            continue
        bound = ez * z3.RealVal(str(Fraction(bound_scale))) + (0 if canary else z3.RealVal(str(Fraction(EPS) * n)))
        worst = None
        for i in range(n):
            for j in range(i, n):
                g = sum((symx.rv(L[q, i] * L[q, j]) for q in range(k)), z3.RealVal(0))
                d = Az[i][j] - g
                s3, m3, _ = symx.prove(assum, z3.And(d <= bound, -d <= bound), timeout_ms)
                if s3 != "unsat":
                    worst = (i, j, s3, m3)
                    if s3 == "sat" or stop_on_unknown:
                        break
            if worst and (worst[2] == "sat" or stop_on_unknown):
                break
        if worst is None:
            obs.append(ob(name, DISCHARGED, kind="canary" if canary else "bounded", backend="z3-nra", functions=[FN_NP], wall=time.time() - t0,
                          detail=f"|A - L^T L|_ij <= {'err*%s' % bound_scale if canary else 'err + %d*1e-10' % n} for all PSD A, all err > 0; " + detail))
        else:
            i, j, s3, m3 = worst
            obs.append(_fail(name, f"element ({i},{j}) of A - L^T L exceeds the bound; " + detail, s3, m3, Az, ez, n, bound_scale, t0, canary))
    if not obs and parts == 1:
        obs.append(ob(f"C17.np.gram[n={n}]", CRASH, kind="bounded", backend="symx", detail="no feasible path", functions=[FN_NP]))
    return obs


def _near_tie(m, ctx):
    """the path witness sits on a decision boundary up to rounding (algebraic model values): the native run may take the other side"""
    for c, t in ctx.path:
        try:
            l, r = c.arg(0), c.arg(1)
            if abs(symx.model_float(m, l) - symx.model_float(m, r)) < 1e-9:
                return True
        except Exception:   # noqa
            return True
    return False


def _fail(name, what, status, model, Az, ez, n, bound_scale, t0, canary=False):
    kind = "canary" if canary else "bounded"
    if status != "sat" or model is None:
        return ob(name, UNDECIDED, kind=kind, backend="z3-nra", functions=[FN_NP], wall=time.time() - t0, detail=what + f" [solver: {status}]")
    try:
        Af = [[symx.model_float(model, Az[i][j]) for j in range(n)] for i in range(n)]
        ef = symx.model_float(model, ez)
    except (ValueError, OverflowError) as ex:
        return ob(name, UNDECIDED, kind=kind, backend="z3-nra", functions=[FN_NP], wall=time.time() - t0, detail=what + f" [model not numeric: {ex}]")
    dev, k = _native_dev(Af, ef)
    lim = ef * bound_scale + (0 if canary else n * EPS)
    confirmed = bool(dev > lim * (1 + 1e-9) + 1e-15)
    if not confirmed and not canary:
        # the exact model does not reproduce in float64: not reported as a violation
        return ob(name, UNDECIDED, kind=kind, backend="z3-nra", functions=[FN_NP], wall=time.time() - t0,
                  detail=what + f" [solver model A={Af} err={ef} does not reproduce natively: deviation {dev:.3e} <= {lim:.3e}]")
    return ob(name, REFUTED, kind=kind, backend="z3-nra", functions=[FN_NP], wall=time.time() - t0, replayed=confirmed,
              detail=what, witness=dict(A=Af, max_error=ef, native_max_abs_deviation=dev, allowed=lim, native_vectors=k,
                                        call="pyscf_interface.modified_cholesky(np.array(A), max_error)"),
              witness_class="full-rank" if k < n and dev > lim else "other")


def np_canary(n=2):
    """vacuity guard: the bound err/2 (no allowance) must be refutable on some path"""
    obs = np_gram(n, bound_scale=Fraction(1, 2), canary=True)
    ref = [o for o in obs if o["status"] == REFUTED]
    o = dict(ref[0] if ref else obs[0])
    o["name"] = f"C17.canary.half_threshold_must_fail[n={n}]"
    o["kind"] = "canary"
    return [o]


# =========================================================================================== the JAX routine (engine B)
FN_JX = "linalg_utils.modified_cholesky"


def jax_exact(n, rank=None, perm=None, deriv=False, _scale=1, tie=False):
    """C17.jax.exact[n,rank,perm]: with as many vectors as the rank, sum_g L_g L_g^T == A identically.

    Every symmetric PSD matrix of rank r whose pivots are taken in the order perm is A = P B B^T P^T with B (n x r) lower
    trapezoidal with positive diagonal; B's entries are the symbols, the argmax primitive is answered with perm (the case split
    over all pivot orders covers all inputs), abs() is only accepted on sums of squares and ** 0.5 only on squares of positive symbols."""
    t0 = time.time()
    from vc.jxvc import harness as H
    from vc.jxvc.field import Fr, NonFin
    from vc.jxvc.interp import evaluate
    H.setup_repo()
    import jax.numpy as jnp
    from ad_afqmc import linalg_utils as lu
    r = n if rank is None else rank
    perm = tuple(range(n)) if perm is None else tuple(perm)
    inp = H.Inputs(0)
    hb = inp.declare("b", (n, r))
    ht = inp.declare("t", (n, n))       # tangent direction (symmetrised), used by the derivative obligation
    inp.build()
    inp._tangent = ht
    sp = inp.sp
    Bs, Bx = hb["V"].s.copy(), np.array(hb["V"].x, dtype=float)
    names = hb["names"]
    for i in range(n):
        for j in range(r):
            if j > i:
                Bs[i, j], Bx[i, j] = sp.const(0), 0.0
            elif i == j:
                Bx[i, j] = 3.0 * (n - j) + 1.0          # numeric point: strongly decreasing pivots, so that the native run takes perm
            else:
                Bx[i, j] = 0.25 * Bx[i, j] / (1 + abs(Bx[i, j]))
            inp.point[names[i, j]] = complex(Bx[i, j])
    if tie is not False and tie is not None:
        # inputs ON a tie surface (repeated pivots): the residual diagonals at step k tie between the pivots k and k+1:
        # B[k,k] = 5t, B[k+1,k] = 3t, B[k+1,k+1] = 4t  (25 t^2 = 9 t^2 + 16 t^2); argmax returns the FIRST maximum, so perm[k] < perm[k+1]
        k = 0 if tie is True else int(tie)
        if r < k + 2 or perm[k] > perm[k + 1]:
            raise Unsupported("tie family needs rank >= k + 2 and perm[k] < perm[k+1]")
        t_s, t_x = Bs[k, k], 2.0 / (k + 1)
        Bs[k, k], Bs[k + 1, k], Bs[k + 1, k + 1] = t_s * 5, t_s * 3, t_s * 4
        Bx[k, k], Bx[k + 1, k], Bx[k + 1, k + 1] = 5 * t_x, 3 * t_x, 4 * t_x
        inp.point[names[k, k]] = complex(t_x)
        for i in range(n):
            for j in range(min(i + 1, r)):
                if i < k:
                    Bx[i, j] = 40.0 * (k - i) if i == j else 0.1 * Bx[i, j]
                elif i > k + 1:
                    Bx[i, j] = (1.0 + 0.5 * (n - i)) / (k + 1) if i == j else 0.05 * Bx[i, j]
                elif i == k and j < k or i == k + 1 and j < k:
                    Bx[i, j] = 0.1 * Bx[i, j]
                else:
                    continue
                inp.point[names[i, j]] = complex(Bx[i, j])
    diag_syms = {}
    for j in range(r):
        diag_syms[j] = Bs[j, j]
    P = np.zeros((n, n), dtype=int)
    for k, p in enumerate(perm):
        P[p, k] = 1                      # position perm[k] of A holds row k of B: the k-th pivot is perm[k]
    As = (P @ Bs) @ (P @ Bs).T
    Ax = (P @ Bx) @ (P @ Bx).T
    calls = dict(argmax=0, pow=0, abs=0)

    PB = P @ Bs
    pivot_rule = []

    def h_argmax(it, e, ins):
        k = calls["argmax"]
        calls["argmax"] += 1
        if k >= len(perm):
            raise Unsupported("more argmax calls than pivots")
        # the pivot rule: the vector handed to argmax is the residual diagonal  A_jj - sum_{g<k} L_gj^2 = sum_{q>=k} (PB)_jq^2
        # (this is what makes the chosen pivot non-zero while the rank is not exhausted)
        v = ins[0]
        ok = isinstance(v, np.ndarray) and v.shape == (n,)
        if ok:
            for j in range(n):
                want = sum((PB[j, q] * PB[j, q] for q in range(k, r)), sp.const(0))
                got = v[j] if isinstance(v[j], Fr) else (sp.const(float(v[j])) if not isinstance(v[j], NonFin) else None)
                ok = ok and got is not None and (got - want).iszero()
        pivot_rule.append(bool(ok))
        last_argmax["v"], last_argmax["k"] = v, k
        return np.asarray(perm[k], dtype=np.dtype(e.outvars[0].aval.dtype))

    last_argmax = {}

    def h_reduce_max(it, e, ins):
        # max over the vector that the preceding argmax was taken of: under the path condition it is the entry at that pivot
        v = ins[0]
        if not (isinstance(v, np.ndarray) and v.dtype == object) or "v" not in last_argmax:
            return None
        w, k = last_argmax["v"], last_argmax["k"]
        if v.shape != w.shape or tuple(e.params.get("axes", ())) != (0,):
            raise Unsupported("reduce_max of a symbolic array that is not the argmax operand")
        for a_, b_ in zip(v.reshape(-1), w.reshape(-1)):
            if a_ is b_:
                continue
            if isinstance(a_, NonFin) or isinstance(b_, NonFin) or not (a_ - b_).iszero():
                raise Unsupported("reduce_max of a symbolic array that is not the argmax operand")
        out = np.empty((), dtype=object)
        out[()] = v[perm[k]]
        return out

    def _sos(x):
        return isinstance(x, Fr) and not x.D and all(all(ex % 2 == 0 for ex in m) and (c.y == 0 and c.x > 0) for m, c in x.n.terms())

    def h_abs(it, e, ins):
        x = ins[0]
        if not (isinstance(x, np.ndarray) and x.dtype == object):
            return None
        calls["abs"] += 1
        out = np.empty(x.shape, dtype=object)
        for idx in np.ndindex(*x.shape):
            v = x[idx]
            out[idx] = v if (_sos(v) or (isinstance(v, Fr) and v.iszero())) else NonFin("bad")     # |x| = x only for a sum of squares
        return out

    def h_pow(it, e, ins):
        x, y = ins
        if isinstance(y, np.ndarray) and y.dtype == object or not (isinstance(x, np.ndarray) and x.dtype == object):
            return None
        yv = float(np.asarray(y))
        if yv not in (0.5, -0.5):
            return None
        calls["pow"] += (yv == 0.5)
        out = np.empty(x.shape, dtype=object)
        for idx in np.ndindex(*x.shape):
            v = x[idx]
            hit = [d for d in diag_syms.values() if isinstance(v, Fr) and (v - d * d).iszero()]
            if not hit:
                raise Unsupported("** 0.5 of a value that is not the square of a positive symbol (the pivot is not the expected Schur complement)")
            out[idx] = hit[0] if yv == 0.5 else sp.const(1) / hit[0]
        return out

    def h_ge(it, e, ins):
        # the derivative rule of abs tests x >= 0: decided for sums of squares only
        x, y = ins
        if not (isinstance(x, np.ndarray) and x.dtype == object) or (isinstance(y, np.ndarray) and y.dtype == object) or np.any(np.asarray(y) != 0):
            return None
        out = np.empty(x.shape, dtype=bool)
        for idx in np.ndindex(*x.shape):
            if not (_sos(x[idx]) or x[idx].iszero()):
                raise Unsupported("sign test of a value that is not a sum of squares")
            out[idx] = True
        return out

    def h_argmin(it, e, ins):
        # a pivot chosen by argmin is not the pivot rule of the contract: recorded as a violated rule (the native search below decides), evaluation continues
        k = calls["argmax"]
        calls["argmax"] += 1
        if k >= len(perm):
            raise Unsupported("more pivot selections than pivots")
        pivot_rule.append(False)
        last_argmax["v"], last_argmax["k"] = ins[0], k
        return np.asarray(perm[k], dtype=np.dtype(e.outvars[0].aval.dtype))

    f = lambda m: lu.modified_cholesky(m, 0, r)
    tag = f"[n={n},rank={r},pivots={'-'.join(map(str, perm[:r]))}{'' if tie is False or tie is None else ',tie@' + str(0 if tie is True else int(tie))}]"
    if deriv:
        return _jax_deriv(n, r, perm, inp, sp, As, Ax, f, tag, calls, dict(argmax=h_argmax, argmin=h_argmin, abs=h_abs, pow=h_pow, ge=h_ge, reduce_max=h_reduce_max), t0, pivot_rule)
    name = "C17.jax.exact" + tag
    out, it = evaluate(sp, f, (As,), (jnp.asarray(Ax),), prim_hook={"argmax": h_argmax, "argmin": h_argmin, "abs": h_abs, "pow": h_pow, "reduce_max": h_reduce_max})
    L = np.asarray(out, dtype=object)
    G = L.T.dot(L)
    o = H.identity(name, G, As * _scale, functions=[FN_JX], inputs=inp, t0=t0,
                   note=f"Gram matrix of the {r} returned vectors == A for every PSD A of rank {r} whose pivot order is {perm[:r]} ({calls['argmax']} argmax, {calls['pow']} sqrt)")
    nat = np.asarray(f(jnp.asarray(Ax)))
    # the float cross-check presupposes that the native run takes the enumerated pivot order: only meaningful when the pivot rule holds
    x = H.crosscheck(name, inp, L, nat, functions=[FN_JX]) if all(pivot_rule) else None
    if o["status"] == REFUTED:
        dev = float(np.abs(nat.T @ nat - Ax).max())
        o["replayed"] = bool(dev > 1e-8)
        o["witness"] = dict(o.get("witness") or {}, native=dict(A=Ax.tolist(), nchol_max=r, max_abs_deviation=dev))
    o2 = ob("C17.jax.pivot" + tag, DISCHARGED if all(pivot_rule) else UNDECIDED, kind="bounded", backend="ring", functions=[FN_JX],
            detail=f"every argmax is taken over the (absolute) residual diagonal: {pivot_rule}")
    if not all(pivot_rule):
        # a different pivot rule may hit a zero pivot: search natively for a PSD matrix of this rank whose Gram matrix deviates
        rng = np.random.default_rng(5)
        for trial in range(200):
            X = rng.normal(size=(n, r)) * rng.choice([1.0, 1e-2, 10.0], size=(n, 1))
            if trial % 3 == 0:
                X[rng.integers(n)] = 0.0
            A = X @ X.T
            Ln = np.asarray(f(jnp.asarray(A)))
            dev = np.abs(Ln.T @ Ln - A).max() if np.all(np.isfinite(Ln)) else float("inf")
            if dev > 1e-7 * (1 + np.abs(A).max()):
                o2 = ob("C17.jax.pivot" + tag, REFUTED, kind="bounded", backend="ring+native-search", functions=[FN_JX], replayed=True,
                        detail=f"argmax is not taken over the residual diagonal ({pivot_rule}) and a rank-{r} PSD matrix is not reproduced",
                        witness=dict(A=A.tolist(), nchol_max=r, max_abs_deviation=float(dev)), witness_class="pivot-rule")
                break
    if calls["argmax"] != r or calls["pow"] != r:
        return [ob(name, UNDECIDED, kind="bounded", backend="ring", functions=[FN_JX], detail=f"expected {r} argmax / sqrt, saw {calls}")]
    return [o, o2] + ([x] if x else [])


def _jax_deriv(n, r, perm, inp, sp, As, Ax, f, tag, calls, hooks, t0, pivot_rule=()):
    """C17.jax.deriv[...]: forward-mode derivative of the factor is finite (no division by an identically zero pivot) and the
    derivative of the reconstruction sum_g L_g L_g^T in any symmetric direction T equals T (full rank)."""
    from vc.jxvc import harness as H
    from vc.jxvc.field import NonFin
    from vc.jxvc.interp import evaluate
    import jax
    import jax.numpy as jnp
    ht = inp._tangent
    Ts = ht["V"].s + ht["V"].s.T
    Tx = ht["V"].x + ht["V"].x.T
    g = lambda m, d: jax.jvp(f, (m,), (d,))
    # argmax is hit once per pivot in the primal only (integer outputs carry no tangent)
    (L, dL), it = evaluate(sp, g, (As, Ts), (jnp.asarray(Ax), jnp.asarray(Tx)), prim_hook=hooks)
    L, dL = np.asarray(L, dtype=object), np.asarray(dL, dtype=object)
    name = "C17.jax.deriv" + tag
    if any(isinstance(v, NonFin) for v in dL.reshape(-1)):
        return [ob(name, REFUTED, kind="bounded", backend="ring", functions=[FN_JX], detail="the tangent of the factor contains a division by zero", wall=time.time() - t0)]
    dG = dL.T.dot(L) + L.T.dot(dL)
    o = H.identity(name, dG, Ts, functions=[FN_JX], inputs=inp, t0=t0,
                   note=f"d/dA [sum_g L_g L_g^T] in a symbolic symmetric direction == that direction; tangent finite (rank {r} = n, pivots {perm[:r]})")
    Ln, dLn = g(jnp.asarray(Ax), jnp.asarray(Tx))
    x = H.crosscheck(name, inp, dL, np.asarray(dLn), functions=[FN_JX]) if all(pivot_rule) else None
    if not all(pivot_rule):
        o = dict(o, status=UNDECIDED, detail="the pivot rule is violated (see jax.pivot): the derivative obligation presupposes it") if o["status"] != REFUTED else o
    if o["status"] == REFUTED:
        # native replay: central finite difference of the reconstruction
        h = 1e-6
        Gp = np.asarray(f(jnp.asarray(Ax + h * Tx))); Gm = np.asarray(f(jnp.asarray(Ax - h * Tx)))
        fd = (Gp.T @ Gp - Gm.T @ Gm) / (2 * h)
        ad = np.asarray(dLn).T @ np.asarray(Ln) + np.asarray(Ln).T @ np.asarray(dLn)
        dev = float(np.abs(fd - ad).max())
        o["replayed"] = bool(dev > 1e-5)
        o["witness"] = dict(o.get("witness") or {}, native=dict(A=Ax.tolist(), T=Tx.tolist(), max_abs_fd_vs_ad=dev))
    return [o] + ([x] if x else [])


def jax_canary():
    """vacuity guard: the Gram matrix must NOT equal 2 A"""
    from vc.jxvc import harness as H
    H.setup_repo()
    import jax.numpy as jnp
    obs = jax_exact(2, perm=[1, 0], _scale=2)
    o = dict(obs[0])
    o["name"] = "C17.canary.gram_is_not_twice_A"
    o["kind"] = "canary"
    return [o]


def np_gram_nd(n=3, timeout_ms=5000, part=0, parts=1):
    """general n x n inputs beyond the decided shapes: every path is attempted; what the solver leaves open is reported as
    NOT-DECIDED (kind 'nd': never counted as proved, never a violation); refutations with a native replay are still violations."""
    out = []
    for o in np_gram(n, timeout_ms=timeout_ms, part=part, parts=parts, stop_on_unknown=True):
        if o["status"] == UNDECIDED:
            o = dict(o, kind="nd")
        out.append(o)
    return out

"""C11 (and the multi-Slater part of C01): determinant-list trials.

The REAL pyscf_interface.get_excitations / parity are executed on determinant dictionaries whose coefficients are
symbolic field elements (they are only multiplied by +-1.0 and reshaped), and their output is fed to the traced
multislater._calc_overlap(_restricted).  Spec: sum_i c_i <D_i|phi> with alpha-string x beta-string signs.
"""
from __future__ import annotations

import itertools
import time

import numpy as np

from vc.common import ob, DISCHARGED, REFUTED, UNDECIDED, Unsupported
from vc.jxvc import harness as H
from vc.jxvc.field import Fr
from vc.jxvc.interp import evaluate
from vc.spec.fock import Fock

FNS = ["pyscf_interface.get_excitations", "pyscf_interface.parity", "wavefunctions.multislater._calc_overlap",
       "wavefunctions.multislater._calc_green", "wavefunctions.multislater._det_overlap"]


def all_dets(norb, nu, nd):
    da = [tuple(1 if k in s else 0 for k in range(norb)) for s in itertools.combinations(range(norb), nu)]
    db = [tuple(1 if k in s else 0 for k in range(norb)) for s in itertools.combinations(range(norb), nd)]
    return [(a, b) for a in da for b in db]


def _excitation_rank(d, d0):
    return sum(abs(x - y) for x, y in zip(d[0], d0[0])) // 2 + sum(abs(x - y) for x, y in zip(d[1], d0[1])) // 2


def ms_state(norb, nu, nd, ref, order="id", maxexc="full", restricted=False, subset=None):
    """C11.ms.state[...]: overlap of the list trial == sum_i c_i <D_i|phi> for reference number `ref` of the full list."""
    t0 = time.time()
    H.setup_repo()
    import jax
    import jax.numpy as jnp
    from ad_afqmc import wavefunctions as wf, pyscf_interface as pi
    dets = all_dets(norb, nu, nd)
    if subset is not None:
        dets = [dets[k] for k in subset]
    inp = H.Inputs(ref)
    hc = inp.declare("c", (len(dets),))
    if restricted:
        hw = [inp.declare("w", (norb, nu), "holo")]
    else:
        hw = [inp.declare("wu", (norb, nu), "holo"), inp.declare("wd", (norb, nd), "holo")]
    inp.build()
    cs, cx = hc["V"].s, hc["V"].x
    idx = list(range(len(dets)))
    first = idx.pop(ref % len(dets))
    if order == "rev":
        idx = idx[::-1]
    elif order == "rot":
        idx = idx[1:] + idx[:1]
    seq = [first] + idx
    d0 = dets[first]
    rmax = max(_excitation_rank(dets[k], d0) for k in seq)
    mx = (nu + nd) if maxexc == "full" else max(rmax, 1)
    state_s = {dets[k]: cs[k] for k in seq}
    state_x = {dets[k]: float(cx[k]) for k in seq}
    name = f"ms.state[norb={norb},nel={nu}+{nd},ref={ref},order={order},maxexc={maxexc},r={int(restricted)}{'' if subset is None else ',sub=' + '-'.join(map(str, subset))}]"
    try:
        out_s = pi.get_excitations(state=state_s, max_excitation=mx)
        out_x = pi.get_excitations(state=state_x, max_excitation=mx)
    except Exception as e:   # noqa
        return [ob("C11." + name, REFUTED, kind="bounded", backend="concrete-exec", wall=time.time() - t0, replayed=True,
                   detail=f"get_excitations raised {type(e).__name__}: {e}", witness_class="raises",
                   witness=dict(state=[(d, str(v)) for d, v in state_x.items()][:8]), functions=FNS[:2])]
    keys = ("Acre", "Ades", "Bcre", "Bdes", "coeff", "ref_det")
    wave_s = dict(zip(keys, out_s))
    wave_x = dict(zip(keys, out_x))
    # coefficient arrays: object arrays of Fr on the symbolic side
    wave_s["coeff"] = {k: _objarr(inp.sp, v) for k, v in wave_s["coeff"].items()}
    for k in ("Acre", "Ades", "Bcre", "Bdes"):
        wave_s[k] = {kk: np.asarray(v) for kk, v in wave_s[k].items()}
    wave_s["ref_det"] = np.asarray(wave_s["ref_det"])
    wave_xj = jax.tree_util.tree_map(lambda a: jnp.asarray(a), wave_x)
    trial = wf.multislater(norb, (nu, nd), mx)
    F = Fock(norb, (nu, nd))
    ws = [h["V"].s for h in hw]
    wx = [jnp.asarray(h["V"].x) for h in hw]
    meth = "_calc_overlap_restricted" if restricted else "_calc_overlap"
    fn = getattr(trial, meth)
    out, it = evaluate(inp.sp, fn, tuple(ws) + (wave_s,), tuple(wx) + (wave_xj,))
    nat = complex(fn(*wx, wave_xj))
    # spec
    def bra(c):
        obj = getattr(c, "dtype", None) == object
        v = np.array([c[0] * 0] * F.dim, dtype=object) if obj else np.zeros(F.dim, dtype=complex)
        for k in seq:
            a = tuple(i for i, o in enumerate(dets[k][0]) if o)
            b = tuple(i for i, o in enumerate(dets[k][1]) if o)
            v[F.idx(a, b)] = v[F.idx(a, b)] + c[k]
        return v
    wu_s, wd_s = (ws[0], ws[0]) if restricted else ws
    wu_x, wd_x = (np.asarray(wx[0]),) * 2 if restricted else (np.asarray(wx[0]), np.asarray(wx[1]))
    spec = F.inner(bra(cs), F.det_vec(wu_s, wd_s))
    o = H.identity("C11." + name, out, spec, functions=FNS, inputs=inp, t0=t0,
                   note=f"reference {d0}, {len(seq)} determinants, max_excitation={mx}")
    x = H.crosscheck("C11." + name, inp, out, nat)
    if o["status"] == REFUTED:
        want = complex(F.inner(bra(cx.astype(complex)), F.det_vec(wu_x, wd_x)))
        err = abs(nat - want) / (1 + abs(want))
        o["replayed"] = bool(err > 1e-8)
        o["witness_class"] = "non-aufbau-reference" if not _aufbau(d0) else "aufbau-reference"
        o["witness"] = dict(o.get("witness") or {}, native=dict(reference=d0, order=order, got=str(nat), expected=str(want), rel_err=err))
    return [o] + ([x] if x else [])


def _aufbau(d0):
    return all(list(s) == sorted(s, reverse=True) for s in d0)


def _objarr(sp, v):
    a = np.asarray(v, dtype=object).reshape(-1)
    out = np.empty(a.shape, dtype=object)
    for i, x in enumerate(a):
        out[i] = x if isinstance(x, Fr) else sp.const(float(x))
    return out


def ms_parity(norb_max=5):
    """C11.ms.parity (BOUNDED, exhaustive): parity(d0, cre, des) is the sign s with
       prod_k a+_{des_k} a_{cre_k} |d0> = s |d>   in the string order, for every d0, d with norb <= norb_max."""
    t0 = time.time()
    H.setup_repo()
    from ad_afqmc import pyscf_interface as pi
    n, bad = 0, []
    for norb in range(1, norb_max + 1):
        for ne in range(0, norb + 1):
            strs = list(itertools.combinations(range(norb), ne))
            for s0 in strs:
                d0 = np.array([1 if k in s0 else 0 for k in range(norb)])
                for s1 in strs:
                    if s0 == s1:
                        continue
                    d1 = np.array([1 if k in s1 else 0 for k in range(norb)])
                    cre = np.nonzero((d0 - d1) > 0)
                    des = np.nonzero((d0 - d1) < 0)
                    got = pi.parity(d0, cre, des)
                    # brute force: apply a+_{new} a_{old} pairs in the order parity() uses (k-th old with k-th new)
                    t, sg = tuple(s0), 1
                    for o_, nw in zip(cre[0], des[0]):
                        r = Fock._ann(t, int(o_))
                        r2 = Fock._cre(r[1], int(nw))
                        sg *= r[0] * r2[0]
                        t = r2[1]
                    n += 1
                    if t != tuple(sorted(s1)) or got != sg:
                        bad.append((s0, s1, got, sg))
    return [ob(f"C11.ms.parity[norb<={norb_max}]", REFUTED if bad else DISCHARGED, kind="bounded", backend="exhaustive-exec",
               wall=time.time() - t0, detail=f"{n} (reference, target) string pairs enumerated; mismatches {bad[:3]}",
               replayed=bool(bad), functions=["pyscf_interface.parity"])]


def ms_fb(norb, nu, nd, ref, nchol=1):
    """C03.fb.fock.multislater[...]: reverse-mode force bias of a determinant-list trial (any reference determinant) == <psi|L_g|phi>/<psi|phi>"""
    t0 = time.time()
    H.setup_repo()
    import jax
    import jax.numpy as jnp
    from ad_afqmc import wavefunctions as wf, pyscf_interface as pi
    dets = all_dets(norb, nu, nd)
    inp = H.Inputs(ref + 50)
    hc = inp.declare("c", (len(dets),))
    # reverse mode conjugates cotangents: the walker gets Wirtinger pairs (w, w*), and the result must not depend on w*
    hw = [inp.declare("wu", (norb, nu), True), inp.declare("wd", (norb, nd), True)]
    hl = inp.declare("la", (nchol, norb, norb))
    inp.build()
    sp = inp.sp
    cs, cx = hc["V"].s, hc["V"].x
    idx = list(range(len(dets)))
    first = idx.pop(ref % len(dets))
    seq = [first] + idx
    mx = max(max(_excitation_rank(dets[k], dets[first]) for k in seq), 1)
    out_s = pi.get_excitations(state={dets[k]: cs[k] for k in seq}, max_excitation=mx)
    out_x = pi.get_excitations(state={dets[k]: float(cx[k]) for k in seq}, max_excitation=mx)
    keys = ("Acre", "Ades", "Bcre", "Bdes", "coeff", "ref_det")
    wave_s, wave_x = dict(zip(keys, out_s)), dict(zip(keys, out_x))
    wave_s["coeff"] = {k: _objarr(sp, v) for k, v in wave_s["coeff"].items()}
    for k in ("Acre", "Ades", "Bcre", "Bdes"):
        wave_s[k] = {kk: np.asarray(v) for kk, v in wave_s[k].items()}
    wave_s["ref_det"] = np.asarray(wave_s["ref_det"])
    wave_xj = jax.tree_util.tree_map(lambda a: jnp.asarray(a), wave_x)
    trial = wf.multislater(norb, (nu, nd), mx)
    L_s = hl["V"].s + np.swapaxes(hl["V"].s, -1, -2)
    L_x = hl["V"].x + np.swapaxes(hl["V"].x, -1, -2)
    ham_s, ham_x = dict(chol=L_s.reshape(nchol, norb * norb)), dict(chol=jnp.asarray(L_x.reshape(nchol, norb * norb)))
    ws = [h["V"].s for h in hw]
    wx = [jnp.asarray(h["V"].x) for h in hw]
    out, it = evaluate(sp, trial._calc_force_bias, tuple(ws) + (ham_s, wave_s), tuple(wx) + (ham_x, wave_xj))
    nat = trial._calc_force_bias(*wx, ham_x, wave_xj)
    F = Fock(norb, (nu, nd))
    psi = np.array([cs[0] * 0] * F.dim, dtype=object)
    for k in seq:
        a = tuple(i for i, o in enumerate(dets[k][0]) if o)
        b = tuple(i for i, o in enumerate(dets[k][1]) if o)
        psi[F.idx(a, b)] = psi[F.idx(a, b)] + cs[k]
    phi = F.det_vec(ws[0], ws[1])
    D0 = F.inner(psi, phi)
    spec = np.array([F.inner(psi, F.one_body_both(L_s[g], phi)) / D0 for g in range(nchol)], dtype=object)
    name = f"C03.fb.fock.multislater[norb={norb},nel={nu}+{nd},ref={ref}]"
    o = H.identity(name, out, spec, functions=["wavefunctions.wave_function_auto._calc_force_bias", "wavefunctions.multislater._calc_overlap"], inputs=inp, t0=t0,
                   note=f"reference {dets[first]}")
    x = H.crosscheck(name, inp, out, nat)
    if o["status"] == REFUTED:
        o["replayed"] = True if x is None else False
    return [o] + ([x] if x else [])

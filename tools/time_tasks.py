"""development aid: run every thorough-only task of a property in its own process with a time limit and print wall times"""
import sys, json, importlib, subprocess, time, os
from concurrent.futures import ThreadPoolExecutor
sys.path.insert(0, os.path.dirname(os.path.dirname(os.path.abspath(__file__))))
prop, limit = sys.argv[1], int(sys.argv[2]) if len(sys.argv) > 2 else 600
pm = importlib.import_module('props.' + prop)
q = [json.dumps(t) for t in pm.tasks('quick')]
th = [t for t in pm.tasks('thorough') if json.dumps(t) not in q]
code = "import sys,json,importlib; sys.path.insert(0,'/verif'); t=json.loads(sys.argv[1]); m=importlib.import_module(t[0]); r=getattr(m,t[1])(**t[2]); print([ (o['name'],o['status']) for o in (r if isinstance(r,list) else [r]) if o['status']!='discharged'][:3])"
def run(t):
    t0 = time.time()
    try:
        p = subprocess.run([os.path.join('/verif/.venv/bin/python'), '-c', code, json.dumps(t)], capture_output=True, text=True, timeout=limit)
        out = (p.stdout.strip().splitlines() or [''])[-1][:150] + (' ERR ' + p.stderr.strip().splitlines()[-1][:150] if p.returncode else '')
    except subprocess.TimeoutExpired:
        out = 'TIMEOUT'
    return f"{time.time()-t0:7.1f}s {t[1]} {json.dumps(t[2])} {out}"
with ThreadPoolExecutor(8) as ex:
    for line in ex.map(run, th):
        print(line, flush=True)

#!/usr/bin/env python3
"""development aid: applies every seeded/<name>/patch.diff to its own scratch worktree of /repo (under /tmp, removed afterwards) and runs the
quick check of the property it breaks with REPO=<scratch>. Prints one line per seed: exit code, number of VIOLATION lines, how many with replay."""
import json, os, subprocess, sys, glob, shutil
from concurrent.futures import ThreadPoolExecutor
V = os.path.dirname(os.path.dirname(os.path.abspath(__file__)))
only = sys.argv[1:]
seeds = sorted(d for d in glob.glob(V + "/seeded/*") if os.path.isdir(d) and (not only or any(o in d for o in only)))

def run(d):
    name = os.path.basename(d)
    meta = json.load(open(d + "/meta.json"))
    prop = meta["property"][:3]
    wt = f"/tmp/seedwt_{name}"
    subprocess.run(["git", "-C", "/repo", "worktree", "remove", "--force", wt], capture_output=True)
    shutil.rmtree(wt, ignore_errors=True)
    subprocess.run(["git", "-C", "/repo", "worktree", "add", "-q", "--detach", wt, "HEAD"], check=True, capture_output=True)
    try:
        a = subprocess.run(["git", "-C", wt, "apply", d + "/patch.diff"], capture_output=True, text=True)
        if a.returncode:
            return f"{name:45s} PATCH DOES NOT APPLY: {a.stderr.strip()[:100]}"
        env = dict(os.environ, REPO=wt, VERIF_EVIDENCE_DIR=f"/tmp/seedev_{name}", VERIF_REPLAY_DIR=f"/tmp/seedrp_{name}")
        try:
            p = subprocess.run([V + "/check", prop], capture_output=True, text=True, env=env, timeout=1500, cwd=V)
            out, rc = p.stdout, p.returncode
        except subprocess.TimeoutExpired:
            return f"{name:45s} TIMEOUT"
        viol = [l for l in out.splitlines() if l.startswith("VIOLATION")]
        rep = [l for l in viol if not l.rstrip().endswith("no-failing-input-found")]
        other = [l[:90] for l in out.splitlines() if l.startswith(("UNDECIDED", "CRASH", "CANARY"))][:2]
        return f"{name:45s} {prop} exit={rc} violations={len(viol)} with_replay={len(rep)} {' | '.join(other)}"
    finally:
        subprocess.run(["git", "-C", "/repo", "worktree", "remove", "--force", wt], capture_output=True)
        shutil.rmtree(f"/tmp/seedev_{name}", ignore_errors=True); shutil.rmtree(f"/tmp/seedrp_{name}", ignore_errors=True)

with ThreadPoolExecutor(4) as ex:
    for line in ex.map(run, seeds):
        print(line, flush=True)

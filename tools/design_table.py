#!/usr/bin/env python3
"""prints the 'what exists' table rows of DESIGN.md section 0 from the evidence files (quick tier)"""
import json, glob, os, importlib, sys
sys.path.insert(0, os.path.dirname(os.path.dirname(os.path.abspath(__file__))))
for f in sorted(glob.glob(os.path.join(os.path.dirname(__file__), "..", "evidence", "C*.json"))):
    e = json.load(open(f)); c = e["coverage"]; pid = e["property_id"]
    pm = importlib.import_module("props." + pid)
    be = ", ".join(f"{k}:{v}" for k, v in sorted(c["discharged_by_backend"].items(), key=lambda t: -t[1])[:4])
    print(f"| {pid} | {e['level']} | {pm.ENGINE} | {c['obligations']} proof + {c['bounded_obligations']} bounded + {c['canaries']} canaries"
          f"{' + ' + str(len(c['known_findings'])) + ' known' if c['known_findings'] else ''} | {be} | {e['wall_s']:.0f} s |")

#!/bin/sh
# tools/try_seed.sh <label> <prop> : runs <prop>'s quick check against the scratch worktree /tmp/wt_<label> (change applied there)
L=$1; P=$2
cd /tmp/wt_$L && git checkout -q -- ad_afqmc && git apply /tmp/${L}_out/patch.diff && cd /verif
REPO=/tmp/wt_$L VERIF_EVIDENCE_DIR=/tmp/ev_$L VERIF_REPLAY_DIR=/tmp/rp_$L timeout 1500 ./check $P 2>&1 | grep -E "^\[C|VIOLATION|UNDECIDED|CRASH|CANARY" | cut -c1-330 | head -12
echo "exit-status-of-check: see summary line (refuted>0 => 1)"
rm -rf /tmp/ev_$L

#!/bin/sh
# tools/confirm_seed.sh <prop> <name> <needs-text>   -- confirms a seeded change in its scratch worktree /tmp/wt_<prop>
# (demo fails with the change and passes without it; the existing suite passes with it), then stores it in seeded/<name>/.
P=$1; NAME=$2; NEEDS=$3; WT=${4:-/tmp/wt_$P}; OUT=/tmp/${P}_out
set -e
cd $WT
git checkout -q -- ad_afqmc
/venv/bin/python demo_$P.py > /tmp/demo_orig_$P.log 2>&1 && ORIG=0 || ORIG=$?
git apply $OUT/patch.diff
/venv/bin/python demo_$P.py > /tmp/demo_mut_$P.log 2>&1 && MUT=0 || MUT=$?
/venv/bin/python -m pytest -q -p no:cacheprovider --timeout=900 > /tmp/tests_mut_$P.log 2>&1 || true
TESTS=$(tail -1 /tmp/tests_mut_$P.log)
echo "demo original exit=$ORIG ; demo with change exit=$MUT ; tests with change: $TESTS"
if [ "$ORIG" = 0 ] && [ "$MUT" != 0 ] && echo "$TESTS" | grep -q "41 passed"; then
  D=/verif/seeded/$NAME; mkdir -p $D
  cp $OUT/patch.diff $D/patch.diff; cp $OUT/demo_$P.py $D/demo.py; cp $OUT/notes.md $D/agent_notes.md 2>/dev/null || true
  python3 - "$P" "$NAME" "$NEEDS" "$TESTS" <<'PY'
import json,sys
p,name,needs,tests=sys.argv[1:5]
json.dump(dict(property=p,breaks=p,needs_to_manifest=needs,
  confirmed=dict(demo_original_exit=0,demo_with_change="non-zero",existing_tests_with_change=tests,
                 commands=["cd <worktree> && /venv/bin/python demo.py","git apply patch.diff","/venv/bin/python -m pytest -q -p no:cacheprovider --timeout=900"]),
  detected_by=None),open(f"/verif/seeded/{name}/meta.json","w"),indent=1)
PY
  echo "CONFIRMED -> $D"
else
  echo "NOT CONFIRMED"; tail -5 /tmp/demo_orig_$P.log /tmp/demo_mut_$P.log
fi

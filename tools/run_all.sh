#!/bin/sh
# runs every claimed check's quick tier on the current /repo tree (sequentially), validates evidence
cd /verif
git -C /repo status --short | grep -q . && { echo "REPO DIRTY"; exit 1; }
for p in $(.venv/bin/python -c "import json;print(' '.join(c['property_id'] for c in json.load(open('MANIFEST.json'))['checks']))"); do
  /usr/bin/time -f "$p %es" ./check $p --tier ${1:-quick} > /tmp/runall_$p.log 2>&1; echo "$p exit=$? $(tail -1 /tmp/runall_$p.log | cut -c1-160)"
done
.venv/bin/python -c "
import json,jsonschema,glob
m=json.load(open('MANIFEST.json')); jsonschema.validate(m,json.load(open('/root/.vp/MANIFEST.schema.json')))
for c in m['checks']:
    e=json.load(open(c['evidence_file'])); jsonschema.validate(e,json.load(open('/root/.vp/EVIDENCE.schema.json')))
    assert e['level']==c['level_claimed']['category'], c['property_id']
    if e['level']=='proof': assert e['coverage']['obligations']==e['coverage']['discharged'], c['property_id']
print('manifest + evidence valid')"

"""Engine A (pyvc): symbolic execution of the REAL Python source (ast) into z3 verification conditions.

Exploration is by decision replay: a *scenario* (host-Python function in a contracts/ sidecar) drives the
executor along ONE path; every symbolic branch consults a decision prefix; the explorer re-runs the
scenario for every feasible alternative (DFS).  Each `prove()` on a path yields the VC  (assumptions ∧ path
condition) ⇒ goal.  An obligation is discharged iff the VC of every feasible path is `unsat`-negated.

Semantics assumed (stated in DESIGN.md §2.2): Python ints are mathematical integers; `//`, `%` are floor
division/non-negative remainder (a side obligation `divisor > 0` is generated for every symbolic divisor, which
makes them coincide with SMT `div`/`mod`); floats are reals unless the scenario works in Float64; loops over
symbolic ranges are summarised by the rules of §2.2 (comprehension rule, monotone constant-store rule, opaque
deterministic region).  Anything else raises Unsupported -> exit 2.
"""
from __future__ import annotations

import ast
import itertools
import time
from fractions import Fraction

import z3

from .. import front
from ..common import Unsupported, ob, DISCHARGED, REFUTED, UNDECIDED, CRASH


# ----------------------------------------------------------------------------- values
class SymSeq:
    """Sequence of symbolic length: element i is fn(i). Produced by the comprehension rule (ii)."""

    def __init__(self, length, fn, kind="tuple"):
        self.length, self.fn, self.kind = length, fn, kind

    def at(self, i):
        return self.fn(i)


class NdStore:
    """2-d integer array created by np.zeros and written only by constant stores (rule iii).
    families: list of (itervars, guard, (e1, e2), value)."""

    def __init__(self, shape, init=0):
        self.shape, self.init, self.families = shape, init, []

    def cases(self, run):
        """Skolemised case split of 'h[a,b] == stored constant': for each store family fresh iteration constants w and
        the formula  guard(w) (the iteration that performed the store), plus the stored index pair (e1(w), e2(w))."""
        out = []
        for ivs, guard, (e1, e2), v in self.families:
            ws = [run.fresh("w") for _ in ivs]
            sub = list(zip(ivs, ws))
            out.append((ws, z3.substitute(guard, *sub) if sub else guard,
                        z3.substitute(e1, *sub) if sub else e1, z3.substitute(e2, *sub) if sub else e2, v))
        return out

    def holds_at(self, a, b, val, witnesses):
        """quantifier-free sufficient condition for h[a,b]==val (val = the stored constant): some family stores
        (a,b) in one of the given candidate iterations (tuples of terms for the iteration variables)."""
        alts = []
        for ivs, guard, (e1, e2), v in self.families:
            if v != val:
                continue
            for w in witnesses:
                if len(w) != len(ivs):
                    continue
                sub = list(zip(ivs, [to_z3(x) for x in w]))
                g = z3.substitute(guard, *sub) if sub else guard
                alts.append(z3.And(g, a == (z3.substitute(e1, *sub) if sub else e1), b == (z3.substitute(e2, *sub) if sub else e2)))
        return z3.Or(alts) if alts else z3.BoolVal(False)

    def holds(self, a, b, val):
        """z3 formula: h[a,b] == val   (val concrete)"""
        hit = []
        for ivs, guard, (e1, e2), v in self.families:
            body = z3.And(guard, a == e1, b == e2)
            hit.append((z3.Exists(list(ivs), body) if ivs else body, v))
        vals = {v for _, v in hit}
        if len(vals) > 1:
            raise Unsupported("NdStore with different stored constants")
        anyhit = z3.Or([h for h, _ in hit]) if hit else z3.BoolVal(False)
        if hit and val == next(iter(vals)):
            return anyhit if val != self.init else z3.BoolVal(True)
        if val == self.init:
            return z3.Not(anyhit)
        return z3.BoolVal(False)


class Obj:
    def __init__(self, mod, cls, fields=None):
        self.mod, self.cls, self.fields = mod, cls, dict(fields or {})

    def __repr__(self):
        return f"<{self.mod}.{self.cls} {list(self.fields)}>"


class Opaque:
    """Uninterpreted deterministic value: equal tag and equal deps => equal value."""

    def __init__(self, tag, deps=()):
        self.tag, self.deps = tag, tuple(deps)

    def __repr__(self):
        return f"Opaque({self.tag})"


class Func:
    def __init__(self, node, mod, closure=None, selfobj=None, qual=None):
        self.node, self.mod, self.closure, self.selfobj, self.qual = node, mod, closure, selfobj, qual


class Lib:
    def __init__(self, name):
        self.name = name

    def __repr__(self):
        return f"Lib({self.name})"


class ClassRef:
    def __init__(self, mod, name):
        self.mod, self.name = mod, name


class ModRef:
    def __init__(self, mod):
        self.mod = mod


class PyRaise(Exception):
    """The analysed code raises on this path."""

    def __init__(self, exc, msg=""):
        self.exc, self.msg = exc, msg


class _Return(Exception):
    def __init__(self, v):
        self.v = v


class _Break(Exception):
    pass


class _Continue(Exception):
    pass


class _Abandon(Exception):
    """Path infeasible."""


def is_z3(v):
    return isinstance(v, z3.ExprRef)


def is_sym(v):
    if is_z3(v) or isinstance(v, (SymSeq, Opaque, NdStore)):
        return True
    if isinstance(v, (tuple, list)):
        return any(is_sym(x) for x in v)
    return False


def to_z3(v, like=None):
    if is_z3(v):
        return v
    if isinstance(v, bool):
        return z3.BoolVal(v)
    if isinstance(v, int):
        if like is not None and z3.is_fp(like):
            return z3.FPVal(float(v), like.sort())
        if like is not None and like.sort() == z3.RealSort():
            return z3.RealVal(v)
        return z3.IntVal(v)
    if isinstance(v, float):
        if like is not None and z3.is_fp(like):
            return z3.FPVal(v, like.sort())
        fr = Fraction(v)
        return z3.RealVal(f"{fr.numerator}/{fr.denominator}")
    raise Unsupported(f"cannot convert {type(v).__name__} to SMT")


# ----------------------------------------------------------------------------- run (one path)
class Run:
    def __init__(self, decisions, explorer):
        self.dec = list(decisions)
        self.pos = 0
        self.pc = []          # path condition
        self.assumed = []     # scenario assumptions (requires)
        self.ex = explorer
        self.counter = itertools.count()
        self.vcs = []         # (name, kind, hyps, goal, meta)
        self.itervars = []    # stack of (vars, guard) for rule (iii)
        self.quiet = 0        # >0: safety failures abandon the path instead of being reported (covered by another obligation)
        self.nd_base = None   # index into pc where the outermost symbolic loop started (guard mode)
        self.trace = []
        self.contracts = {}   # qualified name -> host callable(interp, *args): callee replaced by its contract
        self.registry = {}    # facts recorded by library models (cumsum arrays, searchsorted functions, ...)

    # ---- scenario API
    def fresh(self, base, sort="int"):
        n = f"{base}!{next(self.counter)}"
        return {"int": z3.Int, "real": z3.Real, "bool": z3.Bool}[sort](n) if sort != "fp" else z3.FP(n, z3.Float64())

    def int(self, name):
        return z3.Int(name)

    def real(self, name):
        return z3.Real(name)

    def assume(self, *fs):
        for f in fs:
            self.assumed.append(to_z3(f))

    def hyps(self):
        return list(self.assumed) + list(self.pc)

    def prove(self, name, goal, kind="proof", functions=(), note=""):
        if self.quiet and name.startswith("safe."):
            return
        if isinstance(goal, bool):
            goal = z3.BoolVal(goal)
        self.vcs.append(dict(name=name, kind=kind, hyps=self.hyps(), goal=goal, functions=list(functions), note=note))

    def fail(self, name, detail, kind="proof", functions=(), witness_class=""):
        """A type-level (decided without solver) refutation on this path, still under the path condition."""
        if self.quiet:
            raise _Abandon()
        self.vcs.append(dict(name=name, kind=kind, hyps=self.hyps(), goal=z3.BoolVal(False), functions=list(functions),
                             note=detail, witness_class=witness_class))

    def lemmas(self, name, facts, timeout_ms=4000):
        """Houdini-style staged lemmas: each candidate fact is attempted NOW (short budget) from the current
        hypotheses; only the proved ones are added as hypotheses for what follows (cut rule, sound). Returns the
        number proved.  Unproved candidates are simply dropped - they are never assumed."""
        n = 0
        for k, f in enumerate(facts):
            f = to_z3(f)
            st, be, det, mod, w = discharge(dict(hyps=self.hyps(), goal=f, no_recheck=True), timeout_ms)
            if st == DISCHARGED:
                self.pc.append(f)
                n += 1
        return n

    # ---- branching
    def branch(self, cond):
        """Return a Python bool for a (possibly symbolic) condition, forking via decision replay."""
        if isinstance(cond, (bool, int)) and not is_z3(cond):
            return bool(cond)
        if cond is None:
            return False
        if not is_z3(cond):
            if isinstance(cond, (tuple, list, str)):
                return len(cond) > 0
            raise Unsupported(f"branch on {type(cond).__name__}")
        cond = z3.simplify(cond)
        if z3.is_true(cond):
            return True
        if z3.is_false(cond):
            return False
        if self.pos < len(self.dec):
            d = self.dec[self.pos]
            self.pos += 1
            self.pc.append(cond if d else z3.Not(cond))
            return d
        # new decision point: which sides are feasible?
        ft = self.ex.feasible(self.hyps() + [cond])
        ff = self.ex.feasible(self.hyps() + [z3.Not(cond)])
        if ft and ff:
            self.ex.push_alternative(self.dec[: self.pos] + [False])
            self.dec.append(True)
            self.pos += 1
            self.pc.append(cond)
            return True
        if ft or ff:
            d = bool(ft)
            self.dec.append(d)
            self.pos += 1
            self.pc.append(cond if d else z3.Not(cond))
            return d
        raise _Abandon()

    # ---- calling the real code
    def construct(self, mod, cls, *args, quiet=False, **kw):
        """quiet=True: 'given a successfully constructed object' (constructor safety is a separate obligation)."""
        if quiet:
            self.quiet += 1
        try:
            return Interp(self, mod).instantiate(ClassRef(mod, cls), list(args), kw)
        except PyRaise:
            if quiet:
                raise _Abandon()
            raise
        finally:
            if quiet:
                self.quiet -= 1

    def call(self, qual, *args, **kw):
        """qual = 'module.func'"""
        mod = qual.split(".")[0]
        node, _ = front.get_function(qual)
        return Interp(self, mod).call_func(Func(node, mod, qual=qual), list(args), kw)

    def method(self, obj, name, *args, **kw):
        it = Interp(self, obj.mod)
        return it.call_value(it.getattr(obj, name), list(args), kw)

    def index(self, seq, i):
        return Interp(self, "lattices").subscript(seq, i)

    def equal(self, a, b):
        return Interp(self, "lattices").equal(a, b)


# ----------------------------------------------------------------------------- interpreter
class Interp:
    def __init__(self, run, mod):
        self.run, self.mod = run, mod
        self.imports = _imports(mod)

    # ---------- names
    def lookup(self, name, env):
        for e in env:
            if name in e:
                return e[name]
        src, tree = front.load(self.mod)
        for n in tree.body:
            if isinstance(n, ast.FunctionDef) and n.name == name:
                return Func(n, self.mod, qual=f"{self.mod}.{name}")
            if isinstance(n, ast.ClassDef) and n.name == name:
                return ClassRef(self.mod, name)
        if name in self.imports:
            t = self.imports[name]
            if t.startswith("ad_afqmc."):
                rest = t[len("ad_afqmc."):]
                if "." not in rest:
                    return ModRef(rest)
                m, f = rest.split(".", 1)
                node, _ = front.get_function(f"{m}.{f}") if f in [x.name for x in front.load(m)[1].body if isinstance(x, ast.FunctionDef)] else (None, None)
                if node is not None:
                    return Func(node, m, qual=f"{m}.{f}")
                return ClassRef(m, f)
            return Lib(t)
        if name in _BUILTINS:
            return Lib("builtins." + name)
        raise PyRaise("NameError", name)

    # ---------- function calls
    def call_func(self, f: Func, args, kwargs):
        if f.qual and f.qual in self.run.contracts:
            a = ([f.selfobj] if f.selfobj is not None else []) + list(args)
            return self.run.contracts[f.qual](self, *a, **kwargs)
        it = self if f.mod == self.mod else Interp(self.run, f.mod)
        node = f.node
        if isinstance(node, ast.Lambda):
            params = node.args
        else:
            params = node.args
        local = {}
        pos = list(params.posonlyargs) + list(params.args)
        allargs = list(args)
        if f.selfobj is not None:
            allargs = [f.selfobj] + allargs
        if len(allargs) > len(pos) and params.vararg is None:
            self.run.fail("safe.arity", f"too many positional arguments for {f.qual or 'lambda'}", witness_class="arity")
            raise PyRaise("TypeError", "too many positional arguments")
        for p, a in zip(pos, allargs):
            local[p.arg] = a
        if params.vararg is not None:
            local[params.vararg.arg] = tuple(allargs[len(pos):])
        names = [p.arg for p in pos] + [p.arg for p in params.kwonlyargs]
        for k, v in kwargs.items():
            if k not in names:
                self.run.fail("safe.arity", f"unexpected keyword {k} for {f.qual}", witness_class="arity")
                raise PyRaise("TypeError", f"unexpected keyword {k}")
            local[k] = v
        defaults = params.defaults
        for p, d in zip(pos[len(pos) - len(defaults):], defaults):
            if p.arg not in local:
                local[p.arg] = it.eval(d, [{}])
        for p, d in zip(params.kwonlyargs, params.kw_defaults):
            if p.arg not in local and d is not None:
                local[p.arg] = it.eval(d, [{}])
        for p in pos:
            if p.arg not in local:
                self.run.fail("safe.arity", f"missing argument {p.arg} for {f.qual}", witness_class="arity")
                raise PyRaise("TypeError", f"missing argument {p.arg}")
        env = [local] + (f.closure or [])
        if isinstance(node, ast.Lambda):
            return it.eval(node.body, env)
        try:
            it.block(node.body, env)
        except _Return as r:
            return r.v
        return None

    def call_value(self, fv, args, kwargs):
        if isinstance(fv, Func):
            return self.call_func(fv, args, kwargs)
        if isinstance(fv, ClassRef):
            return self.instantiate(fv, args, kwargs)
        if isinstance(fv, Lib):
            from . import libmodels
            return libmodels.call(self, fv.name, args, kwargs)
        if callable(fv):
            return fv(*args, **kwargs)
        if isinstance(fv, Opaque) and getattr(self.run, "uninterp_libs", False):
            return Opaque("call", [fv] + list(args) + [(k, v) for k, v in sorted(kwargs.items())])
        self.run.fail("safe.call", f"object of type {type(fv).__name__} is not callable", witness_class="notcallable")
        raise PyRaise("TypeError", "not callable")

    def instantiate(self, c: ClassRef, args, kwargs):
        """dataclass constructor model: positional binding in field order, defaults, then __post_init__."""
        cnode = front.classes(c.mod)[c.name]
        decos = [ast.unparse(d) for d in cnode.decorator_list]
        it = self if c.mod == self.mod else Interp(self.run, c.mod)
        if not any(d.startswith("dataclass") for d in decos):
            o = Obj(c.mod, c.name)
            init = front.resolve_method(c.mod, c.name, "__init__")
            if init:
                node, _ = front.get_function(init)
                it.call_func(Func(node, c.mod, selfobj=o, qual=init), args, kwargs)
            return o
        fields = _dc_fields(c.mod, c.name)
        o = Obj(c.mod, c.name)
        if len(args) > len(fields):
            self.run.fail("safe.arity", f"{c.name}() takes {len(fields)} fields, {len(args)} given", witness_class="arity")
            raise PyRaise("TypeError", "too many arguments")
        for (fname, _), a in zip(fields, args):
            o.fields[fname] = a
        for k, v in kwargs.items():
            if k not in [f for f, _ in fields]:
                self.run.fail("safe.arity", f"{c.name}() unexpected keyword {k}", witness_class="arity")
                raise PyRaise("TypeError", "unexpected keyword")
            o.fields[k] = v
        for fname, d in fields:
            if fname not in o.fields:
                if d is None:
                    self.run.fail("safe.arity", f"{c.name}() missing field {fname}", witness_class="arity")
                    raise PyRaise("TypeError", "missing field")
                o.fields[fname] = it.eval(d, [{}])
        pi = front.resolve_method(c.mod, c.name, "__post_init__")
        if pi:
            node, _ = front.get_function(pi)
            it.call_func(Func(node, c.mod, selfobj=o, qual=pi), [], {})
        return o

    # ---------- statements
    def block(self, stmts, env):
        for s in stmts:
            self.stmt(s, env)

    def stmt(self, s, env):
        if isinstance(s, ast.Expr):
            if isinstance(s.value, ast.Constant):
                return
            self.eval(s.value, env)
        elif isinstance(s, ast.Assign):
            v = self.eval(s.value, env)
            for t in s.targets:
                self.assign(t, v, env)
        elif isinstance(s, ast.AnnAssign):
            if s.value is not None:
                self.assign(s.target, self.eval(s.value, env), env)
        elif isinstance(s, ast.AugAssign):
            cur = self.eval(_load(s.target), env)
            v = self.binop(s.op, cur, self.eval(s.value, env))
            self.assign(s.target, v, env)
        elif isinstance(s, ast.Return):
            raise _Return(self.eval(s.value, env) if s.value is not None else None)
        elif isinstance(s, ast.If):
            c = self.truth(self.eval(s.test, env))
            if self.run.nd_base is not None and is_z3(c) and not z3.is_true(z3.simplify(c)) and not z3.is_false(z3.simplify(c)):
                self.guarded_if(s, c, env)
            elif self.run.branch(c):
                self.block(s.body, env)
            else:
                self.block(s.orelse, env)
        elif isinstance(s, ast.For):
            self.for_loop(s, env)
        elif isinstance(s, ast.Assert):
            c = self.truth(self.eval(s.test, env))
            if is_z3(c):
                self.run.pc.append(c)   # recorded as an assumption of the analysed code
            elif not c:
                raise PyRaise("AssertionError")
        elif isinstance(s, ast.Pass):
            return
        elif isinstance(s, ast.Raise):
            name = "Exception"
            if s.exc is not None:
                e = s.exc.func if isinstance(s.exc, ast.Call) else s.exc
                name = ast.unparse(e)
            raise PyRaise(name, ast.unparse(s.exc) if s.exc else "")
        elif isinstance(s, ast.FunctionDef):
            env[0][s.name] = Func(s, self.mod, closure=env)
        elif isinstance(s, ast.Break):
            raise _Break()
        elif isinstance(s, ast.Continue):
            raise _Continue()
        elif isinstance(s, (ast.Import, ast.ImportFrom, ast.Global, ast.Nonlocal)):
            return
        else:
            raise Unsupported(f"statement {type(s).__name__}")

    def guarded_if(self, s, c, env):
        """Inside a summarised loop both branches are executed under their guards and the local environment is
        merged with ite (no path fork: the store families of ONE arbitrary iteration must see every branch)."""
        run = self.run
        base = dict(env[0])
        res = []
        for cond, body in ((c, s.body), (z3.Not(c), s.orelse)):
            env[0].clear(); env[0].update(base)
            if run.ex.feasible(run.hyps() + [cond]):
                run.pc.append(cond)
                try:
                    self.block(body, env)
                except (_Return, _Break, _Continue):
                    raise Unsupported("return/break/continue inside a guarded branch of a summarised loop")
                except PyRaise as r:
                    run.fail("safe.noraise", f"raises {r.exc} inside loop body: {r.msg}", witness_class=r.exc)
                finally:
                    run.pc.pop()
                res.append(dict(env[0]))
            else:
                res.append(None)
        a, b = res
        if a is None and b is None:
            raise _Abandon()
        if a is None or b is None:
            env[0].clear(); env[0].update(a or b)
            return
        merged = {}
        for k in set(a) | set(b):
            if k in a and k in b:
                merged[k] = a[k] if a[k] is b[k] else merge_ite(c, a[k], b[k])
            else:
                merged[k] = Opaque("maybe-undefined:" + k)
        env[0].clear(); env[0].update(merged)

    def assign(self, t, v, env):
        if isinstance(t, ast.Name):
            env[0][t.id] = v
        elif isinstance(t, (ast.Tuple, ast.List)):
            items = self.iterate(v, "unpack")
            if len(items) != len(t.elts):
                self.run.fail("safe.unpack", f"cannot unpack {len(items)} values into {len(t.elts)} targets", witness_class="unpack")
                raise PyRaise("ValueError", "unpack")
            for tt, vv in zip(t.elts, items):
                self.assign(tt, vv, env)
        elif isinstance(t, ast.Attribute):
            o = self.eval(t.value, env)
            if isinstance(o, Obj):
                o.fields[t.attr] = v
            else:
                raise Unsupported("attribute store on " + type(o).__name__)
        elif isinstance(t, ast.Subscript):
            o = self.eval(t.value, env)
            if isinstance(t.slice, ast.Slice):
                sl = t.slice
                idx = slice(self.eval(sl.lower, env) if sl.lower else None, self.eval(sl.upper, env) if sl.upper else None,
                            self.eval(sl.step, env) if sl.step else None)
            else:
                idx = self.eval(t.slice, env)
            self.store(o, idx, v)
        else:
            raise Unsupported(f"assignment target {type(t).__name__}")

    def store(self, o, idx, v):
        if isinstance(o, NdStore):
            if not (isinstance(idx, tuple) and len(idx) == 2):
                raise Unsupported("NdStore index")
            if is_z3(v):
                raise Unsupported("NdStore symbolic value")
            ivs = [x for vs, _ in self.run.itervars for x in vs]
            guard = z3.And([to_z3(g) for g in self.run.pc[self.run.nd_base:]] or [z3.BoolVal(True)]) \
                if self.run.nd_base is not None else z3.BoolVal(True)
            idx = tuple(x[0] if isinstance(x, (tuple, list)) and len(x) == 1 else x for x in idx)  # h[i, array([k])]
            i0, i1 = to_z3(idx[0]), to_z3(idx[1])
            # index safety (numpy raises IndexError out of range; negative wraps)
            self.run.prove("safe.index", z3.And(i0 >= -to_z3(o.shape[0]), i0 < to_z3(o.shape[0]),
                                                 i1 >= -to_z3(o.shape[1]), i1 < to_z3(o.shape[1])),
                           note="store index within the array")
            o.families.append((ivs, guard, (i0, i1), v))
            return
        if isinstance(o, list):
            if is_z3(idx):
                raise Unsupported("symbolic index store into list")
            o[idx] = v
            return
        if isinstance(o, dict):
            o[idx] = v
            return
        from . import libmodels
        return libmodels.store(self, o, idx, v)

    def for_loop(self, s, env):
        it = self.eval(s.iter, env)
        if isinstance(it, SymSeq) and not is_z3(it.length):
            it = [it.at(i) for i in range(it.length)]
        if isinstance(it, SymSeq):
            return self.sym_loop(s, it, env)
        items = self.iterate(it, "for")
        for x in items:
            self.assign(s.target, x, env)
            try:
                self.block(s.body, env)
            except _Break:
                break
            except _Continue:
                continue
        else:
            self.block(s.orelse, env)

    def sym_loop(self, s, seq, env):
        """Loop over a sequence of symbolic length: one arbitrary iteration is executed (safety obligations,
        NdStore families under rule iii); every other name assigned / object mutated in the body becomes an
        Opaque deterministic function of the values the loop reads (rule v)."""
        run = self.run
        k = run.fresh("it")
        bound = z3.And(k >= 0, k < to_z3(seq.length))
        written = _assigned_names(s.body) | _target_names(s.target)
        mutated = _mutated_names(s.body)
        reads = sorted(_read_names(s) - written - {"self"})
        deps = []
        for n in reads:
            try:
                v = self.lookup(n, env)
                deps.append(list(v) if isinstance(v, list) else dict(v) if isinstance(v, dict) else v)  # entry snapshot
            except PyRaise:
                pass
        deps += [v for kname, v in sorted(_self_attr_reads(s, env, self))]
        tag = f"loop:{ast.unparse(s.target)} in {ast.unparse(s.iter)}"
        first = run.nd_base is None
        if first:
            run.nd_base = len(run.pc)
        run.itervars.append(([k], bound))
        run.pc.append(bound)
        saved = {n: env[0].get(n, _MISSING) for n in written}
        try:
            self.assign(s.target, seq.at(k), env)
            try:
                self.block(s.body, env)
            except (_Break, _Continue):
                pass
        finally:
            run.itervars.pop()
            # the iteration constraint stays in the pc only as part of store-family guards
            run.pc.remove(bound)
            if first:
                run.nd_base = None
        for n in written | mutated:
            cur = None
            try:
                cur = self.lookup(n, env)
            except PyRaise:
                pass
            if isinstance(cur, NdStore) or (isinstance(cur, SymSeq) and getattr(cur, "stored", False)):
                continue
            if n in written or isinstance(cur, (list, dict, Opaque)):
                new = Opaque(f"{tag}:{n}", deps)
                for e in env:
                    if n in e:
                        e[n] = new
                        break
                else:
                    env[0][n] = new

    def iterate(self, v, what):
        if isinstance(v, (list, tuple)):
            return list(v)
        if isinstance(v, range):
            return list(v)
        if isinstance(v, dict):
            return list(v.keys())
        if isinstance(v, SymSeq):
            if is_z3(v.length):
                raise Unsupported("iteration over symbolic-length sequence in " + what)
            return [v.at(i) for i in range(v.length)]
        if isinstance(v, Opaque):
            raise Unsupported("iteration over opaque value")
        if is_z3(v) or isinstance(v, (int, float, bool)) or v is None:
            self.run.fail("safe.iter", f"'{_tyname(v)}' object is not iterable ({what})", witness_class="not-iterable")
            raise PyRaise("TypeError", "not iterable")
        raise Unsupported(f"iterate {type(v).__name__}")

    # ---------- expressions
    def truth(self, v):
        if is_z3(v):
            if z3.is_bool(v):
                return v
            if v.sort() == z3.IntSort():
                return v != 0
            raise Unsupported("truth of non-bool term")
        return v

    def eval(self, e, env):
        m = getattr(self, "e_" + type(e).__name__, None)
        if m is None:
            raise Unsupported(f"expression {type(e).__name__}")
        return m(e, env)

    def e_Constant(self, e, env):
        return e.value

    def e_Name(self, e, env):
        return self.lookup(e.id, env)

    def e_Tuple(self, e, env):
        out = []
        for x in e.elts:
            if isinstance(x, ast.Starred):
                out.extend(self.iterate(self.eval(x.value, env), "star"))
            else:
                out.append(self.eval(x, env))
        return tuple(out)

    def e_List(self, e, env):
        if len(e.elts) == 1 and isinstance(e.elts[0], ast.Starred):
            v = self.eval(e.elts[0].value, env)
            if isinstance(v, Opaque):
                return Opaque("list", [v])
        return list(self.e_Tuple(e, env))

    def e_Dict(self, e, env):
        return {self.eval(k, env): self.eval(v, env) for k, v in zip(e.keys, e.values)}

    def e_Slice(self, e, env):
        return slice(self.eval(e.lower, env) if e.lower else None, self.eval(e.upper, env) if e.upper else None,
                     self.eval(e.step, env) if e.step else None)

    def e_JoinedStr(self, e, env):
        return "<fstring>"

    def e_Lambda(self, e, env):
        return Func(e, self.mod, closure=env)

    def e_IfExp(self, e, env):
        if self.run.branch(self.truth(self.eval(e.test, env))):
            return self.eval(e.body, env)
        return self.eval(e.orelse, env)

    def e_BoolOp(self, e, env):
        isand = isinstance(e.op, ast.And)
        last = None
        for x in e.values:
            last = self.eval(x, env)
            t = self.truth(last)
            if is_z3(t):
                # all operands must be boolean terms: build the connective
                rest = [self.truth(self.eval(y, env)) for y in e.values[e.values.index(x) + 1:]]
                done = [self.truth(self.eval(y, env)) for y in e.values[: e.values.index(x)]]
                terms = [to_z3(q) for q in done + [t] + rest]
                return z3.And(terms) if isand else z3.Or(terms)
            if isand and not t:
                return last
            if (not isand) and t:
                return last
        return last

    def e_UnaryOp(self, e, env):
        v = self.eval(e.operand, env)
        if isinstance(e.op, ast.Not):
            t = self.truth(v)
            return z3.Not(t) if is_z3(t) else (not t)
        if isinstance(e.op, ast.USub):
            if isinstance(v, Opaque):
                return Opaque("neg", [v])
            return -v
        if isinstance(e.op, ast.UAdd):
            return v
        raise Unsupported("unary " + type(e.op).__name__)

    def e_BinOp(self, e, env):
        return self.binop(e.op, self.eval(e.left, env), self.eval(e.right, env))

    def binop(self, op, a, b):
        from . import libmodels
        if isinstance(a, (SymSeq, Opaque)) or isinstance(b, (SymSeq, Opaque)) or libmodels.is_arr(a) or libmodels.is_arr(b):
            return libmodels.binop(self, op, a, b)
        if isinstance(op, ast.Add):
            if isinstance(a, (list, tuple)) and isinstance(b, (list, tuple)):
                if type(a) != type(b):
                    self.run.fail("safe.type", "can only concatenate list to list / tuple to tuple", witness_class="concat")
                    raise PyRaise("TypeError", "concatenate")
                return a + b
            return a + b if not (is_z3(a) or is_z3(b)) else _arith(a, b, lambda x, y: x + y)
        if isinstance(op, ast.Sub):
            return a - b if not (is_z3(a) or is_z3(b)) else _arith(a, b, lambda x, y: x - y)
        if isinstance(op, ast.Mult):
            if isinstance(a, (list, tuple)) and isinstance(b, int):
                return a * b
            if isinstance(b, (list, tuple)) and isinstance(a, int):
                return a * b
            return a * b if not (is_z3(a) or is_z3(b)) else _arith(a, b, lambda x, y: x * y)
        if isinstance(op, ast.Div):
            if not (is_z3(a) or is_z3(b)):
                return a / b
            x, y = _coerce(a, b)
            if x.sort() == z3.IntSort():
                x, y = z3.ToReal(x), z3.ToReal(y)
            return x / y
        if isinstance(op, (ast.FloorDiv, ast.Mod)):
            if not (is_z3(a) or is_z3(b)):
                return a // b if isinstance(op, ast.FloorDiv) else a % b
            x, y = _coerce(a, b)
            if x.sort() != z3.IntSort():
                raise Unsupported("// or % on non-integers")
            if is_z3(b):
                self.run.prove("safe.divpos", y > 0, note="divisor of // or % must be positive (encoding assumption)")
            elif b <= 0:
                raise Unsupported("non-positive concrete divisor")
            return x / y if isinstance(op, ast.FloorDiv) else x % y
        if isinstance(op, ast.Pow):
            if isinstance(b, int) and b >= 0 and is_z3(a):
                r = to_z3(1, a)
                for _ in range(b):
                    r = r * a
                return r
            if not (is_z3(a) or is_z3(b)):
                return a ** b
            raise Unsupported("symbolic power")
        if isinstance(op, ast.BitAnd):
            ta, tb = self.truth(a), self.truth(b)
            if is_z3(ta) or is_z3(tb):
                return z3.And(to_z3(ta), to_z3(tb))
            return a & b
        if isinstance(op, ast.BitOr):
            ta, tb = self.truth(a), self.truth(b)
            if is_z3(ta) or is_z3(tb):
                return z3.Or(to_z3(ta), to_z3(tb))
            return a | b
        raise Unsupported("binop " + type(op).__name__)

    def e_Compare(self, e, env):
        left = self.eval(e.left, env)
        res = []
        for op, r in zip(e.ops, e.comparators):
            right = self.eval(r, env)
            res.append(self.compare(op, left, right))
            left = right
        if len(res) == 1:
            return res[0]
        if any(is_z3(r) for r in res):
            return z3.And([to_z3(r) for r in res])
        return all(res)

    def compare(self, op, a, b):
        from . import libmodels
        if libmodels.is_arr(a) or libmodels.is_arr(b):
            return libmodels.compare(self, op, a, b)
        if (isinstance(a, Opaque) or isinstance(b, Opaque)) and isinstance(op, (ast.Lt, ast.LtE, ast.Gt, ast.GtE)) \
                and getattr(self.run, "uninterp_libs", False):
            return Opaque("cmp:" + type(op).__name__, [a, b])
        if isinstance(op, (ast.Is, ast.IsNot)):
            same = (a is b) or (a is None and b is None)
            if (a is None) != (b is None):
                same = False
            return same if isinstance(op, ast.Is) else not same
        if isinstance(op, ast.Eq):
            return self.equal(a, b)
        if isinstance(op, ast.NotEq):
            r = self.equal(a, b)
            return z3.Not(r) if is_z3(r) else not r
        if isinstance(op, (ast.In, ast.NotIn)):
            items = self.iterate(b, "in")
            rs = [self.equal(a, x) for x in items]
            r = z3.Or([to_z3(x) for x in rs]) if any(is_z3(x) for x in rs) else any(rs)
            if isinstance(op, ast.NotIn):
                r = z3.Not(r) if is_z3(r) else not r
            return r
        if not (is_z3(a) or is_z3(b)):
            return {ast.Lt: a < b, ast.LtE: a <= b, ast.Gt: a > b, ast.GtE: a >= b}[type(op)] \
                if type(op) in (ast.Lt, ast.LtE, ast.Gt, ast.GtE) else _bad(op)
        x, y = _coerce(a, b)
        if isinstance(op, ast.Lt):
            return x < y
        if isinstance(op, ast.LtE):
            return x <= y
        if isinstance(op, ast.Gt):
            return x > y
        if isinstance(op, ast.GtE):
            return x >= y
        raise Unsupported("compare " + type(op).__name__)

    def equal(self, a, b):
        """Structural equality as a z3 formula or a Python bool."""
        if is_z3(a) or is_z3(b):
            if isinstance(a, (tuple, list, SymSeq, Obj, Opaque, str)) or isinstance(b, (tuple, list, SymSeq, Obj, Opaque, str)):
                return False
            if a is None or b is None:
                return False
            x, y = _coerce(a, b)
            if z3.is_fp(x):
                return z3.fpEQ(x, y)
            return x == y
        if isinstance(a, SymSeq) or isinstance(b, SymSeq):
            if isinstance(a, (tuple, list)) and isinstance(b, SymSeq):
                a, b = b, a
            if isinstance(b, (tuple, list)):
                if isinstance(a, SymSeq) and a.kind != ("tuple" if isinstance(b, tuple) else "list"):
                    return False
                b = SymSeq(len(b), (lambda bb: lambda i: _select(bb, i))(list(b)), a.kind)
            if not (isinstance(a, SymSeq) and isinstance(b, SymSeq)):
                return False
            if a.kind != b.kind:
                return False
            j = self.run.fresh("eqi")
            el = self.equal(a.at(j), b.at(j))
            leq = to_z3(a.length) == to_z3(b.length) if (is_z3(a.length) or is_z3(b.length)) else z3.BoolVal(a.length == b.length)
            return z3.And(leq, z3.ForAll([j], z3.Implies(z3.And(j >= 0, j < to_z3(a.length)), to_z3(el))))
        if isinstance(a, Opaque) or isinstance(b, Opaque):
            if not (isinstance(a, Opaque) and isinstance(b, Opaque)) or a.tag != b.tag or len(a.deps) != len(b.deps):
                return False
            rs = [self.equal(x, y) for x, y in zip(a.deps, b.deps)]
            return z3.And([to_z3(r) for r in rs]) if any(is_z3(r) for r in rs) else all(rs)
        if isinstance(a, (tuple, list)) and isinstance(b, (tuple, list)):
            if type(a) != type(b) or len(a) != len(b):
                return False
            rs = [self.equal(x, y) for x, y in zip(a, b)]
            return z3.And([to_z3(r) for r in rs]) if any(is_z3(r) for r in rs) else all(rs)
        if isinstance(a, dict) and isinstance(b, dict):
            if set(a) != set(b):
                return False
            rs = [self.equal(a[k], b[k]) for k in a]
            return z3.And([to_z3(r) for r in rs]) if any(is_z3(r) for r in rs) else all(rs)
        if isinstance(a, Obj) and isinstance(b, Obj):
            if (a.mod, a.cls) != (b.mod, b.cls):
                return False
            rs = [self.equal(a.fields[k], b.fields.get(k, _MISSING)) for k in a.fields]
            return z3.And([to_z3(r) for r in rs]) if any(is_z3(r) for r in rs) else all(rs)
        if a is _MISSING or b is _MISSING:
            return False
        if isinstance(a, Lib) and isinstance(b, Lib):
            return a.name == b.name
        if isinstance(a, ClassRef) and isinstance(b, ClassRef):
            return (a.mod, a.name) == (b.mod, b.name)
        if isinstance(a, Func) and isinstance(b, Func):
            return a.node is b.node
        if isinstance(a, ModRef) and isinstance(b, ModRef):
            return a.mod == b.mod
        if isinstance(a, (Obj, Func, Lib, ClassRef, NdStore)) or isinstance(b, (Obj, Func, Lib, ClassRef, NdStore)):
            return a is b
        try:
            return bool(a == b)
        except Exception:
            return False

    def e_Subscript(self, e, env):
        o = self.eval(e.value, env)
        if isinstance(e.slice, ast.Slice):
            lo = self.eval(e.slice.lower, env) if e.slice.lower else None
            hi = self.eval(e.slice.upper, env) if e.slice.upper else None
            st = self.eval(e.slice.step, env) if e.slice.step else None
            return self.subscript(o, slice(lo, hi, st))
        return self.subscript(o, self.eval(e.slice, env))

    def subscript(self, o, idx):
        from . import libmodels
        if isinstance(o, (list, tuple, str)) and isinstance(idx, Opaque) and getattr(self.run, "uninterp_libs", False):
            return Opaque("getitem", [o, idx])
        if isinstance(o, (list, tuple, str)):
            if isinstance(idx, slice) or not is_z3(idx):
                try:
                    return o[idx]
                except IndexError:
                    self.run.fail("safe.index", f"index {idx} out of range (len {len(o)})", witness_class="index")
                    raise PyRaise("IndexError")
                except TypeError:
                    self.run.fail("safe.type", f"bad index type {_tyname(idx)}", witness_class="index-type")
                    raise PyRaise("TypeError")
            self.run.prove("safe.index", z3.And(idx >= -len(o), idx < len(o)), note="sequence index in range")
            return _select(list(o), idx)
        if isinstance(o, dict):
            if idx not in o:
                self.run.fail("safe.key", f"KeyError {idx!r}", witness_class="key")
                raise PyRaise("KeyError", str(idx))
            return o[idx]
        if isinstance(o, SymSeq) and isinstance(idx, SymSeq):
            out = SymSeq(idx.length, lambda i: self.subscript(o, idx.at(i)), "array")
            out.tail = getattr(o, "tail", ())
            return out
        if isinstance(o, SymSeq):
            if isinstance(idx, slice):
                raise Unsupported("slice of symbolic sequence")
            i = to_z3(idx)
            n = to_z3(o.length)
            self.run.prove("safe.index", z3.And(i >= -n, i < n), note="sequence index in range")
            if isinstance(idx, int) and idx < 0:
                return o.at(n + idx)
            return o.at(idx)
        if is_z3(o) or isinstance(o, (int, float)) or o is None:
            self.run.fail("safe.type", f"'{_tyname(o)}' object is not subscriptable", witness_class="not-subscriptable")
            raise PyRaise("TypeError", "not subscriptable")
        return libmodels.subscript(self, o, idx)

    def e_Attribute(self, e, env):
        return self.getattr(self.eval(e.value, env), e.attr)

    def getattr(self, o, attr):
        from . import libmodels
        if isinstance(o, Obj):
            if attr in o.fields:
                return o.fields[attr]
            q = front.resolve_method(o.mod, o.cls, attr)
            if q:
                node, _ = front.get_function(q)
                return Func(node, o.mod, selfobj=o, qual=q)
            # class-level (non-annotated) attribute
            self.run.fail("safe.attr", f"{o.cls} has no attribute {attr}", witness_class="attr")
            raise PyRaise("AttributeError", attr)
        if isinstance(o, ModRef):
            src, tree = front.load(o.mod)
            for n in tree.body:
                if isinstance(n, ast.FunctionDef) and n.name == attr:
                    return Func(n, o.mod, qual=f"{o.mod}.{attr}")
                if isinstance(n, ast.ClassDef) and n.name == attr:
                    return ClassRef(o.mod, attr)
            raise PyRaise("AttributeError", attr)
        if isinstance(o, Lib):
            return Lib(o.name + "." + attr)
        if isinstance(o, ClassRef):
            q = front.resolve_method(o.mod, o.name, attr)
            if q:
                node, _ = front.get_function(q)
                if any("classmethod" in d for d in front.decorators(node)):
                    return Func(node, o.mod, selfobj=o, qual=q)
                return Func(node, o.mod, qual=q)
            raise PyRaise("AttributeError", attr)
        return libmodels.getattr_(self, o, attr)

    def e_Call(self, e, env):
        fv = self.eval(e.func, env)
        args = []
        for a in e.args:
            if isinstance(a, ast.Starred):
                args.extend(self.iterate(self.eval(a.value, env), "star-args"))
            else:
                args.append(self.eval(a, env))
        kwargs = {}
        for k in e.keywords:
            if k.arg is None:
                kwargs.update(self.eval(k.value, env))
            else:
                kwargs[k.arg] = self.eval(k.value, env)
        return self.call_value(fv, args, kwargs)

    def e_ListComp(self, e, env):
        return self.comp(e, env, "list")

    def e_GeneratorExp(self, e, env):
        return self.comp(e, env, "tuple")

    def comp(self, e, env, kind):
        if len(e.generators) != 1:
            # nested comprehension: only concrete iteration
            return self.comp_concrete(e, env, kind)
        g = e.generators[0]
        src = self.eval(g.iter, env)
        if isinstance(src, SymSeq) and is_z3(src.length) and not g.ifs:
            def fn(i, src=src):
                loc = {}
                self.assign(g.target, src.at(i), [loc] + env)
                return self.eval(e.elt, [loc] + env)
            # safety of one arbitrary element (and of the element expression) is checked now
            k = self.run.fresh("ci")
            bound = z3.And(k >= 0, k < to_z3(src.length))
            self.run.pc.append(bound)
            try:
                fn(k)
            finally:
                self.run.pc.remove(bound)
            return SymSeq(src.length, fn, kind)
        return self.comp_concrete(e, env, kind)

    def comp_concrete(self, e, env, kind):
        out = []

        def rec(gi, envs):
            if gi == len(e.generators):
                out.append(self.eval(e.elt, envs))
                return
            g = e.generators[gi]
            for x in self.iterate(self.eval(g.iter, envs), "comprehension"):
                loc = {}
                self.assign(g.target, x, [loc] + envs)
                if all(self.run.branch(self.truth(self.eval(c, [loc] + envs))) for c in g.ifs):
                    rec(gi + 1, [loc] + envs)

        rec(0, env)
        return out if kind == "list" else tuple(out)


_MISSING = object()
_BUILTINS = {"range", "len", "tuple", "list", "set", "hash", "print", "abs", "min", "max", "sum", "int", "float",
             "isinstance", "zip", "enumerate", "sorted", "bool", "dict", "str", "ValueError", "NotImplementedError",
             "TypeError", "complex", "any", "all", "map"}


def _bad(op):
    raise Unsupported("compare " + type(op).__name__)


def _tyname(v):
    if is_z3(v):
        return {"Int": "int", "Real": "float", "Bool": "bool"}.get(str(v.sort()), str(v.sort()))
    return type(v).__name__


def _coerce(a, b):
    if is_z3(a) and not is_z3(b):
        return a, to_z3(b, a)
    if is_z3(b) and not is_z3(a):
        return to_z3(a, b), b
    if a.sort() != b.sort():
        if a.sort() == z3.IntSort() and b.sort() == z3.RealSort():
            return z3.ToReal(a), b
        if b.sort() == z3.IntSort() and a.sort() == z3.RealSort():
            return a, z3.ToReal(b)
        if z3.is_fp(a) and not z3.is_fp(b):
            raise Unsupported("mixing Float64 and exact terms")
    return a, b


def _arith(a, b, f):
    if isinstance(a, (tuple, list, str)) or isinstance(b, (tuple, list, str)) or a is None or b is None:
        raise PyRaise("TypeError", "arithmetic on non-number")
    x, y = _coerce(a, b)
    return f(x, y)


def _select(items, idx):
    """items[idx] for symbolic idx over a concrete list: nested ite (elementwise for tuples)."""
    if not is_z3(idx):
        return items[idx]
    n = len(items)
    first = items[0]
    if isinstance(first, (tuple, list)):
        return type(first)(_select([it[k] for it in items], idx) for k in range(len(first)))
    r = to_z3(items[-1]) if not is_z3(items[-1]) else items[-1]
    for k in range(n - 2, -1, -1):
        v = items[k]
        vv = to_z3(v, r) if not is_z3(v) else v
        r = z3.If(z3.Or(idx == k, idx == k - n), vv, r)
    return r


def merge_ite(c, a, b):
    if a is b:
        return a
    if isinstance(a, (tuple, list)) and isinstance(b, (tuple, list)) and type(a) == type(b) and len(a) == len(b):
        return type(a)(merge_ite(c, x, y) for x, y in zip(a, b))
    if (is_z3(a) or isinstance(a, (int, float, bool))) and (is_z3(b) or isinstance(b, (int, float, bool))):
        if not is_z3(a) and not is_z3(b):
            if a == b and type(a) == type(b):
                return a
            a = to_z3(a)
        x, y = _coerce(a, b)
        return z3.If(c, x, y)
    if isinstance(a, SymSeq) and isinstance(b, SymSeq) and a.kind == b.kind:
        return SymSeq(merge_ite(c, a.length, b.length), lambda i: merge_ite(c, a.at(i), b.at(i)), a.kind)
    return Opaque("merge", [c, a, b])


def _load(t):
    import copy
    t2 = copy.deepcopy(t)
    for n in ast.walk(t2):
        if hasattr(n, "ctx"):
            n.ctx = ast.Load()
    return t2


def _imports(mod):
    src, tree = front.load(mod)
    out = {}
    for n in tree.body:
        if isinstance(n, ast.Import):
            for a in n.names:
                out[a.asname or a.name.split(".")[0]] = a.name if a.asname else a.name.split(".")[0]
        elif isinstance(n, ast.ImportFrom):
            for a in n.names:
                out[a.asname or a.name] = f"{n.module}.{a.name}"
    return out


def _dc_fields(mod, cls):
    """dataclass fields incl. inherited ones (bases first), later redefinitions keep first position."""
    cs = front.classes(mod)
    order, defaults = [], {}

    def walk(c):
        if c not in cs:
            return
        for b in cs[c].bases:
            if isinstance(b, ast.Name):
                walk(b.id)
        for f, d in front.dataclass_fields(mod, c):
            if f not in order:
                order.append(f)
            defaults[f] = d

    walk(cls)
    return [(f, defaults[f]) for f in order]


def _assigned_names(body):
    out = set()
    for s in body:
        for n in ast.walk(s):
            if isinstance(n, ast.Name) and isinstance(n.ctx, ast.Store):
                out.add(n.id)
    return out


def _target_names(t):
    return {n.id for n in ast.walk(t) if isinstance(n, ast.Name)}


def _mutated_names(body):
    out = set()
    for s in body:
        for n in ast.walk(s):
            if isinstance(n, ast.Call) and isinstance(n.func, ast.Attribute) and isinstance(n.func.value, ast.Name) \
                    and n.func.attr in ("append", "extend", "sort", "add", "update", "insert", "pop", "remove"):
                out.add(n.func.value.id)
            if isinstance(n, (ast.Subscript,)) and isinstance(n.ctx, ast.Store) and isinstance(n.value, ast.Name):
                out.add(n.value.id)
    return out


def _read_names(s):
    return {n.id for n in ast.walk(s) if isinstance(n, ast.Name) and isinstance(n.ctx, ast.Load)}


def _self_attr_reads(s, env, interp):
    out = {}
    for n in ast.walk(s):
        if isinstance(n, ast.Attribute) and isinstance(n.value, ast.Name) and n.value.id == "self":
            try:
                o = interp.lookup("self", env)
            except PyRaise:
                continue
            if isinstance(o, Obj) and n.attr in o.fields:
                out[n.attr] = o.fields[n.attr]
    return out.items()


# ----------------------------------------------------------------------------- explorer + discharge
class Explorer:
    """Runs a scenario over all feasible paths and discharges the VCs."""

    def __init__(self, timeout_ms=20000, feas_ms=3000):
        self.work = [[]]
        self.timeout_ms, self.feas_ms = timeout_ms, feas_ms
        self.paths = 0

    def push_alternative(self, dec):
        self.work.append(dec)

    def feasible(self, fs):
        s = z3.Solver()
        s.set("timeout", self.feas_ms)
        s.add(*fs)
        return s.check() != z3.unsat

    def explore(self, scenario, max_paths=400):
        """scenario(run) -> None.  Returns the list of VC dicts of all paths (with 'path' index and 'ended')."""
        allvcs = []
        ends = []
        while self.work:
            dec = self.work.pop()
            run = Run(dec, self)
            end = "ok"
            try:
                scenario(run)
            except _Abandon:
                end = "infeasible"
            except PyRaise as r:
                end = f"raise {r.exc}: {r.msg}"
            self.paths += 1
            if self.paths > max_paths:
                raise Unsupported("too many paths")
            if end == "infeasible":
                continue
            for vc in run.vcs:
                vc["path"] = self.paths
                vc["ended"] = end
            allvcs.extend(run.vcs)
            ends.append((end, run.hyps()))
        return allvcs, ends


def _flatten_sum(t):
    if z3.is_add(t):
        out = []
        for c in t.children():
            out += _flatten_sum(c)
        return out
    return [t]


def _factors(t):
    if z3.is_mul(t):
        out = []
        for c in t.children():
            out += _factors(c)
        return out
    return [t]


def div_hints(formulas):
    """Instances of the Euclidean-division uniqueness theorem
         b > 0 and 0 <= Y < b  ==>  (b*X + Y) div b == X  and  (b*X + Y) mod b == Y
    for dividends that are syntactically b*X + Y.  Every instance is a theorem of integer arithmetic (the generic
    statement is itself discharged as obligation `lemma.divuniq`), so adding them as hypotheses is sound."""
    divs, seen = [], set()

    def walk(t):
        if t.get_id() in seen:
            return
        seen.add(t.get_id())
        if z3.is_app(t):
            if t.decl().kind() in (z3.Z3_OP_IDIV, z3.Z3_OP_MOD):
                divs.append((t.arg(0), t.arg(1)))
            for c in t.children():
                walk(c)
        elif z3.is_quantifier(t):
            walk(t.body())

    eqs = {}   # const id -> list of terms it is equated with somewhere in the VC

    def walk_eq(t):
        if z3.is_app(t):
            if z3.is_eq(t) and t.arg(0).sort() == z3.IntSort():
                l, r = t.arg(0), t.arg(1)
                for x, y in ((l, r), (r, l)):
                    if z3.is_const(x) and x.decl().kind() == z3.Z3_OP_UNINTERPRETED:
                        eqs.setdefault(x.get_id(), []).append(y)
            for c in t.children():
                walk_eq(c)

    for f in formulas:
        walk(f)
        walk_eq(f)
    divisors = {}
    for a, b in divs:
        if not z3.is_int_value(b):
            divisors[b.get_id()] = b
    # candidates: (term the hint speaks about, syntactic sum used for the decomposition, side condition)
    cands = []
    for a, b in divs:
        cands.append((a, a, z3.BoolVal(True)))
        if a.get_id() in eqs:
            for t in eqs[a.get_id()]:
                cands.append((a, t, a == t))
    hints, done = [], set()
    for _ in range(3):
        new = []
        for a, decomp, side in cands:
            summands = _flatten_sum(decomp)
            for b in divisors.values():
                bf = [x.get_id() for x in _factors(b)]
                for k, t in enumerate(summands):
                    rest = list(_factors(t))
                    ok = True
                    for fid in bf:
                        for r in rest:
                            if r.get_id() == fid:
                                rest.remove(r)
                                break
                        else:
                            ok = False
                            break
                    if not ok:
                        continue
                    X = z3.IntVal(1)
                    for r in rest:
                        X = X * r
                    X = z3.simplify(X)
                    others = summands[:k] + summands[k + 1:]
                    Y = z3.Sum(others) if others else z3.IntVal(0)
                    key = (a.get_id(), decomp.get_id(), b.get_id(), k)
                    if key in done:
                        continue
                    done.add(key)
                    hints.append(z3.Implies(z3.And(side, b > 0, Y >= 0, Y < b), z3.And(a / b == X, a % b == Y)))
                    new.append((Y, Y, z3.BoolVal(True)))
        cands = new
        if not new:
            break
    return hints


def _consts(t, acc):
    seen = set()
    stack = [t]
    while stack:
        x = stack.pop()
        if x.get_id() in seen:
            continue
        seen.add(x.get_id())
        if z3.is_quantifier(x):
            stack.append(x.body())
        elif z3.is_app(x):
            if x.num_args() == 0 and x.decl().kind() == z3.Z3_OP_UNINTERPRETED:
                acc.add(x.decl().name())
            elif x.decl().kind() == z3.Z3_OP_UNINTERPRETED:
                acc.add(x.decl().name())
            stack.extend(x.children())
    return acc


def _slice(hyps, goal):
    syms = _consts(goal, set())
    hs = [(h, _consts(h, set())) for h in hyps]
    keep, changed = [False] * len(hs), True
    while changed:
        changed = False
        for i, (h, c) in enumerate(hs):
            if not keep[i] and (c & syms or not c):
                keep[i] = True
                if not c <= syms:
                    syms |= c
                    changed = True
    return [h for (h, _), k in zip(hs, keep) if k]


def _conjuncts(g):
    if z3.is_and(g):
        out = []
        for c in g.children():
            out += _conjuncts(c)
        return out
    return [g]


def _load_factor():
    """solver budgets are wall-clock: stretch them when the machine is busy, so that verdicts do not flip to 'undecided' under load"""
    try:
        import os
        return min(6.0, max(1.0, os.getloadavg()[0] / 6.0))
    except OSError:
        return 1.0


def discharge(vc, timeout_ms=20000):
    """(status, backend, detail, model, wall).  The goal is split into conjuncts proved in order; proved conjuncts are
    added as hypotheses for the later ones (cut rule)."""
    t0 = time.time()
    hyps = list(vc["hyps"])
    parts = _conjuncts(vc["goal"])
    if len(parts) > 1:
        backend = "z3"
        proved = []
        for g in parts:
            # first without the earlier conjuncts (keeps Float64 queries small), then with them as hypotheses (cut rule)
            st, be, det, mod, _ = discharge(dict(vc, hyps=hyps, goal=g), min(timeout_ms, 30000) if proved else timeout_ms)
            if st == UNDECIDED and proved:
                st, be, det, mod, _ = discharge(dict(vc, hyps=hyps + proved, goal=g), timeout_ms)
            if st != DISCHARGED:
                return st, be, det, mod, time.time() - t0
            if be != "z3":
                backend = be
            proved.append(g)
        return DISCHARGED, backend, "", None, time.time() - t0
    goal = vc["goal"]
    full_hyps = hyps
    hyps = _slice(hyps, goal)          # cone of influence: hypotheses sharing no symbol (transitively) with the goal are dropped
    hints = div_hints(hyps + [goal])
    timeout_ms = int(timeout_ms * _load_factor())
    s = z3.Solver()
    s.set("timeout", timeout_ms)
    s.add(*hyps)
    s.add(*hints)
    s.add(z3.Not(goal))
    r = s.check()
    if r == z3.sat and len(hyps) < len(full_hyps):
        # a counter-model of the sliced query must also satisfy the dropped hypotheses: re-check with all of them
        s2 = z3.Solver()
        s2.set("timeout", timeout_ms)
        s2.add(*full_hyps)
        s2.add(*hints)
        s2.add(z3.Not(goal))
        r2 = s2.check()
        if r2 == z3.unsat:
            return DISCHARGED, "z3", "", None, time.time() - t0
        if r2 == z3.sat:
            s = s2
    if r == z3.unsat:
        import os
        if os.environ.get("VERIF_TIER") == "thorough" and not vc.get("no_recheck"):
            # thorough tier: every z3 `unsat` is re-discharged on the second solver; `sat` there is a solver disagreement (checker crash)
            st2, det2 = _cvc5(s, min(timeout_ms, 20000))
            if st2 == "sat":
                return CRASH, "z3-vs-cvc5", "solver disagreement: z3 unsat, cvc5 sat", None, time.time() - t0
            return DISCHARGED, ("z3+cvc5" if st2 == "unsat" else "z3(cvc5:unknown)"), "", None, time.time() - t0
        return DISCHARGED, "z3", "", None, time.time() - t0
    if r == z3.sat:
        m = s.model()
        model = {str(d): str(m[d]) for d in m.decls()}
        return REFUTED, "z3", vc.get("note", ""), model, time.time() - t0
    # z3 unknown -> cvc5 on the same SMT-LIB text
    st, detail = _cvc5(s, timeout_ms)
    if st == "unsat":
        return DISCHARGED, "cvc5", "", None, time.time() - t0
    if st == "sat":
        return REFUTED, "cvc5", vc.get("note", "") + " (cvc5 sat; model not extracted)", None, time.time() - t0
    # both gave up: queries that normally take well under a second occasionally run away (search-order instability); retry the same
    # query with other random seeds before calling it undecided. Only `unsat` / `sat` answers are used, so this cannot change a verdict.
    if not vc.get("no_retry") and not vc.get("no_recheck"):
        for seed in (7, 1234, 99):
            s3 = z3.Solver()
            s3.set("timeout", min(timeout_ms, 15000))
            s3.set("random_seed", seed)
            s3.add(*(s.assertions()))
            r3 = s3.check()
            if r3 == z3.unsat:
                return DISCHARGED, f"z3(retry seed {seed})", "", None, time.time() - t0
            if r3 == z3.sat:
                m = s3.model()
                return REFUTED, "z3", vc.get("note", ""), {str(d): str(m[d]) for d in m.decls()}, time.time() - t0
    return UNDECIDED, "z3+cvc5", f"z3: {s.reason_unknown()}; cvc5: {detail}", None, time.time() - t0


def _cvc5(solver, timeout_ms):
    import subprocess, tempfile, os
    txt = "(set-logic ALL)\n" + solver.to_smt2()
    with tempfile.NamedTemporaryFile("w", suffix=".smt2", delete=False) as f:
        f.write(txt)
        p = f.name
    try:
        out = subprocess.run(["/usr/bin/cvc5", f"--tlimit={timeout_ms}", p], capture_output=True, text=True,
                             timeout=timeout_ms / 1000 + 10)
        o = out.stdout.strip().splitlines()
        return (o[0] if o else "unknown"), (out.stderr.strip()[:200])
    except Exception as e:
        return "unknown", str(e)[:200]
    finally:
        os.unlink(p)


def run_scenario(name_prefix, scenario, functions=(), kind="proof", timeout_ms=20000, expect_paths=None,
                 no_exception=None):
    """Explore + discharge; aggregate VCs by name. Returns a list of obligation dicts.

    no_exception: if a string, adds the obligation '<prefix>.<string>' = every feasible path ends without raising.
    """
    ex = Explorer(timeout_ms=timeout_ms)
    t0 = time.time()
    vcs, ends = ex.explore(scenario)
    by = {}
    for vc in vcs:
        by.setdefault(vc["name"], []).append(vc)
    out = []
    for nm, group in by.items():
        worst, detail, model, backend, wall, wclass = DISCHARGED, "", None, "z3", 0.0, ""
        knd = group[0]["kind"]
        for vc in group:
            st, be, det, mod, w = discharge(vc, timeout_ms)
            wall += w
            backend = be if st != DISCHARGED or backend == "z3" else backend
            if st == REFUTED:
                worst, detail, model, wclass = REFUTED, det or vc.get("note", ""), mod, vc.get("witness_class", "")
                break
            if st == CRASH:
                worst, detail = CRASH, det
                break
            if st == UNDECIDED and worst == DISCHARGED:
                worst, detail = UNDECIDED, det
        full = nm if nm.startswith(name_prefix.split(".")[0] + ".") else f"{name_prefix}.{nm}"
        out.append(ob(full, worst, kind=knd, backend=backend, wall=wall, detail=detail,
                      witness=model, witness_class=wclass, functions=functions))
    if no_exception:
        bad = [e for e, _ in ends if e.startswith("raise")]
        # a raising path is feasible by construction (branch() prunes infeasible sides)
        out.append(ob(f"{name_prefix}.{no_exception}", REFUTED if bad else DISCHARGED, kind=kind, backend="pyvc-paths",
                      wall=time.time() - t0, detail="; ".join(sorted(set(bad)))[:500] or f"{len(ends)} feasible paths end normally",
                      witness_class=(sorted(set(bad))[0].split(":")[0] if bad else ""), functions=functions))
    if not out:
        out.append(ob(f"{name_prefix}.EMPTY", UNDECIDED, detail="scenario produced no VC"))
    return out

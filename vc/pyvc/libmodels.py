"""Library models (ASSUMED contracts; listed in the trusted base of every evidence file that uses them).

builtins: range len tuple list set hash print abs isinstance int float min max sum sorted
numpy / jax.numpy: array zeros ones arange abs cumsum searchsorted(left) where isnan sum (1-d arrays over reals)
jax: vmap (pointwise map over the mapped axis), jit / checkpoint (identity), random.split/uniform (fresh values)
"""
from __future__ import annotations

import ast

import z3

from ..common import Unsupported
from .engine import (SymSeq, NdStore, Obj, Opaque, Func, Lib, ClassRef, PyRaise, is_z3, to_z3, merge_ite,
                     _coerce, _tyname)


def term_key(v):
    """structural key of an uninterpreted term (for canonical ordering / equality of EUF terms)"""
    if isinstance(v, Opaque):
        return ("O", v.tag, tuple(term_key(d) for d in v.deps))
    if isinstance(v, (tuple, list)):
        return ("T",) + tuple(term_key(x) for x in v)
    if isinstance(v, dict):
        return ("D",) + tuple((str(k), term_key(x)) for k, x in sorted(v.items(), key=lambda t: str(t[0])))
    if isinstance(v, slice):
        return ("S", term_key(v.start), term_key(v.stop), term_key(v.step))
    if isinstance(v, Obj):
        return ("Obj", v.mod, v.cls, id(v))
    if isinstance(v, Func):
        return ("F", v.qual or id(v.node))
    if is_z3(v):
        return ("Z", str(v))
    return ("C", repr(v))


def is_arr(v):
    return isinstance(v, SymSeq) and v.kind == "array"


class Axioms:
    """Quantified facts introduced by library models (cumsum, searchsorted); attached to the run's assumptions."""


def call(it, name, args, kw):
    run = it.run
    short = name.replace("jax.numpy.", "np.").replace("numpy.", "np.").replace("builtins.", "")
    f = _MODELS.get(short)
    if f is None:
        if getattr(run, "uninterp_libs", False):
            # pure library function without a model: an uninterpreted function of its arguments (EUF)
            return Opaque("lib:" + short, list(args) + [(k, v) for k, v in sorted(kw.items())])
        raise Unsupported(f"no library model for {name}")
    return f(it, args, kw)


def _range(it, a, kw):
    if len(a) == 1:
        n = a[0]
        if is_z3(n):
            if n.sort() != z3.IntSort():
                it.run.fail("safe.type", "range() of non-integer", witness_class="range-type")
                raise PyRaise("TypeError")
            return SymSeq(n, lambda i: i if is_z3(i) else z3.IntVal(i) if False else i, "range")
        if not isinstance(n, int):
            it.run.fail("safe.type", f"range() of {_tyname(n)}", witness_class="range-type")
            raise PyRaise("TypeError")
        return range(n)
    if len(a) >= 2 and all(isinstance(x, int) for x in a):
        return range(*a)
    if len(a) == 2:
        lo, hi = a
        return SymSeq(to_z3(hi) - to_z3(lo), lambda i: to_z3(lo) + i, "range")
    raise Unsupported("range with symbolic step")


def _len(it, a, kw):
    v = a[0]
    if isinstance(v, (list, tuple, dict, str, range)):
        return len(v)
    if isinstance(v, SymSeq):
        return v.length
    if isinstance(v, Opaque):
        return Opaque("len", [v])
    it.run.fail("safe.type", f"object of type '{_tyname(v)}' has no len()", witness_class="len-type")
    raise PyRaise("TypeError")


def _tuple(it, a, kw, kind="tuple"):
    if not a:
        return () if kind == "tuple" else []
    v = a[0]
    if isinstance(v, SymSeq):
        if not is_z3(v.length):
            items = [v.at(i) for i in range(v.length)]
            return tuple(items) if kind == "tuple" else items
        return SymSeq(v.length, v.fn, kind)
    if isinstance(v, Opaque):
        return Opaque(kind, [v])
    items = it.iterate(v, kind)
    return tuple(items) if kind == "tuple" else list(items)


def _list(it, a, kw):
    return _tuple(it, a, kw, "list")


def _set(it, a, kw):
    v = a[0] if a else []
    if isinstance(v, Opaque):
        return Opaque("set", [v])
    if isinstance(v, SymSeq) or any(is_z3(x) for x in v):
        return Opaque("set", [v])
    return Opaque("set", [tuple(v)]) if False else set(v)


def _hash(it, a, kw):
    return Opaque("hash", [a[0]])


def _print(it, a, kw):
    return None


def _abs(it, a, kw):
    v = a[0]
    if isinstance(v, Opaque):
        return Opaque("lib:np.abs", [v])
    if is_arr(v):
        return SymSeq(v.length, lambda i: _abs(it, [v.at(i)], {}), "array")
    if is_z3(v):
        if z3.is_fp(v):
            return z3.fpAbs(v)
        return z3.If(v >= 0, v, -v)
    return abs(v)


def _isinstance(it, a, kw):
    v, c = a
    names = []
    for x in (c if isinstance(c, tuple) else (c,)):
        names.append(x.name if isinstance(x, (Lib, ClassRef)) else str(x))
    for n in names:
        n = n.split(".")[-1]
        if n == "list" and isinstance(v, list):
            return True
        if n == "tuple" and isinstance(v, tuple):
            return True
        if n == "int" and (isinstance(v, int) or (is_z3(v) and v.sort() == z3.IntSort())):
            return True
        if n == "dict" and isinstance(v, dict):
            return True
        if isinstance(v, Obj) and v.cls == n:
            return True
    return False


def _np_array(it, a, kw):
    v = a[0]
    if isinstance(v, (list, tuple)):
        return list(v)      # array-like: only iteration / indexing is used by the code under contract
    return v


def _np_zeros(it, a, kw):
    shape = a[0]
    if isinstance(shape, tuple) and len(shape) == 2:
        return NdStore(shape, 0)
    if isinstance(shape, tuple) and len(shape) == 1:
        shape = shape[0]
    return SymSeq(shape, lambda i: 0, "array")


def _np_ones(it, a, kw):
    n = a[0]
    return SymSeq(n, lambda i: 1, "array")


def _np_arange(it, a, kw):
    n = a[0]
    return SymSeq(n, lambda i: i, "array")


def _minmax(which):
    def f(it, a, kw):
        items = a if len(a) > 1 else it.iterate(a[0], which)
        r = items[0]
        for x in items[1:]:
            if is_z3(r) or is_z3(x):
                p, q = _coerce(r, x)
                r = z3.If(p <= q, p, q) if which == "min" else z3.If(p >= q, p, q)
            else:
                r = min(r, x) if which == "min" else max(r, x)
        return r
    return f


def _identity_deco(it, a, kw):
    if a:
        return a[0]
    return lambda f: f


def _partial(it, a, kw):
    f = a[0]
    pre, prekw = list(a[1:]), dict(kw)
    return lambda *more, **mk: it.call_value(f, pre + list(more), {**prekw, **mk})


_MODELS = {
    "range": _range, "len": _len, "tuple": _tuple, "list": _list, "set": _set, "hash": _hash, "print": _print,
    "abs": _abs, "isinstance": _isinstance, "min": _minmax("min"), "max": _minmax("max"),
    "np.array": _np_array, "np.abs": _abs, "np.zeros": _np_zeros, "np.ones": _np_ones, "np.arange": _np_arange,
    "np.min": _minmax("min"), "np.max": _minmax("max"),
    "jax.jit": _identity_deco, "jax.checkpoint": _identity_deco, "functools.partial": _partial,
}


def register(name):
    def deco(f):
        _MODELS[name] = f
        return f
    return deco


# ----------------------------------------------------------------------------- operators on library values
def binop(it, op, a, b):
    if isinstance(op, ast.Add) and (isinstance(a, SymSeq) or isinstance(b, SymSeq)) and not (is_arr(a) or is_arr(b)):
        # list/tuple concatenation with a symbolic-length part
        def kind_of(v):
            return v.kind if isinstance(v, SymSeq) else ("tuple" if isinstance(v, tuple) else "list" if isinstance(v, list) else None)
        ka, kb = kind_of(a), kind_of(b)
        if ka is None or kb is None or ka != kb:
            it.run.fail("safe.type", f"cannot concatenate {ka or _tyname(a)} and {kb or _tyname(b)}", witness_class="concat")
            raise PyRaise("TypeError")
        A = a if isinstance(a, SymSeq) else SymSeq(len(a), (lambda aa: lambda i: __import__('vc.pyvc.engine', fromlist=['_select'])._select(aa, i))(list(a)), ka)
        B = b if isinstance(b, SymSeq) else SymSeq(len(b), (lambda bb: lambda i: __import__('vc.pyvc.engine', fromlist=['_select'])._select(bb, i))(list(b)), kb)
        la, lb = to_z3(A.length), to_z3(B.length)
        return SymSeq(la + lb, lambda i: merge_ite(to_z3(i) < la, A.at(i), B.at(to_z3(i) - la)), ka)
    if is_arr(a) or is_arr(b):
        n = a.length if is_arr(a) else b.length
        ea = (lambda i: a.at(i)) if is_arr(a) else (lambda i: a)
        eb = (lambda i: b.at(i)) if is_arr(b) else (lambda i: b)
        return SymSeq(n, lambda i: it.binop(op, ea(i), eb(i)), "array")
    if isinstance(a, Opaque) or isinstance(b, Opaque):
        ops = [a, b]
        if isinstance(op, (ast.Add, ast.Mult)):          # commutative: canonical operand order
            ops = sorted(ops, key=lambda v: repr(term_key(v)))
        return Opaque("binop:" + type(op).__name__, ops)
    raise Unsupported(f"binop on {type(a).__name__},{type(b).__name__}")


def compare(it, op, a, b):
    n = a.length if is_arr(a) else b.length
    ea = (lambda i: a.at(i)) if is_arr(a) else (lambda i: a)
    eb = (lambda i: b.at(i)) if is_arr(b) else (lambda i: b)
    return SymSeq(n, lambda i: it.compare(op, ea(i), eb(i)), "array")


def subscript(it, o, idx):
    if isinstance(o, NdStore):
        raise Unsupported("read of NdStore inside analysed code")
    if isinstance(o, Opaque):
        st = getattr(o, "stores", None)
        if st and isinstance(idx, (str, int)) and idx in st:
            return st[idx]
        return Opaque("getitem", [o, idx])
    raise Unsupported(f"subscript of {type(o).__name__}")


def store(it, o, idx, v):
    raise Unsupported(f"store into {type(o).__name__}")


def _nested_shape(o):
    sh = []
    while isinstance(o, (list, tuple)):
        sh.append(len(o))
        o = o[0] if o else None
    return tuple(sh)


def getattr_(it, o, attr):
    if isinstance(o, (list, tuple)) and attr == "shape":
        return _nested_shape(o)
    if isinstance(o, list):
        if attr == "append":
            return lambda x: o.append(x)
        if attr == "sort":
            def srt():
                if any(is_z3(x) for x in o):
                    raise Unsupported("sort of symbolic list")
                o.sort()
            return srt
        if attr == "copy":
            return lambda: list(o)
    if isinstance(o, Opaque):
        if attr in ("sort", "append", "extend"):
            def mut(*a):
                o.tag += f".{attr}()"
                o.deps = o.deps + tuple(a)
            return mut
        return Opaque("attr:" + attr, [o])
    if isinstance(o, SymSeq):
        if attr == "shape":
            return (o.length,)
        if attr == "copy":
            return lambda: o
    if isinstance(o, NdStore) and attr == "shape":
        return o.shape
    if isinstance(o, set):
        raise Unsupported("set attribute " + attr)
    raise Unsupported(f"attribute {attr} of {type(o).__name__}")

"""Library models for 1-d symbolic arrays (numpy / jax.numpy) used by sr.py and the weight chains.  ASSUMED contracts:

cumsum(x)            c(0)=x(0), c(k)=c(k-1)+x(k)                                   (axioms, registered in run.registry)
searchsorted(c, v)   side='left' on a NON-DECREASING array: the least k in [0,N] with c(k) >= v  (N if none);
                     sortedness of c is generated as an obligation at the call site
vmap(f, in_axes)     pointwise map over the mapped axis
a[idx_array]         gather: out(i) = a(idx(i))
a[i] = v in a loop   independent-store rule (ii): iteration i writes only a[i]
buf[:] = src         whole-array copy
"""
from __future__ import annotations

import z3

from ..common import Unsupported
from .engine import SymSeq, Opaque, Obj, PyRaise, is_z3, to_z3, merge_ite
from . import libmodels as LM


class HostObj:
    """host-side model object whose public methods are callable from the analysed code (e.g. an MPI communicator)"""


def arr(n, fn, tail=()):
    s = SymSeq(n, fn, "array")
    s.tail = tuple(tail)
    return s


def _tail(a):
    return getattr(a, "tail", ())


def _np_array(it, a, kw):
    v = a[0]
    if isinstance(v, SymSeq):
        return v
    if isinstance(v, (list, tuple)):
        return list(v)
    return v


def _cumsum(it, a, kw):
    x = a[0]
    if not LM.is_arr(x):
        raise Unsupported("cumsum of non-array")
    run = it.run
    c = z3.Function(f"cumsum!{next(run.counter)}", z3.IntSort(), z3.RealSort())
    n = to_z3(x.length)
    k = z3.Int(f"k!{next(run.counter)}")
    x0 = to_z3(x.at(0))
    xk = to_z3(x.at(k))
    if x0.sort() == z3.IntSort():
        x0, xk = z3.ToReal(x0), z3.ToReal(xk)
    run.assumed.append(c(0) == x0)
    run.assumed.append(z3.ForAll([k], z3.Implies(z3.And(k >= 1, k < n), c(k) == c(k - 1) + xk), patterns=[c(k)]))
    out = arr(x.length, lambda i: c(to_z3(i)))
    run.registry.setdefault("cumsum", []).append(dict(arg=x, func=c, out=out))
    return out


def _searchsorted(it, a, kw):
    c, v = a[0], a[1]
    side = kw.get("side", a[2] if len(a) > 2 else "left")
    run = it.run
    if not LM.is_arr(c):
        raise Unsupported("searchsorted on non-array")
    n = to_z3(c.length)
    key = id(c)
    reg = run.registry.setdefault("searchsorted", {})
    if key not in reg:
        ssf = z3.Function(f"ssf!{next(run.counter)}", z3.RealSort(), z3.IntSort())
        x, j = z3.Real(f"v!{next(run.counter)}"), z3.Int(f"j!{next(run.counter)}")
        cj = to_z3(c.at(j))
        if not (z3.is_app(cj) and cj.decl().kind() == z3.Z3_OP_UNINTERPRETED):
            # the searched array is given by an expression (e.g. abs(cumsum(w))): name it by a function so that it can serve as a quantifier pattern
            cf = z3.Function(f"ssarr!{next(run.counter)}", z3.IntSort(), cj.sort())
            run.assumed.append(z3.ForAll([j], cf(j) == cj, patterns=[cf(j)]))
            cj = cf(j)
        lt = (lambda a_, b_: a_ < b_) if side == "left" else (lambda a_, b_: a_ <= b_)
        run.assumed.append(z3.ForAll([x], z3.And(ssf(x) >= 0, ssf(x) <= n), patterns=[ssf(x)]))
        run.assumed.append(z3.ForAll([x, j], z3.Implies(z3.And(j >= 0, j < ssf(x)), lt(cj, x)), patterns=[z3.MultiPattern(ssf(x), cj)]))
        run.assumed.append(z3.ForAll([x, j], z3.Implies(z3.And(j >= ssf(x), j < n), z3.Not(lt(cj, x))), patterns=[z3.MultiPattern(ssf(x), cj)]))
        # the model is only valid for a sorted array: obligation at the call site
        jj = run.fresh("srt")
        run.prove("lib.searchsorted.sorted", z3.Implies(z3.And(jj >= 0, jj + 1 < n), to_z3(c.at(jj)) <= to_z3(c.at(jj + 1))),
                  note="searchsorted requires a non-decreasing array")
        reg[key] = ssf
    ssf = reg[key]
    vv = to_z3(v)
    if vv.sort() == z3.IntSort():
        vv = z3.ToReal(vv)
    return ssf(vv)


def _vmap(it, a, kw):
    f = a[0]
    in_axes = kw.get("in_axes", a[1] if len(a) > 1 else 0)

    def mapped(*args):
        axes = in_axes if isinstance(in_axes, (tuple, list)) else (in_axes,) * len(args)
        n = None
        for x, ax in zip(args, axes):
            if ax is not None:
                if not LM.is_arr(x):
                    raise Unsupported("vmap over non-array argument")
                n = x.length
        return arr(n, lambda i: it.call_value(f, [x if ax is None else x.at(i) for x, ax in zip(args, axes)], {}))
    return mapped


def _zeros(it, a, kw):
    shape = a[0]
    dt = kw.get("dtype", a[1] if len(a) > 1 else None)
    isint = isinstance(dt, LM.Lib) and dt.name.endswith("int") or (isinstance(dt, LM.Lib) and dt.name == "builtins.int")
    if isinstance(shape, tuple) and len(shape) == 2 and isint:
        from .engine import NdStore
        return NdStore(shape, 0)
    if not isinstance(shape, tuple):
        shape = (shape,)
    return arr(shape[0], lambda i: z3.RealVal(0), shape[1:])


def _ones(it, a, kw):
    n = a[0]
    return arr(n, lambda i: z3.RealVal(1))


def _arange(it, a, kw):
    return arr(a[0], lambda i: to_z3(i))


def _sum(it, a, kw):
    """sum(x) = last element of the running sum (same recurrence axioms as cumsum)"""
    x = a[0]
    if LM.is_arr(x):
        n = len(it.run.registry.get("cumsum", []))
        c = _cumsum(it, [x], {})
        # not a cumsum of the analysed code: keep it out of the 'cumsum' registry
        rec = it.run.registry["cumsum"].pop()
        it.run.registry.setdefault("sum", []).append(rec)
        return c.at(to_z3(x.length) - 1)
    if isinstance(x, Opaque) and getattr(it.run, "uninterp_libs", False):
        return Opaque("lib:np.sum", list(a) + [(k, v) for k, v in sorted(kw.items())])
    raise Unsupported("sum")


def _mean(it, a, kw):
    x = a[0]
    if LM.is_arr(x):
        s_ = _sum(it, [x], {})
        n = to_z3(x.length)
        return s_ / z3.ToReal(n)
    if isinstance(x, Opaque) and getattr(it.run, "uninterp_libs", False):
        return Opaque("lib:np.mean", list(a))
    raise Unsupported("mean")


for nm, f in {"np.mean": _mean, "np.array": _np_array, "np.cumsum": _cumsum, "np.searchsorted": _searchsorted, "jax.vmap": _vmap,
              "np.zeros": _zeros, "np.ones": _ones, "np.arange": _arange, "np.sum": _sum}.items():
    LM._MODELS[nm] = f


# ---------------------------------------------------------------- attribute / subscript / store extensions
_orig_getattr = LM.getattr_


def getattr_(it, o, attr):
    if isinstance(o, HostObj):
        if hasattr(o, attr):
            return getattr(o, attr)
        raise PyRaise("AttributeError", attr)
    if isinstance(o, SymSeq) and o.kind == "array":
        if attr == "shape":
            return (o.length,) + _tail(o)
        if attr in ("copy", "conj"):
            return lambda: o
        if attr == "astype":
            return lambda *a, **k: o
        if attr == "dtype":
            return Opaque("dtype", [])
        if attr == "size":
            return o.length
        if attr == "real":
            return o
    if is_z3(o):
        if attr in ("copy",):
            return lambda: o
        if attr == "real":
            return o
    return _orig_getattr(it, o, attr)


LM.getattr_ = getattr_
_orig_subscript = LM.subscript


def subscript(it, o, idx):
    return _orig_subscript(it, o, idx)


def store(it, o, idx, v):
    run = it.run
    if isinstance(o, Opaque) and getattr(run, "uninterp_libs", False) and isinstance(idx, (str, int)):
        if not hasattr(o, "stores"):
            o.stores = {}
        o.stores[idx] = v          # functional update of an uninterpreted record: o[idx := v]
        return
    if isinstance(o, SymSeq) and o.kind == "array":
        if isinstance(idx, slice) and idx == slice(None, None, None):
            if not LM.is_arr(v):
                raise Unsupported("slice store of a non-array")
            run.prove("lib.copyto.len", to_z3(o.length) == to_z3(v.length), note="buf[:] = src needs equal lengths")
            o.fn = v.fn
            return
        if run.itervars and is_z3(idx):
            ks = [x for vs, _ in run.itervars for x in vs]
            k = ks[-1]
            if not z3.eq(z3.simplify(to_z3(idx)), k) and not z3.eq(to_z3(idx), k):
                raise Unsupported("store index is not the loop variable (rule ii needs a[i] = ... in iteration i)")
            guard = z3.And(run.pc[run.nd_base:]) if run.nd_base is not None and run.pc[run.nd_base:] else z3.BoolVal(True)
            if not is_z3(v):
                v = to_z3(v)
            old = o.fn

            def newfn(a, k=k, v=v, guard=guard, old=old):
                az = to_z3(a)
                return z3.If(z3.substitute(guard, (k, az)), z3.substitute(v, (k, az)), to_z3(old(a)))
            o.fn = newfn
            o.stored = True
            return
        if not is_z3(idx):
            old = o.fn
            o.fn = lambda a, old=old: merge_ite(to_z3(a) == idx, v, old(a))
            return
    raise Unsupported(f"store into {type(o).__name__}")


LM.store = store

"""Engine C (symx): path-wise symbolic execution of a REAL Python/NumPy function object over the reals.

The function's own code object is executed by CPython; only the module global `np` is rebound to a shim that differs from
numpy in two entry points (zeros -> exact object arrays, argmax -> explicit first-maximum scan).  Array elements are `SymR`
values wrapping z3 real terms, so numpy's object-dtype arithmetic (+, *, dot, abs, copy, slicing, in-place +=) builds terms.
Every truth-value test of a symbolic comparison is a DECISION: both outcomes are explored by decision replay (the function is
re-run from the start with a recorded prefix), infeasible outcomes are pruned with z3, `unknown` counts as feasible.

What the encoding assumes of Python/NumPy (stated in the evidence): float64 arithmetic is real arithmetic (no rounding, no
overflow); x ** 0.5 is the non-negative root (a safety obligation demands x >= 0); x / 0 is a non-finite value: the path is
split on 'denominator == 0' and the quotient becomes POISON, which may be stored but not compared or returned.
"""
from __future__ import annotations

import time
import types
from fractions import Fraction

import numpy as np
import z3

from .common import Unsupported


class Poison:
    """NaN/inf produced by x / 0 on this path"""

    def _p(self, *a):
        return self
    __add__ = __radd__ = __sub__ = __rsub__ = __mul__ = __rmul__ = __truediv__ = __rtruediv__ = __neg__ = __abs__ = __pow__ = _p

    def _c(self, o):
        raise Unsupported("a NaN/inf (division by zero on this path) reaches a comparison")
    __lt__ = __le__ = __gt__ = __ge__ = __eq__ = __ne__ = _c
    __hash__ = None


POISON = Poison()


def rv(x):
    if isinstance(x, SymR):
        return x.e
    if isinstance(x, (bool, np.bool_)):
        raise Unsupported("boolean used as a number")
    if isinstance(x, (int, np.integer)):
        return z3.RealVal(int(x))
    if isinstance(x, Fraction):
        return z3.RealVal(str(x))
    if isinstance(x, (float, np.floating)):
        return z3.RealVal(str(Fraction(float(x))))
    raise Unsupported(f"operand of type {type(x).__name__} in real arithmetic")


class SymB:
    def __init__(self, ctx, e):
        self.ctx, self.e = ctx, e

    def __bool__(self):
        return self.ctx.decide(self.e)

    def __and__(self, o):
        return SymB(self.ctx, z3.And(self.e, o.e if isinstance(o, SymB) else z3.BoolVal(bool(o))))
    __rand__ = __and__

    def __or__(self, o):
        return SymB(self.ctx, z3.Or(self.e, o.e if isinstance(o, SymB) else z3.BoolVal(bool(o))))
    __ror__ = __or__

    def __invert__(self):
        return SymB(self.ctx, z3.Not(self.e))


class SymR:
    """real value  e * prod_i s_i^{k_i}  with s_i = sqrt(x_i) the square roots taken so far on this path and k_i in {-1, +1}:
    even powers are folded into the rational part (s_i^2 = x_i), so Gram-matrix entries of Cholesky vectors stay rational."""
    __hash__ = None

    def __init__(self, ctx, e, roots=()):
        self.ctx, self.e0, self.roots = ctx, e, tuple(roots)

    @property
    def e(self):
        """the full z3 term"""
        r = self.e0
        for i, k in self.roots:
            r = r * self.ctx.roots[i][0] if k > 0 else r / self.ctx.roots[i][0]
        return r

    def _lift(self, o):
        return o if isinstance(o, SymR) else SymR(self.ctx, rv(o))

    def _addsub(self, o, sign, swap=False):
        if isinstance(o, np.ndarray):
            return NotImplemented
        if isinstance(o, Poison):
            return o
        o = self._lift(o)
        a, b = (o, self) if swap else (self, o)
        if a.roots == b.roots:
            return SymR(self.ctx, z3.simplify(a.e0 + b.e0 if sign > 0 else a.e0 - b.e0), a.roots)
        if z3.is_rational_value(z3.simplify(b.e0)) and z3.simplify(b.e0).numerator_as_long() == 0:
            return a
        if z3.is_rational_value(z3.simplify(a.e0)) and z3.simplify(a.e0).numerator_as_long() == 0:
            return b if sign > 0 else -b
        return SymR(self.ctx, z3.simplify(a.e + b.e if sign > 0 else a.e - b.e))

    def __add__(self, o): return self._addsub(o, +1)
    def __radd__(self, o): return self._addsub(o, +1, True)
    def __sub__(self, o): return self._addsub(o, -1)
    def __rsub__(self, o): return self._addsub(o, -1, True)

    def _fold(self, e, d):
        roots = []
        for i in sorted(d):
            k = d[i]
            m = int(k / 2)
            r = k - 2 * m
            x = self.ctx.roots[i][1]
            for _ in range(abs(m)):
                e = e * x if m > 0 else e / x
            if r:
                roots.append((i, r))
        return SymR(self.ctx, z3.simplify(e), roots)

    def __mul__(self, o):
        if isinstance(o, np.ndarray):
            return NotImplemented
        if isinstance(o, Poison):
            return o
        o = self._lift(o)
        d = dict(self.roots)
        for i, k in o.roots:
            d[i] = d.get(i, 0) + k
        return self._fold(self.e0 * o.e0, d)
    __rmul__ = __mul__

    def __neg__(self): return SymR(self.ctx, -self.e0, self.roots)
    def __pos__(self): return self

    def __abs__(self):
        if not self.roots:
            return SymR(self.ctx, z3.If(self.e0 >= 0, self.e0, -self.e0))
        return SymR(self.ctx, z3.If(self.e0 >= 0, self.e0, -self.e0), self.roots)    # the roots are positive

    def _inv(self):
        """1 / self, after the decision that self != 0 was taken"""
        return self._fold(1 / self.e0, {i: -k for i, k in self.roots})

    def __truediv__(self, o):
        if isinstance(o, np.ndarray):
            return NotImplemented
        if isinstance(o, Poison):
            return o
        o = self._lift(o)
        if self.ctx.is_zero(o):
            return POISON
        return self * o._inv()

    def __rtruediv__(self, o):
        if isinstance(o, np.ndarray):
            return NotImplemented
        if isinstance(o, Poison):
            return o
        return self._lift(o) / self

    def __pow__(self, k):
        if isinstance(k, (float, np.floating)) and float(k) == 0.5:
            if self.roots:
                raise Unsupported("square root of a value that still carries a square root")
            return self.ctx.sqrt(self.e0)
        if isinstance(k, (int, np.integer)) and k >= 0:
            r = SymR(self.ctx, z3.RealVal(1))
            for _ in range(int(k)):
                r = r * self
            return r
        raise Unsupported(f"power {k!r} of a symbolic real")

    def _c(self, o, f):
        if isinstance(o, Poison):
            return o._c(self)
        return SymB(self.ctx, f(self.e, rv(o)))

    def __lt__(self, o): return self._c(o, lambda a, b: a < b)
    def __le__(self, o): return self._c(o, lambda a, b: a <= b)
    def __gt__(self, o): return self._c(o, lambda a, b: a > b)
    def __ge__(self, o): return self._c(o, lambda a, b: a >= b)
    def __eq__(self, o): return self._c(o, lambda a, b: a == b)
    def __ne__(self, o): return self._c(o, lambda a, b: a != b)

    def __float__(self):
        raise Unsupported("symbolic real converted to float (stored into a float64 array?)")

    def __repr__(self):
        return f"SymR({self.e})"


class _Done(Exception):
    pass


class Ctx:
    """one run of the function along one decision prefix"""

    def __init__(self, pre, prefix, budget_ms=4000):
        self.pre = list(pre)          # preconditions (z3)
        self.defs = []                # definitional constraints (sqrt)
        self.path = []                # decisions taken: (z3 cond, bool)
        self.prefix = list(prefix)
        self.taken = []               # list of bools
        self.alts = []                # prefixes still to explore
        self.safety = []              # (name, z3 formula that must hold on this path)
        self.events = []              # human readable trail (argmax results, loop exits)
        self.roots = []               # (z3 var s_i, radicand x_i)
        self.budget_ms = budget_ms
        self._k = 0

    def assumptions(self):
        return self.pre + self.defs + [c if t else z3.Not(c) for c, t in self.path]

    def _feasible(self, extra):
        s = z3.Solver()
        s.set("timeout", self.budget_ms)
        s.add(*self.assumptions(), extra)
        r = s.check()
        return r != z3.unsat

    def decide(self, cond):
        cond = z3.simplify(cond)
        if z3.is_true(cond):
            return True
        if z3.is_false(cond):
            return False
        i = len(self.taken)
        if i < len(self.prefix):
            t = self.prefix[i]
        else:
            ft, ff = self._feasible(cond), self._feasible(z3.Not(cond))
            if ft and ff:
                t = True
                self.alts.append(self.taken + [False])
            elif ft or ff:
                t = ft
            else:
                raise _Done()   # the path itself is infeasible
        self.taken.append(t)
        self.path.append((cond, t))
        return t

    def sym(self, name):
        return SymR(self, z3.Real(name))

    def sqrt(self, x):
        self._k += 1
        sv = z3.Real(f"sqrt!{self._k}")
        self.safety.append((f"sqrt{self._k}.domain", x >= 0, self.assumptions()))    # proved BEFORE sv*sv == x is assumed
        self.defs += [sv >= 0, sv * sv == x]
        self.roots.append((sv, x))
        return SymR(self, z3.RealVal(1), ((len(self.roots) - 1, 1),))

    def is_zero(self, v):
        """decision 'v == 0' (a square root is zero iff its radicand is)"""
        e = z3.simplify(v.e0)
        if z3.is_rational_value(e) and not v.roots:
            return e.numerator_as_long() == 0
        conds = [e == 0] + [self.roots[i][1] == 0 for i, _ in v.roots]
        return self.decide(z3.Or(*conds) if len(conds) > 1 else conds[0])


def make_shim(ctx):
    """numpy with zeros -> exact object arrays and argmax -> explicit first-maximum scan (numpy semantics: first occurrence)"""
    shim = types.ModuleType("np_symx_shim")
    shim.__dict__.update({k: getattr(np, k) for k in dir(np) if not k.startswith("__")})

    def zeros(shape, dtype=None):
        a = np.empty(shape, dtype=object)
        a.fill(0)
        return a

    def argmax(a, axis=None):
        a = np.asarray(a, dtype=object)
        if a.ndim != 1 or axis not in (None, 0):
            raise Unsupported("argmax of a non-vector")
        best = 0
        for i in range(1, len(a)):
            if a[i] > a[best]:
                best = i
        ctx.events.append(f"argmax={best}")
        return best

    shim.zeros, shim.argmax = zeros, argmax
    return shim


def rebind(fn, **globs):
    """the real function's code object with some module globals replaced"""
    g = dict(fn.__globals__)
    g.update(globs)
    f = types.FunctionType(fn.__code__, g, fn.__name__, fn.__defaults__, fn.__closure__)
    f.__kwdefaults__ = fn.__kwdefaults__
    return f


def explore(run, pre_builder, max_paths=400, budget_ms=4000):
    """run(ctx) executes the function and returns its result; yields (ctx, result | exception) per feasible path"""
    work, out = [[]], []
    while work:
        prefix = work.pop()
        ctx = Ctx([], prefix, budget_ms)
        ctx.pre = pre_builder(ctx)
        try:
            res = run(ctx)
        except _Done:
            continue
        except Unsupported as e:
            res = e
        work.extend(ctx.alts)
        out.append((ctx, res))
        if len(out) > max_paths:
            raise Unsupported(f"more than {max_paths} paths")
    return out


def prove(assumptions, goal, timeout_ms=20000):
    """returns ('unsat', None) | ('sat', model) | ('unknown', reason)"""
    t0 = time.time()
    try:
        import os
        timeout_ms = int(timeout_ms * min(6.0, max(1.0, os.getloadavg()[0] / 6.0)))     # wall-clock budgets stretch under load
    except OSError:
        pass
    s = z3.Solver()
    s.set("timeout", timeout_ms)
    s.add(*assumptions, z3.Not(goal))
    r = s.check()
    if r == z3.unsat:
        return "unsat", None, time.time() - t0
    if r == z3.sat:
        return "sat", s.model(), time.time() - t0
    # second opinion: nlsat tactic directly
    try:
        t = z3.TryFor(z3.Then("simplify", "purify-arith", "nlsat"), timeout_ms)
        g = z3.Goal()
        g.add(*assumptions, z3.Not(goal))
        sr = t.solver()
        sr.add(*assumptions, z3.Not(goal))
        r2 = sr.check()
        if r2 == z3.unsat:
            return "unsat", None, time.time() - t0
        if r2 == z3.sat:
            return "sat", sr.model(), time.time() - t0
    except z3.Z3Exception:
        pass
    return "unknown", s.reason_unknown(), time.time() - t0


def model_float(m, v):
    """value of a z3 real term in a model as a float (algebraic numbers approximated to 20 digits)"""
    x = m.eval(v, model_completion=True)
    if z3.is_rational_value(x):
        return float(Fraction(x.numerator_as_long(), x.denominator_as_long()))
    if z3.is_algebraic_value(x):
        return float(x.approx(20).as_fraction())
    raise ValueError(f"no numeric value for {v}: {x}")

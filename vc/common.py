"""Shared infrastructure: obligations, task pool, evidence, replay files, known findings.

Exit codes of a check:  0 all obligations discharged (KNOWN-FINDING lines allowed)
                        1 an obligation was refuted (VIOLATION line printed)
                        2 undecided (solver unknown / unsupported construct)  -- never a violation
                        3 checker crash / engine self-check failed
"""
from __future__ import annotations

import hashlib
import importlib
import json
import os
import sys
import time
import traceback
from concurrent.futures import ProcessPoolExecutor, as_completed
import multiprocessing as mp

VERIF = os.path.dirname(os.path.dirname(os.path.abspath(__file__)))
REPO = os.environ.get("REPO", "/repo")
GUARD = "ANKIT76_AD_AFQMC_VERIF"

DISCHARGED, REFUTED, UNDECIDED, CRASH = "discharged", "refuted", "undecided", "crash"


class Unsupported(Exception):
    """The code left the subset the engine understands -> undecided (exit 2), never a violation."""


def ob(name, status, *, kind="proof", backend="", wall=0.0, detail="", witness=None,
       witness_class="", replayed=None, functions=()):
    """One obligation result (plain dict so that it crosses process boundaries).

    kind: 'proof'  -> unbounded (all inputs, all sizes)
          'bounded'-> shape-bounded / length-bounded stand-in (all values at enumerated shapes)
          'canary' -> vacuity guard: a perturbed postcondition that MUST be refuted
          'ground' -> ground fact evaluated on the real objects at check time
    replayed: None (not attempted) | True (native replay confirms) | False (native replay does not confirm)
    """
    return dict(name=name, status=status, kind=kind, backend=backend, wall=round(wall, 4),
                detail=detail, witness=witness, witness_class=witness_class, replayed=replayed,
                functions=list(functions))


def _run_task(task):
    """Executed in a worker process. task = (module, func, kwargs)."""
    mod, fn, kw = task
    t0 = time.time()
    try:
        m = importlib.import_module(mod)
        res = getattr(m, fn)(**kw)
        if isinstance(res, dict):
            res = [res]
        return dict(task=task, obligations=list(res), wall=time.time() - t0)
    except Unsupported as e:
        return dict(task=task, obligations=[ob(f"{fn}{_kwtag(kw)}", UNDECIDED, backend="engine",
                                               detail="Unsupported: " + str(e), wall=time.time() - t0)],
                    wall=time.time() - t0)
    except Exception:
        return dict(task=task, obligations=[ob(f"{fn}{_kwtag(kw)}", CRASH, backend="engine",
                                               detail=traceback.format_exc()[-3000:], wall=time.time() - t0)],
                    wall=time.time() - t0)


def _die_with_parent():
    """worker initializer: a worker must not outlive its check (a check killed by `timeout` left workers spinning for hours otherwise)"""
    try:
        import ctypes
        import signal
        ctypes.CDLL("libc.so.6", use_errno=True).prctl(1, signal.SIGKILL)      # PR_SET_PDEATHSIG
    except Exception:   # noqa
        pass


def _kwtag(kw):
    return "[" + ",".join(f"{k}={v}" for k, v in sorted(kw.items())) + "]" if kw else ""


def run_tasks(tasks, nproc=None, inline=False):
    """Run tasks over a spawn-based pool (JAX does not like fork). Returns the flat obligation list."""
    if not tasks:
        return []
    nproc = nproc or int(os.environ.get("VERIF_NPROC", "0")) or min(16, os.cpu_count() or 1, len(tasks))
    out = []
    if inline or nproc <= 1 or len(tasks) == 1:
        for t in tasks:
            out.append(_run_task(t))
    else:
        ctx = mp.get_context("spawn")
        with ProcessPoolExecutor(max_workers=nproc, mp_context=ctx, initializer=_die_with_parent) as ex:
            futs = {ex.submit(_run_task, t): t for t in tasks}
            for f in as_completed(futs):
                try:
                    out.append(f.result())
                except Exception:
                    t = futs[f]
                    out.append(dict(task=t, obligations=[ob(f"{t[1]}{_kwtag(t[2])}", CRASH, backend="pool",
                                                            detail=traceback.format_exc()[-2000:])], wall=0.0))
    order = {json.dumps(t, sort_keys=True, default=str): i for i, t in enumerate(tasks)}
    out.sort(key=lambda r: order.get(json.dumps(r["task"], sort_keys=True, default=str), 0))
    obs = []
    for r in out:
        obs.extend(r["obligations"])
    return obs


def load_known_findings():
    p = os.path.join(VERIF, "known_findings.json")
    if not os.path.exists(p):
        return []
    with open(p) as f:
        return json.load(f).get("findings", [])


def match_known(prop, o, findings):
    """A finding suppresses an obligation only if property, obligation name AND witness class match
    and its status is 'known' (a 'fixed' entry suppresses nothing)."""
    for k in findings:
        if k.get("status") != "known" or k.get("property") != prop:
            continue
        if k.get("obligation") == o["name"] and k.get("witness_class", "") == o.get("witness_class", ""):
            return k
    return None


def sha_text(s: str) -> str:
    return hashlib.sha256(s.encode()).hexdigest()[:16]


class Report:
    def __init__(self, prop, tier, level, explanation, checker_cmd, trusted_base, assumptions, dropped):
        self.prop, self.tier, self.level = prop, tier, level
        self.explanation = explanation
        self.checker_cmd = checker_cmd
        self.trusted_base = list(trusted_base)
        self.assumptions = list(assumptions)
        self.dropped = list(dropped)
        self.seed = int(os.environ.get("VERIF_SEED", "0") or 0)
        self.t0 = time.time()
        self.functions = {}   # qualified name -> sha
        self.extra = {}

    def add_functions(self, d):
        self.functions.update(d)

    def finish(self, obs):
        findings = load_known_findings()
        evdir = os.environ.get("VERIF_EVIDENCE_DIR", os.path.join(VERIF, "evidence"))
        rpdir = os.environ.get("VERIF_REPLAY_DIR", os.path.join(VERIF, "replay"))
        os.makedirs(evdir, exist_ok=True)
        os.makedirs(rpdir, exist_ok=True)
        viol, known, undec, crash = [], [], [], []
        canary_bad = []
        nd = [o for o in obs if o["kind"] == "nd"]
        obs = [o for o in obs if o["kind"] != "nd"]
        for o in obs:
            if o["kind"] == "canary":
                # a canary must be refuted; anything else means the contract is vacuous / engine unsound
                if o["status"] != REFUTED:
                    canary_bad.append(o)
                continue
            if o["status"] == REFUTED:
                k = match_known(self.prop, o, findings)
                (known if k else viol).append(o)
            elif o["status"] == UNDECIDED:
                undec.append(o)
            elif o["status"] == CRASH:
                crash.append(o)
        real = [o for o in obs if o["kind"] != "canary"]
        proof = [o for o in real if o["kind"] in ("proof", "ground") and o not in known]
        bounded = [o for o in real if o["kind"] == "bounded" and o not in known]
        n_dis = lambda L: sum(1 for o in L if o["status"] == DISCHARGED)
        backends = {}
        for o in real:
            if o["status"] == DISCHARGED:
                backends[o["backend"]] = backends.get(o["backend"], 0) + 1
        solver_time = round(sum(o["wall"] for o in obs), 3)
        lines = []
        for o in known:
            lines.append(f"KNOWN-FINDING: property={self.prop} {o['name']} {o.get('witness_class','')}".rstrip())
        replay_paths = []
        for o in viol:
            rp = os.path.join(rpdir, f"{self.prop}.{_safe(o['name'])}.json")
            with open(rp, "w") as f:
                json.dump(dict(property=self.prop, obligation=o["name"], functions=o.get("functions", []),
                               function_hashes={k: self.functions.get(k) for k in o.get("functions", [])},
                               backend=o["backend"], verifier_output=o["detail"], witness=o["witness"],
                               witness_class=o.get("witness_class", ""), native_replay_confirms=o["replayed"],
                               repo=REPO, tier=self.tier), f, indent=1, default=str)
            replay_paths.append(rp)
            tail = "" if o["replayed"] else " no-failing-input-found"
            lines.append(f"VIOLATION property={self.prop} replay={rp} obligation={o['name']}{tail}")
        wall = time.time() - self.t0
        samples = [dict(obligation=o["name"], kind=o["kind"], status=o["status"], backend=o["backend"],
                        detail=(o["detail"] or "")[:300]) for o in real[:6]]
        # a few written-out canaries too
        samples += [dict(obligation=o["name"], kind="canary", status=o["status"]) for o in obs
                    if o["kind"] == "canary"][:2]
        cov = dict(
            obligations=len(proof), discharged=n_dis(proof),
            bounded_obligations=len(bounded), bounded_discharged=n_dis(bounded),
            canaries=sum(1 for o in obs if o["kind"] == "canary"),
            canaries_refuted_as_required=sum(1 for o in obs if o["kind"] == "canary" and o["status"] == REFUTED),
            checker_cmd=self.checker_cmd, trusted_base=self.trusted_base,
            explanation=self.explanation,
            evaluations=len(real), distinct_nontrivial=len({o["name"] for o in real}),
            rule="one evaluation = one named obligation generated from the current source and sent to a back end; "
                 "distinct = distinct obligation names; all are non-trivial (vacuity is guarded by canaries)",
            samples=samples,
            discharged_by_backend=backends, solver_wall_s=solver_time,
            functions_under_contract=self.functions,
            extraction_drops=self.dropped,
            known_findings=[dict(obligation=o["name"], witness_class=o.get("witness_class", "")) for o in known],
            undecided=[o["name"] for o in undec], crashed=[o["name"] for o in crash],
            not_decided=[dict(obligation=o["name"], reason=(o["detail"] or "")[:300]) for o in nd],
            all_obligations=[dict(n=o["name"], k=o["kind"], s=o["status"], b=o["backend"], t=o["wall"]) for o in real],
        )
        cov.update(self.extra)
        ev = dict(property_id=self.prop, tier=self.tier, seed=self.seed, level=self.level, coverage=cov,
                  assumptions=self.assumptions, wall_s=round(wall, 2), violations=len(viol))
        with open(os.path.join(evdir, f"{self.prop}.json"), "w") as f:
            json.dump(ev, f, indent=1, default=str)
        print(f"[{self.prop}] tier={self.tier} obligations(proof)={len(proof)} discharged={n_dis(proof)} "
              f"bounded={len(bounded)}/{n_dis(bounded)} canaries={cov['canaries_refuted_as_required']}/{cov['canaries']} "
              f"known={len(known)} refuted={len(viol)} undecided={len(undec)} crash={len(crash)} wall={wall:.1f}s")
        for l in lines:
            print(l)
        for o in nd:
            print(f"NOT-DECIDED {o['name']}: {(o['detail'] or '')[:200]}")
        for o in undec:
            print(f"UNDECIDED {o['name']}: {(o['detail'] or '')[:400]}")
        for o in crash:
            print(f"CRASH {o['name']}: {(o['detail'] or '')[-1500:]}")
        for o in canary_bad:
            print(f"CANARY-NOT-REFUTED {o['name']} ({o['status']}): {(o['detail'] or '')[:300]}")
        sys.stdout.flush()
        if viol:
            return 1
        if crash or canary_bad or len(real) == 0:
            if len(real) == 0:
                print("CRASH zero obligations generated")
            return 3
        if undec:
            return 2
        return 0


def _safe(s):
    return "".join(c if c.isalnum() or c in "._-" else "_" for c in s)[:150]

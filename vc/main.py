"""./check <Cxx> [--tier quick|thorough]  — runs one property's obligations and writes evidence/<Cxx>.json"""
from __future__ import annotations

import argparse
import importlib
import os
import sys
import traceback

sys.path.insert(0, os.path.dirname(os.path.dirname(os.path.abspath(__file__))))

from vc import common  # noqa: E402


def selftest(prop):
    """thorough tier: every seeded change of this property (seeded/<name>/patch.diff) is applied to a scratch copy of the CURRENT tree outside /repo and
    /verif, the quick check is run on it and must report a violation; informational (recorded in the evidence, does not change the exit code)."""
    import glob
    import json
    import shutil
    import subprocess
    import tempfile
    out = []
    for meta in sorted(glob.glob(os.path.join(common.VERIF, "seeded", "*", "meta.json"))):
        try:
            m = json.load(open(meta))
        except Exception:
            continue
        if m.get("property") != prop:
            continue
        name = os.path.basename(os.path.dirname(meta))
        scratch = tempfile.mkdtemp(prefix="verif_selftest_")
        try:
            shutil.copytree(os.path.join(common.REPO, "ad_afqmc"), os.path.join(scratch, "ad_afqmc"))
            patch = os.path.join(os.path.dirname(meta), "patch.diff")
            ap = subprocess.run(["patch", "-p1", "-s", "-d", scratch, "-i", patch], capture_output=True, text=True)
            if ap.returncode != 0:
                out.append(dict(seeded=name, result="patch no longer applies (skipped)"))
                continue
            env = dict(os.environ, REPO=scratch, VERIF_EVIDENCE_DIR=os.path.join(scratch, "evidence"), VERIF_REPLAY_DIR=os.path.join(scratch, "replay"), VERIF_NO_SELFTEST="1")
            r = subprocess.run([sys.executable, "-m", "vc.main", prop, "--tier", "quick"], cwd=common.VERIF, env=env, capture_output=True, text=True, timeout=3600)
            viol = [l.split("obligation=")[-1] for l in r.stdout.splitlines() if l.startswith("VIOLATION")]
            out.append(dict(seeded=name, exit=r.returncode, killed=(r.returncode == 1), violations=viol[:4]))
        except Exception as e:   # noqa
            out.append(dict(seeded=name, result="selftest error " + repr(e)[:120]))
        finally:
            shutil.rmtree(scratch, ignore_errors=True)
    return out


def main():
    ap = argparse.ArgumentParser()
    ap.add_argument("prop")
    ap.add_argument("--tier", default=os.environ.get("VERIF_TIER", "quick"), choices=["quick", "thorough"])
    ap.add_argument("--only", default=None, help="substring filter on task function / kwargs (development aid)")
    ap.add_argument("--inline", action="store_true")
    a = ap.parse_args()
    os.environ["VERIF_TIER"] = a.tier
    try:
        pm = importlib.import_module(f"props.{a.prop}")
        rep = common.Report(a.prop, a.tier, pm.LEVEL, pm.EXPLANATION,
                            f"./check {a.prop} --tier {a.tier}", pm.TRUSTED_BASE, pm.ASSUMPTIONS, pm.DROPPED)
        tasks = pm.tasks(a.tier)
        if a.only:
            tasks = [t for t in tasks if a.only in t[1] + str(t[2])]
        obs = common.run_tasks(tasks, inline=a.inline)
        if hasattr(pm, "post"):
            obs = pm.post(obs, a.tier, rep) or obs
        if a.tier == "thorough" and not os.environ.get("VERIF_NO_SELFTEST"):
            rep.extra["seeded_selftest"] = selftest(a.prop)
        from vc import front
        rep.add_functions(front.shas(sorted({f for o in obs for f in o.get("functions", []) if f and ":" not in f})))
        if hasattr(pm, "functions"):
            rep.add_functions(pm.functions())
        code = rep.finish(obs)
    except Exception:
        traceback.print_exc()
        code = 3
    sys.exit(code)


if __name__ == "__main__":
    main()

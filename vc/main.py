"""./check <Cxx> [--tier quick|thorough]  — runs one property's obligations and writes evidence/<Cxx>.json"""
from __future__ import annotations

import argparse
import importlib
import os
import sys
import traceback

sys.path.insert(0, os.path.dirname(os.path.dirname(os.path.abspath(__file__))))

from vc import common  # noqa: E402


def main():
    ap = argparse.ArgumentParser()
    ap.add_argument("prop")
    ap.add_argument("--tier", default=os.environ.get("VERIF_TIER", "quick"), choices=["quick", "thorough"])
    ap.add_argument("--only", default=None, help="substring filter on task function / kwargs (development aid)")
    ap.add_argument("--inline", action="store_true")
    a = ap.parse_args()
    try:
        pm = importlib.import_module(f"props.{a.prop}")
        rep = common.Report(a.prop, a.tier, pm.LEVEL, pm.EXPLANATION,
                            f"./check {a.prop} --tier {a.tier}", pm.TRUSTED_BASE, pm.ASSUMPTIONS, pm.DROPPED)
        tasks = pm.tasks(a.tier)
        if a.only:
            tasks = [t for t in tasks if a.only in t[1] + str(t[2])]
        obs = common.run_tasks(tasks, inline=a.inline)
        if hasattr(pm, "post"):
            obs = pm.post(obs, a.tier, rep) or obs
        from vc import front
        rep.add_functions(front.shas(sorted({f for o in obs for f in o.get("functions", []) if f and ":" not in f})))
        if hasattr(pm, "functions"):
            rep.add_functions(pm.functions())
        code = rep.finish(obs)
    except Exception:
        traceback.print_exc()
        code = 3
    sys.exit(code)


if __name__ == "__main__":
    main()

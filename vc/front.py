"""Source front end: parses the REAL files of REPO on every run (never a copy kept in /verif).

Provides: module ASTs, function lookup by qualified name ("lattices.two_dimensional_grid.get_site_num"),
class tables (bases, methods, dataclass fields with defaults), decorator facts, and a sha of each
function's source segment so that evidence records exactly which text was verified.
"""
from __future__ import annotations

import ast
import os

from .common import REPO, sha_text, Unsupported

_cache = {}


def module_path(mod):
    return os.path.join(REPO, "ad_afqmc", mod + ".py")


def load(mod):
    if mod not in _cache:
        with open(module_path(mod)) as f:
            src = f.read()
        _cache[mod] = (src, ast.parse(src))
    return _cache[mod]


def classes(mod):
    src, tree = load(mod)
    return {n.name: n for n in tree.body if isinstance(n, ast.ClassDef)}


def functions_of_class(cls_node):
    return {n.name: n for n in cls_node.body if isinstance(n, ast.FunctionDef)}


def all_methods(mod, cls):
    """name -> list of FunctionDef (several when singledispatch registers `_`)."""
    out = {}
    for n in classes(mod)[cls].body:
        if isinstance(n, ast.FunctionDef):
            out.setdefault(n.name, []).append(n)
    return out


def get_function(qual):
    """qual = 'module.func' or 'module.Class.method' (first definition) -> (FunctionDef, source text)."""
    parts = qual.split(".")
    mod = parts[0]
    src, tree = load(mod)
    if len(parts) == 2:
        for n in tree.body:
            if isinstance(n, ast.FunctionDef) and n.name == parts[1]:
                return n, ast.get_source_segment(src, n)
        raise Unsupported(f"function {qual} not found")
    cls = classes(mod).get(parts[1])
    if cls is None:
        raise Unsupported(f"class {parts[1]} not found in {mod}")
    for n in cls.body:
        if isinstance(n, ast.FunctionDef) and n.name == parts[2]:
            return n, ast.get_source_segment(src, n)
    raise Unsupported(f"method {qual} not found")


def resolve_method(mod, cls, name):
    """MRO lookup restricted to classes defined in `mod` (single inheritance chains + mixins, left to right)."""
    cs = classes(mod)
    seen = []

    def walk(c):
        if c not in cs or c in seen:
            return None
        seen.append(c)
        node = cs[c]
        for n in node.body:
            if isinstance(n, ast.FunctionDef) and n.name == name:
                return f"{mod}.{c}.{name}"
        for b in node.bases:
            bn = b.id if isinstance(b, ast.Name) else None
            if bn:
                r = walk(bn)
                if r:
                    return r
        return None

    return walk(cls)


def subclasses(mod, base):
    cs = classes(mod)

    def derives(c):
        node = cs[c]
        for b in node.bases:
            bn = b.id if isinstance(b, ast.Name) else None
            if bn == base or (bn in cs and derives(bn)):
                return True
        return False

    return [c for c in cs if derives(c)]


def fn_sha(qual):
    node, text = get_function(qual)
    return sha_text(text)


def shas(quals):
    out = {}
    for q in quals:
        try:
            out[q] = fn_sha(q)
        except Unsupported:
            out[q] = "MISSING"
    return out


def dataclass_fields(mod, cls):
    """[(name, default_ast or None)] in declaration order (annotated assignments of the class body)."""
    node = classes(mod)[cls]
    out = []
    for n in node.body:
        if isinstance(n, ast.AnnAssign) and isinstance(n.target, ast.Name):
            out.append((n.target.id, n.value))
    return out


def decorators(fn_node):
    return [ast.unparse(d) for d in fn_node.decorator_list]

"""Spec functions: Fock space written out in second quantisation (generic over the scalar type: floats/complex for
native replay, `Fr` field elements for Engine B).

Basis: alpha-string x beta-string occupation tuples (increasing orbital order, lexicographic), sign convention
"all alpha creators to the left of all beta creators, each string in increasing orbital order".
"""
from __future__ import annotations

import itertools

import numpy as np


def _det(A, det=None):
    if A.shape[0] == 0:
        return 1
    if det is not None:
        return det(A)
    if A.dtype == object:
        from ..jxvc.field import det_sym
        return det_sym(A)
    return np.linalg.det(A)


class Fock:
    def __init__(s, norb, nel):
        s.norb, s.nel = norb, tuple(nel)
        s.sa = list(itertools.combinations(range(norb), nel[0]))
        s.sb = list(itertools.combinations(range(norb), nel[1]))
        s.ia = {t: k for k, t in enumerate(s.sa)}
        s.ib = {t: k for k, t in enumerate(s.sb)}
        s.dim = len(s.sa) * len(s.sb)
        s._E = {}

    def idx(s, a, b):
        return s.ia[a] * len(s.sb) + s.ib[b]

    def det_vec(s, wu, wd):
        """Slater determinant |phi> = prod_k (sum_p wu[p,k] a+_p,up) prod_k (sum_p wd[p,k] a+_p,dn) |0> in the basis."""
        obj = (getattr(wu, "dtype", None) == object) or (getattr(wd, "dtype", None) == object)
        v = np.empty(s.dim, dtype=object) if obj else np.zeros(s.dim, dtype=complex)
        da = {a: _det(wu[list(a), :]) for a in s.sa}
        db = {b: _det(wd[list(b), :]) for b in s.sb}
        for a in s.sa:
            for b in s.sb:
                v[s.idx(a, b)] = da[a] * db[b]
        return v

    def ghf_vec(s, C):
        """spin-orbital determinant of the (2 norb x n) matrix C (rows: alpha orbitals then beta orbitals)"""
        obj = getattr(C, "dtype", None) == object
        v = np.empty(s.dim, dtype=object) if obj else np.zeros(s.dim, dtype=complex)
        for a in s.sa:
            for b in s.sb:
                rows = list(a) + [s.norb + x for x in b]
                v[s.idx(a, b)] = _det(C[rows, :])
        return v

    @staticmethod
    def _ann(t, q):
        if q not in t:
            return None
        k = t.index(q)
        return ((-1) ** k, t[:k] + t[k + 1:])

    @staticmethod
    def _cre(t, p):
        if p in t:
            return None
        k = sum(1 for x in t if x < p)
        return ((-1) ** k, t[:k] + (p,) + t[k:])

    def e_pq(s, p, q, spin):
        """sparse matrix of a+_{p,spin} a_{q,spin} as list of (row, col, sign)"""
        key = (p, q, spin)
        if key in s._E:
            return s._E[key]
        out = []
        for a in s.sa:
            for b in s.sb:
                t = a if spin == 0 else b
                r = s._ann(t, q)
                if r is None:
                    continue
                r2 = s._cre(r[1], p)
                if r2 is None:
                    continue
                na, nb = (r2[1], b) if spin == 0 else (a, r2[1])
                out.append((s.idx(na, nb), s.idx(a, b), r[0] * r2[0]))
        s._E[key] = out
        return out

    def zeros(s, like):
        if like.dtype == object:
            z = like[0] * 0
            o = np.empty(s.dim, dtype=object)
            for k in range(s.dim):
                o[k] = z
            return o
        return np.zeros(s.dim, dtype=complex)

    def apply_E(s, p, q, spin, vec):
        out = s.zeros(vec)
        for i, j, sg in s.e_pq(p, q, spin):
            out[i] = out[i] + vec[j] if sg > 0 else out[i] - vec[j]
        return out

    def one_body(s, A, spin, vec):
        """sum_pq A[p,q] a+_{p,spin} a_{q,spin} |vec>"""
        out = s.zeros(vec)
        for p in range(s.norb):
            for q in range(s.norb):
                a = A[p, q]
                if not isinstance(a, object.__class__) and isinstance(a, (int, float, complex)) and a == 0:
                    continue
                for i, j, sg in s.e_pq(p, q, spin):
                    t = a * vec[j]
                    out[i] = out[i] + t if sg > 0 else out[i] - t
        return out

    def one_body_both(s, A, vec):
        return s.one_body(A, 0, vec) + s.one_body(A, 1, vec)

    def ham(s, h0, h1, L, vec):
        """H|vec>,  H = h0 + sum h1[s]_pq a+ps aqs + 1/2 sum_g sum L_pq L_rs a+ps a+rt ast aqs
        using  a+p a+r a_s a_q = E_pq E_rs - delta_qr delta_st E_ps"""
        out = vec * h0 if vec.dtype == object else h0 * vec
        for sp in range(2):
            out = out + s.one_body(h1[sp], sp, vec)
        half = 0.5 if vec.dtype != object else _half(vec)
        for g in range(L.shape[0]):
            t = s.one_body_both(L[g], vec)
            t2 = s.one_body_both(L[g], t)
            L2 = L[g].dot(L[g])
            out = out + (t2 - s.one_body_both(L2, vec)) * half
        return out

    def inner(s, bra_conj, ket):
        """sum_k bra_conj[k] * ket[k]   (bra_conj = already conjugated coefficients of the bra)"""
        tot = None
        for k in range(s.dim):
            t = bra_conj[k] * ket[k]
            tot = t if tot is None else tot + t
        return tot


def _half(vec):
    from fractions import Fraction
    x = vec[0]
    return x.sp.const(Fraction(1, 2))

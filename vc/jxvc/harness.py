"""Harness for Engine B obligations: parallel symbolic / numeric inputs, identity checks, float cross-check, replay."""
from __future__ import annotations

import os
import sys
import time
from fractions import Fraction

import numpy as np

from ..common import REPO, ob, DISCHARGED, REFUTED, UNDECIDED, CRASH, Unsupported
from .field import Space, Fr, is_obj, lift_array


def setup_repo():
    """import the REAL package from REPO (first on sys.path; it is not installed anywhere else)"""
    if sys.path[0] != REPO:
        sys.path.insert(0, REPO)
    import ad_afqmc
    assert os.path.abspath(os.path.dirname(ad_afqmc.__file__)).startswith(os.path.abspath(REPO)), ad_afqmc.__file__
    from ad_afqmc import config
    config.setup_jax()
    import jax
    jax.config.update("jax_platform_name", "cpu")
    return ad_afqmc


class V:
    """an input in both worlds: .s symbolic (object array), .x numeric (point values), .sb/.xb conjugates"""

    def __init__(self, s, x):
        self.s, self.x = s, x

    def map(self, f):
        return V(f(self.s), f(self.x))

    @property
    def T(self):
        return self.map(lambda a: a.T)


def both(f, *vs):
    return V(f(*[v.s for v in vs]), f(*[v.x for v in vs]))


class Inputs:
    def __init__(self, seed=0):
        self.sp = Space()
        self.rng = np.random.default_rng(seed + 12345)
        self.pending = []
        self.point = {}

    def declare(self, prefix, shape, complex_=False):
        names, cnames = self.sp.declare(prefix, tuple(shape), complex_)
        h = dict(names=names, cnames=cnames, complex=bool(complex_), partner=(complex_ is True), shape=tuple(shape))
        self.pending.append(h)
        return h

    def build(self):
        self.sp.build()
        out = []
        for h in self.pending:
            s = self.sp.arr(h["names"])
            x = np.empty(h["shape"], dtype=complex if h["complex"] else float)
            for idx in np.ndindex(*h["shape"]):
                re = Fraction(int(self.rng.integers(-9, 10)), int(self.rng.integers(3, 8)))
                im = Fraction(int(self.rng.integers(-9, 10)), int(self.rng.integers(3, 8))) if h["complex"] else Fraction(0)
                v = complex(float(re), float(im)) if h["complex"] else float(re)
                x[idx] = v
                self.point[h["names"][idx]] = complex(v)
                if h["partner"]:
                    self.point[h["cnames"][idx]] = complex(v).conjugate()
            h["V"] = V(s, x)
            if h["partner"]:
                h["Vc"] = V(self.sp.arr(h["cnames"]), x.conj())
        return self

    def val(self, fr):
        """numeric value of a symbolic result at the point"""
        if isinstance(fr, Fr):
            return fr.evalf(self.point)
        a = np.asarray(fr, dtype=object)
        out = np.empty(a.shape, dtype=complex)
        for idx in np.ndindex(*a.shape):
            v = a[idx]
            out[idx] = v.evalf(self.point) if isinstance(v, Fr) else complex(v)
        return out


def flat(x):
    return np.asarray(x, dtype=object).reshape(-1) if not isinstance(x, Fr) else np.array([x], dtype=object)


def identity(name, lhs, rhs, *, kind="bounded", functions=(), inputs=None, note="", t0=None, witness_class=""):
    """Decide lhs == rhs elementwise as identities of rational functions. Returns an obligation dict."""
    t0 = t0 or time.time()
    L, Rr = flat(lhs), flat(rhs)
    if L.shape != Rr.shape:
        return ob(name, REFUTED, kind=kind, backend="ring", detail=f"shape mismatch {np.shape(lhs)} vs {np.shape(rhs)}",
                  functions=functions, wall=time.time() - t0, witness_class="shape")
    bad = []
    for k, (a, b) in enumerate(zip(L, Rr)):
        d = a - b
        z = d.iszero() if isinstance(d, Fr) else (d == 0)
        if not z:
            bad.append((k, d))
    if not bad:
        return ob(name, DISCHARGED, kind=kind, backend="ring", functions=functions, wall=time.time() - t0,
                  detail=f"{len(L)} component identities; {note}")
    k, d = bad[0]
    wit = dict(component=int(k), n_bad=len(bad), n_components=len(L), difference_numerator_terms=len(d.n.terms()) if isinstance(d, Fr) else 1,
               difference_head=str(d.n)[:300] if isinstance(d, Fr) else str(d))
    if inputs is not None:
        try:
            wit["point"] = {k_: str(v) for k_, v in list(inputs.point.items())[:60]}
            wit["lhs_at_point"] = str(inputs.val(L[k]))
            wit["rhs_at_point"] = str(inputs.val(Rr[k]))
        except ZeroDivisionError:
            pass
    return ob(name, REFUTED, kind=kind, backend="ring", functions=functions, wall=time.time() - t0,
              detail=f"{len(bad)}/{len(L)} components differ as rational functions; {note}", witness=wit, witness_class=witness_class)


def crosscheck(name, inputs, sym_out, native_out, tol=1e-8, functions=()):
    """Engine self-check: symbolic result evaluated at the point == the real function run by JAX at the point."""
    try:
        a = inputs.val(sym_out)
    except ZeroDivisionError:
        return None      # the rational sample point happens to be a pole of the result: nothing to compare
    b = np.asarray(native_out)
    if not np.all(np.isfinite(b)):
        return None
    a = np.asarray(a).reshape(np.shape(b))
    err = float(np.max(np.abs(a - b) / (1.0 + np.abs(b)))) if b.size else 0.0
    if not np.isfinite(err) or err > tol:
        return ob(name + ".selfcheck", CRASH, kind="bounded", backend="float-crosscheck",
                  detail=f"ENGINE SELF-CHECK FAILED: symbolic interpretation disagrees with JAX float64 run, rel err {err:.3e}",
                  functions=functions)
    return None

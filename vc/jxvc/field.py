"""Exact field Q(i)(x1..xn): numerator/denominator pairs of sparse polynomials over the Gaussian rationals.

No gcd normalisation is ever done (sympy's multivariate gcd is far too slow); equality is decided by
cross-multiplication  n1*d2 - n2*d1 == 0  (polynomial ring is an integral domain, so this is exact).
Complex conjugation uses Wirtinger pairs: a symbol declared complex has a partner symbol; conj swaps them and
conjugates coefficients. Symbols declared real are self-conjugate.
"""
from __future__ import annotations

from fractions import Fraction

import numpy as np
from sympy.polys.domains import QQ_I
from sympy.polys.rings import ring


class Space:
    """Allocates symbols; build() creates the polynomial ring."""

    def __init__(self):
        self.names, self.partner, self.R, self.gens = [], {}, None, None
        self.holo = set()      # holomorphic symbols: complex-valued, never to be conjugated
        self.trunc = None      # (generator index, K): power-series mode - monomials of degree > K in that generator are dropped in products

    def declare(self, prefix, shape, complex_=False):
        """returns (names array, conj-names array or None) -- symbols exist after build()."""
        holo = complex_ == "holo"
        complex_ = bool(complex_) and not holo
        names = np.empty(shape, dtype=object)
        cnames = np.empty(shape, dtype=object) if complex_ else None
        for idx in np.ndindex(*shape):
            n = prefix + "_" + "_".join(map(str, idx)) if shape else prefix
            names[idx] = n
            self.names.append(n)
            if holo:
                self.holo.add(n)
            if complex_:
                cn = "cj" + n
                cnames[idx] = cn
                self.names.append(cn)
                self.partner[n] = cn
                self.partner[cn] = n
        return names, cnames

    def build(self):
        res = ring(self.names, QQ_I)
        self.R, gens = res[0], res[1:]
        self.gens = dict(zip(self.names, gens))
        idx = {n: i for i, n in enumerate(self.names)}
        self.perm = [idx[self.partner.get(n, n)] for n in self.names]
        self.identity_perm = all(p == i for i, p in enumerate(self.perm))
        self.holo_idx = [i for i, n in enumerate(self.names) if n in self.holo]
        self.one = Fr(self.R.one, None, self)
        self.zero = Fr(self.R.zero, None, self)
        return self

    def arr(self, names):
        out = np.empty(names.shape, dtype=object)
        for idx in np.ndindex(*names.shape):
            out[idx] = Fr(self.gens[names[idx]], None, self)
        return out

    def const(self, c):
        return Fr(self.R(tocoef(c)), None, self)

    def sym(self, name):
        return Fr(self.gens[name], None, self)


def tocoef(c):
    if isinstance(c, (complex, np.complexfloating)):
        return QQ_I(Fraction(float(c.real)), Fraction(float(c.imag)))
    if isinstance(c, Fraction):
        return QQ_I(c, 0)
    if isinstance(c, (bool, np.bool_)):
        return QQ_I(int(c), 0)
    if isinstance(c, (int, np.integer)):
        return QQ_I(int(c), 0)
    if isinstance(c, (float, np.floating)):
        return QQ_I(Fraction(float(c)), 0)
    if isinstance(c, tuple) and len(c) == 2:   # (re, im) as Fractions
        return QQ_I(Fraction(c[0]), Fraction(c[1]))
    raise TypeError(type(c))


class NonFin:
    """IEEE non-finite value produced by a division by the zero element (reverse-mode rules of det / inv divide by a pivot that
    is identically zero when a padded, structurally singular matrix is differentiated, and filter the result with isnan/isinf).
      kind 'inf' : x/0 with x != 0 (infinite modulus: isinf is True, 1/it is 0)
      kind 'nf'  : any value derived from a non-finite one (inf or nan: isnan|isinf is True, each alone is unknown)
      kind 'bad' : finite-or-not unknown (e.g. x / 'nf'); querying or returning it is Unsupported
    Only what the float cross-check of the same run confirms is relied upon (XLA's complex arithmetic)."""
    _n = 0

    def __init__(self, kind):
        self.kind = kind
        NonFin._n += 1
        self.uid = NonFin._n

    def __repr__(self):
        return f"<{self.kind}#{self.uid}>"

    def _d(self, o=None):
        return NonFin("bad" if self.kind == "bad" or (isinstance(o, NonFin) and o.kind == "bad") else "nf")

    def __add__(self, o):
        if isinstance(o, np.ndarray) and o.ndim > 0:
            return NotImplemented
        return self._d(o)
    __radd__ = __sub__ = __rsub__ = __mul__ = __rmul__ = __add__

    def __truediv__(self, o):
        if isinstance(o, np.ndarray) and o.ndim > 0:
            return NotImplemented
        return self._d(o)

    def __rtruediv__(self, o):
        if isinstance(o, NonFin):
            return self._d(o)
        if self.kind == "inf":
            return o * 0
        return NonFin("bad")

    def __neg__(self):
        return NonFin(self.kind)

    def conj(self):
        return NonFin(self.kind)

    def __pow__(self, k):
        return NonFin("bad")

    def iszero(self):
        from vc.common import Unsupported
        raise Unsupported(f"a non-finite value ({self.kind}) reached a comparison / the result")

    def evalf(self, point):
        return complex("nan")


class Fr:
    """n / prod(atom_k ^ e_k): the denominator is kept FACTORED as a multiset of monic 'atoms' (the polynomials that
    were divided by), so a common denominator is a cheap lcm of exponent vectors - no polynomial gcd is ever needed."""
    __slots__ = ("n", "D", "sp")

    def __init__(s, n, d=None, sp=None):
        s.sp = sp
        if d is None or n == 0:
            s.n, s.D = n, ()
        elif isinstance(d, tuple):
            s.n, s.D = n, d
        else:   # polynomial denominator -> one atom
            lc = d.LC
            atom = d.quo_ground(lc) if lc != 1 else d
            if atom == 1:
                s.n, s.D = n.quo_ground(lc), ()
            else:
                s.n, s.D = (n.quo_ground(lc) if lc != 1 else n), ((atom, 1),)

    @property
    def d(s):
        """full denominator polynomial (None if 1)"""
        if not s.D:
            return None
        r = None
        for a, e in s.D:
            for _ in range(e):
                r = a if r is None else r * a
        return r

    # ---- arithmetic
    def _lift(a, b):
        if isinstance(b, Fr):
            return b
        if isinstance(b, np.ndarray):
            if b.ndim == 0:
                return a._lift(b[()])
            raise _NI()
        return Fr(a.n.ring(tocoef(b)), None, a.sp)

    @staticmethod
    def _lcm(Da, Db):
        """returns (D, multiplier atoms for a, multiplier atoms for b)"""
        if Da == Db:
            return Da, (), ()
        da, db = dict(Da), dict(Db)
        D, ma, mb = {}, [], []
        for at in set(da) | set(db):
            ea, eb = da.get(at, 0), db.get(at, 0)
            e = max(ea, eb)
            D[at] = e
            if e > ea:
                ma.append((at, e - ea))
            if e > eb:
                mb.append((at, e - eb))
        return tuple(sorted(D.items(), key=lambda t: id(t[0]) if False else hash(t[0]))), ma, mb

    @staticmethod
    def _times(n, mult):
        for at, e in mult:
            for _ in range(e):
                n = n * at
        return n

    def __add__(a, b):
        if isinstance(b, np.ndarray) and b.ndim > 0:
            return NotImplemented
        if isinstance(b, NonFin):
            return b.__radd__(a)
        b = a._lift(b)
        if a.D == b.D:
            return Fr(a.n + b.n, a.D, a.sp)
        D, ma, mb = Fr._lcm(a.D, b.D)
        return Fr(Fr._times(a.n, ma) + Fr._times(b.n, mb), D, a.sp)

    __radd__ = __add__

    def __neg__(a):
        return Fr(-a.n, a.D, a.sp)

    def __sub__(a, b):
        if isinstance(b, np.ndarray) and b.ndim > 0:
            return NotImplemented
        if isinstance(b, NonFin):
            return b.__rsub__(a)
        return a + (-a._lift(b))

    def __rsub__(a, b):
        if isinstance(b, NonFin):
            return b - a
        return a._lift(b) - a

    @staticmethod
    def _mulD(Da, Db):
        if not Da:
            return Db
        if not Db:
            return Da
        d = dict(Da)
        for at, e in Db:
            d[at] = d.get(at, 0) + e
        return tuple(sorted(d.items(), key=lambda t: hash(t[0])))

    def __mul__(a, b):
        if isinstance(b, np.ndarray) and b.ndim > 0:
            return NotImplemented
        if isinstance(b, NonFin):
            return b.__rmul__(a)
        b = a._lift(b)
        tr = a.sp.trunc if a.sp is not None else None
        if tr is not None and len(a.n) > 1 and len(b.n) > 1:
            # power-series mode: only multiply the parts whose degrees in s add up to <= K
            i, K = tr
            ga, gb = {}, {}
            for m, c in a.n.terms():
                ga.setdefault(m[i], {})[m] = c
            for m, c in b.n.terms():
                gb.setdefault(m[i], {})[m] = c
            R_ = a.n.ring
            n = R_.zero
            pa = {k: R_.from_dict(v) for k, v in ga.items()}
            pb = {k: R_.from_dict(v) for k, v in gb.items()}
            for ka, xa in pa.items():
                for kb, xb in pb.items():
                    if ka + kb <= K:
                        n = n + xa * xb
        else:
            n = a.n * b.n
            if tr is not None and n != 0:
                i, K = tr
                if any(m[i] > K for m in n.keys()):
                    n = n.ring.from_dict({m: c for m, c in n.terms() if m[i] <= K})
        if n == 0:
            return Fr(n, None, a.sp)
        return Fr(n, Fr._mulD(a.D, b.D), a.sp)

    __rmul__ = __mul__

    def __truediv__(a, b):
        if isinstance(b, np.ndarray) and b.ndim > 0:
            return NotImplemented
        if isinstance(b, NonFin):
            return b.__rtruediv__(a)
        b = a._lift(b)
        if b.n == 0:
            return NonFin("inf" if a.n != 0 else "nf")
        if a.n == 0:
            return Fr(a.n, None, a.sp)
        num = Fr._times(a.n, b.D)
        bn = b.n
        if len(bn) == 1 and all(e == 0 for e in next(iter(bn.keys()))):      # constant
            return Fr(num.quo_ground(bn.LC), a.D, a.sp)
        lc = bn.LC
        atom = bn.quo_ground(lc) if lc != 1 else bn
        if lc != 1:
            num = num.quo_ground(lc)
        # cheap exact cancellation: the new atom divides the numerator (e.g. (w e) / w)
        if len(atom) == 1:
            (mono, cf), = atom.terms()
            idx = [i for i, e in enumerate(mono) if e]
            if all(all(m[i] >= mono[i] for i in idx) for m in num.keys()):
                q = num.ring.from_dict({tuple(m[i] - mono[i] for i in range(len(m))): c for m, c in num.terms()})
                return Fr(q.quo_ground(cf) if cf != 1 else q, a.D, a.sp)
        elif len(atom) <= 4 and len(num) <= 400:
            try:
                q, r = num.div(atom)
                if r == 0:
                    return Fr(q, a.D, a.sp)
            except Exception:
                pass
        return Fr(num, Fr._mulD(a.D, ((atom, 1),)), a.sp)

    def __rtruediv__(a, b):
        if isinstance(b, NonFin):
            return b / a
        return a._lift(b) / a

    def __pow__(a, k):
        if isinstance(k, float) and k == 0.5:
            return SqrtOf(a)
        assert isinstance(k, (int, np.integer)) and k >= 0
        r = Fr(a.n.ring.one, None, a.sp)
        for _ in range(int(k)):
            r = r * a
        return r

    def iszero(s):
        return s.n == 0

    def eq(a, b):
        return (a - a._lift(b)).iszero()

    def conj(s):
        sp = s.sp

        def cj(p):
            if p == 0:
                return p
            if sp is not None and sp.holo_idx:
                hi = sp.holo_idx
                for m in p.keys():
                    for i in hi:
                        if m[i]:
                            from ..common import Unsupported
                            raise Unsupported("conjugation of an expression containing a holomorphic (walker) symbol")
            if sp is None or sp.identity_perm:
                return p.ring.from_dict({m: QQ_I(c.x, -c.y) for m, c in p.terms()})
            perm = sp.perm
            return p.ring.from_dict({tuple(m[perm[i]] for i in range(len(m))): QQ_I(c.x, -c.y) for m, c in p.terms()})
        r = Fr(cj(s.n), None, sp)
        for at, e in s.D:
            ca = Fr(sp.R.one if sp else at.ring.one, cj(at), sp)
            for _ in range(e):
                r = r * ca
        return r

    def conjugate(s):
        return s.conj()

    @property
    def real(s):
        c = s.conj()
        return (s + c) * Fr(s.n.ring(tocoef(Fraction(1, 2))), None, s.sp)

    def sqrt(s):
        return SqrtOf(s)

    def nterms(s):
        return len(s.n) + sum(len(a) for a, _ in s.D)

    def evalf(s, point):
        """numeric value at {name: complex}"""
        def ev(p):
            if p == 0:
                return 0.0
            names = [str(g) for g in p.ring.gens]
            tot = 0.0 + 0.0j
            for m, c in p.terms():
                t = complex(float(Fraction(int(c.x.numerator), int(c.x.denominator))), float(Fraction(int(c.y.numerator), int(c.y.denominator))))
                for e, nm in zip(m, names):
                    if e:
                        t *= point[nm] ** e
                tot += t
            return tot
        v = ev(s.n)
        for at, e in s.D:
            v = v / ev(at) ** e
        return v

    def __repr__(s):
        return f"Fr({str(s.n)[:60]} / {[(str(a)[:30], e) for a, e in s.D]})"


class SqrtOf:
    """formal square root of a field element (only its argument is ever compared); comparisons go to an oracle"""
    oracle = None

    def __init__(s, arg, factor=1.0):
        s.arg, s.factor = arg, factor

    def __rmul__(s, c):
        return SqrtOf(s.arg, s.factor * float(c))

    __mul__ = __rmul__

    def _cmp(s, op, other):
        if SqrtOf.oracle is None:
            raise TypeError("ordering of symbolic square roots needs an oracle")
        return SqrtOf.oracle(op, s, other)

    def __lt__(s, o):
        return s._cmp("<", o)

    def __gt__(s, o):
        return s._cmp(">", o)

    def __le__(s, o):
        return s._cmp("<=", o)

    def __ge__(s, o):
        return s._cmp(">=", o)


class _NI(Exception):
    pass


def is_obj(x):
    return isinstance(x, np.ndarray) and x.dtype == object


def lift_array(sp, x, force=False):
    """concrete numpy array -> object array of Fr (ints/bools stay concrete unless force)"""
    if isinstance(x, Fr):
        o = np.empty((), dtype=object)
        o[()] = x
        return o
    x = np.asarray(x)
    if x.dtype == object:
        return x
    if x.dtype.kind in "iub" and not force:
        return x
    out = np.empty(x.shape, dtype=object)
    R = sp.R
    for idx in np.ndindex(*x.shape):
        out[idx] = Fr(R(tocoef(x[idx])), None, sp)
    return out


def det_sym(A):
    n = A.shape[0]
    if n == 0:
        return 1
    if n == 1:
        return A[0, 0]
    if n == 2:
        return A[0, 0] * A[1, 1] - A[0, 1] * A[1, 0]
    tot = None
    for j in range(n):
        minor = np.delete(np.delete(A, 0, 0), j, 1)
        t = A[0, j] * det_sym(minor)
        if j % 2:
            t = -t
        tot = t if tot is None else tot + t
    return tot


def inv_sym(A):
    n = A.shape[0]
    d = det_sym(A)
    out = np.empty((n, n), dtype=object)
    for i in range(n):
        for j in range(n):
            if n > 1:
                c = det_sym(np.delete(np.delete(A, j, 0), i, 1))
            else:
                c = A[0, 0] * 0 + 1
            if (i + j) % 2:
                c = -c
            out[i, j] = c / d
    return out


def all_zero(arr):
    return all(x.iszero() if isinstance(x, Fr) else x == 0 for x in np.asarray(arr, dtype=object).reshape(-1))

"""Engine B-T: tensor normal forms with SYMBOLIC sizes over a jaxpr.

A value is a formal tensor  T[axes] = sum_terms coeff * prod_atoms name[index vars]  with bound (summed) index variables; every
axis is a row-major composite of (index variable, size symbol) components, or a small CONCRETE leading axis represented as a
Python list (`Stack`).  The jaxpr is traced at concrete sizes chosen as distinct primes per size symbol, so that every traced
extent factors uniquely into size symbols; the derivation itself never uses the numeric extents except to decode reshapes.
Two formal tensors are equal for ALL sizes iff their canonical forms (bound variables renamed to a canonical labelling) agree.
What is assumed: tracing is uniform in the sizes (checked by repeating the derivation at a second set of primes); floating-point
arithmetic is real/complex arithmetic.
"""
from __future__ import annotations

import itertools
from fractions import Fraction

import numpy as np

from ..common import Unsupported

_ctr = itertools.count(1)
REAL = set()        # atom names that denote real-valued tensors (a stated precondition): needed by real()/imag()
SYMMETRIC = {}      # atom name -> (position a, position b): the tensor is symmetric under exchange of these two indices (a stated precondition)


def fresh():
    return next(_ctr)


class Stack(list):
    """concrete leading axis"""


class TT:
    def __init__(self, axes, terms):
        self.axes = [tuple(a) for a in axes]       # axis = tuple of (var, sym) components
        self.terms = list(terms)                   # (coeff, atoms, bound) ; atoms = tuple of (name, vars, conj) ; bound = frozenset of (var, sym)

    def rename(self, m):
        r = lambda v: m.get(v, v)
        axes = [tuple((r(v), s) for v, s in a) for a in self.axes]
        terms = [(c, tuple((n, tuple(r(v) for v in vs), cj) for n, vs, cj in at), frozenset((r(v), s) for v, s in b)) for c, at, b in self.terms]
        return TT(axes, terms)

    def freshened(self):
        """fresh names for the bound variables (before combining with another tensor)"""
        out = []
        for c, at, b in self.terms:
            m = {v: fresh() for v, _ in b}
            out.append((c, tuple((n, tuple(m.get(v, v) for v in vs), cj) for n, vs, cj in at), frozenset((m[v], s) for v, s in b)))
        return TT(self.axes, out)


def atom(name, syms, composite=None):
    """input tensor `name` with one index per size symbol in syms; composite = list of lists of positions grouping indices into axes"""
    vs = [fresh() for _ in syms]
    groups = composite or [[k] for k in range(len(syms))]
    axes = [tuple((vs[k], syms[k]) for k in g) for g in groups]
    return TT(axes, [(Fraction(1), ((name, tuple(vs), False),), frozenset())])


def _axis_sig(a):
    return tuple(s for _, s in a)


def align(a: TT, b: TT):
    """rename b's free variables to a's (axis by axis)"""
    if [_axis_sig(x) for x in a.axes] != [_axis_sig(x) for x in b.axes]:
        raise Unsupported(f"tensor shapes differ symbolically: {[_axis_sig(x) for x in a.axes]} vs {[_axis_sig(x) for x in b.axes]}")
    m = {}
    for xa, xb in zip(a.axes, b.axes):
        for (va, _), (vb, _) in zip(xa, xb):
            m[vb] = va
    return b.freshened().rename(m)


def add(a, b, sign=1):
    a, b = _bcast1(a, b)
    if isinstance(a, Stack) or isinstance(b, Stack):
        if not (isinstance(a, Stack) and isinstance(b, Stack) and len(a) == len(b)):
            raise Unsupported("stack mismatch in add")
        return Stack(add(x, y, sign) for x, y in zip(a, b))
    if isinstance(a, TT) and isinstance(b, TT) and bool(a.axes) != bool(b.axes):
        # rank-0 operand broadcast against a tensor
        if not b.axes:
            b = TT([tuple((fresh(), s_) for _, s_ in ax) for ax in a.axes], b.terms)
        else:
            a = TT([tuple((fresh(), s_) for _, s_ in ax) for ax in b.axes], a.terms)
    b = align(a, b)
    return TT(a.axes, a.terms + [(c * sign, at, bd) for c, at, bd in b.terms])


def scale(a, k):
    if isinstance(a, Stack):
        return Stack(scale(x, k) for x in a)
    return TT(a.axes, [(c * k, at, bd) for c, at, bd in a.terms])


def _bcast1(a, b):
    """implicit broadcasting of a leading extent-1 axis (Stack of length 1) against a symbolic leading axis"""
    if isinstance(b, Stack) and len(b) == 1 and isinstance(a, TT) and isinstance(b[0], TT) and len(a.axes) == len(b[0].axes) + 1:
        return a, TT([((fresh(), a.axes[0][0][1]),) if len(a.axes[0]) == 1 else tuple((fresh(), s_) for _, s_ in a.axes[0])] + list(b[0].axes), b[0].terms)
    if isinstance(a, Stack) and len(a) == 1 and isinstance(b, TT) and isinstance(a[0], TT) and len(b.axes) == len(a[0].axes) + 1:
        y, x = _bcast1(b, a)
        return x, y
    return a, b


def mul(a, b):
    """elementwise product (same symbolic shape, or one operand a scalar tensor)"""
    a, b = _bcast1(a, b)
    if isinstance(a, Stack) or isinstance(b, Stack):
        if isinstance(a, Stack) and isinstance(b, Stack) and len(a) == len(b):
            return Stack(mul(x, y) for x, y in zip(a, b))
        raise Unsupported("stack mismatch in mul")
    a, b = a.freshened(), b.freshened()
    if not a.axes and b.axes:
        a, b = b, a
    if b.axes:
        b = align(a, b)
    return TT(a.axes, [(c1 * c2, a1 + a2, frozenset(b1 | b2)) for c1, a1, b1 in a.terms for c2, a2, b2 in b.terms])


def reduce_sum(a, axes):
    if isinstance(a, Stack):
        if 0 in axes:
            rest = [x - 1 for x in axes if x != 0]
            parts = [reduce_sum(x, rest) if rest else x for x in a]
            tot = parts[0]
            for p_ in parts[1:]:
                tot = add(tot, p_)
            return tot
        return Stack(reduce_sum(x, [y - 1 for y in axes]) for x in a)
    gone = [c for i in axes for c in a.axes[i]]
    return TT([ax for i, ax in enumerate(a.axes) if i not in axes], [(c, at, frozenset(b | set(gone))) for c, at, b in a.terms])


def trace(a, ax1, ax2):
    """sum_i T[..., i, ..., i, ...]"""
    if isinstance(a, Stack):
        return Stack(trace(x, ax1 - 1, ax2 - 1) for x in a)
    if _axis_sig(a.axes[ax1]) != _axis_sig(a.axes[ax2]):
        raise Unsupported("trace over axes of different symbolic size")
    a = a.freshened()
    m = {vb: va for (va, _), (vb, _) in zip(a.axes[ax1], a.axes[ax2])}
    r = a.rename(m)
    gone = list(r.axes[ax1])
    return TT([ax for i, ax in enumerate(r.axes) if i not in (ax1, ax2)], [(c, at, frozenset(b | set(gone))) for c, at, b in r.terms])


def realpart(a, imag=False):
    if isinstance(a, Stack):
        return Stack(realpart(x, imag) for x in a)
    out = []
    for c, at, bd in a.terms:
        if any(n not in REAL for n, _, _ in at):
            raise Unsupported("real()/imag() of a term with a factor that is not declared real")
        cv = complex(c)
        k = cv.imag if imag else cv.real
        if k != 0:
            out.append((Fraction(k), at, bd))
    return TT(a.axes, out)


def const(k):
    return TT([], [(k, (), frozenset())])


def conj(a):
    if isinstance(a, Stack):
        return Stack(conj(x) for x in a)
    return TT(a.axes, [(c.conjugate() if isinstance(c, complex) else c, tuple((n, vs, not cj) for n, vs, cj in at), bd) for c, at, bd in a.terms])


def transpose(a, perm):
    if isinstance(a, Stack):
        if perm[0] != 0:
            raise Unsupported("transpose moving a concrete axis")
        return Stack(transpose(x, [p - 1 for p in perm[1:]]) for x in a)
    return TT([a.axes[p] for p in perm], a.terms)


def dot_general(a, b, dn):
    (lc, rc), (lb, rb) = dn
    lc, rc, lb, rb = list(lc), list(rc), list(lb), list(rb)
    if isinstance(a, Stack) or isinstance(b, Stack):
        # a concrete axis may only be a free leading axis of ONE operand here
        if isinstance(a, Stack) and not isinstance(b, Stack) and 0 not in lc and 0 not in lb:
            sub = (([x - 1 for x in lc], rc), ([x - 1 for x in lb], rb))
            return Stack(dot_general(x, b, sub) for x in a)
        raise Unsupported("dot_general over a concrete axis")
    b = b.freshened()
    a = a.freshened()
    # make b's free variables distinct from a's
    m = {v: fresh() for ax in b.axes for v, _ in ax}
    b = b.rename(m)
    ren, bound = {}, set()
    for x, y in zip(lc, rc):
        if _axis_sig(a.axes[x]) != _axis_sig(b.axes[y]):
            raise Unsupported("contracted axes have different symbolic sizes")
        for (va, s), (vb, _) in zip(a.axes[x], b.axes[y]):
            ren[vb] = va
            bound.add((va, s))
    for x, y in zip(lb, rb):
        if _axis_sig(a.axes[x]) != _axis_sig(b.axes[y]):
            raise Unsupported("batch axes have different symbolic sizes")
        for (va, s), (vb, _) in zip(a.axes[x], b.axes[y]):
            ren[vb] = va
    b = b.rename(ren)
    axes = [a.axes[x] for x in lb] + [a.axes[i] for i in range(len(a.axes)) if i not in lc and i not in lb] + \
           [b.axes[i] for i in range(len(b.axes)) if i not in rc and i not in rb]
    terms = []
    for c1, at1, b1 in a.terms:
        for c2, at2, b2 in b.terms:
            terms.append((c1 * c2, at1 + at2, frozenset(b1 | b2 | bound)))
    return TT(axes, terms)


def reshape(a, new_sizes, sizes):
    """sizes: symbol -> traced extent"""
    if isinstance(a, Stack):
        if new_sizes[0] == len(a):
            return Stack(reshape(x, new_sizes[1:], sizes) for x in a)
        raise Unsupported("reshape merging a concrete axis")
    if new_sizes and new_sizes[0] == 1:
        return Stack([reshape(a, new_sizes[1:], sizes)])
    comps = [c for ax in a.axes for c in ax]
    axes, k = [], 0
    for n in new_sizes:
        cur, prod = [], 1
        while prod < n and k < len(comps):
            cur.append(comps[k])
            prod *= sizes[comps[k][1]]
            k += 1
        if prod != n:
            raise Unsupported(f"reshape to extent {n} does not follow the composite structure {[s for _, s in comps]}")
        axes.append(tuple(cur))
    if k != len(comps):
        raise Unsupported("reshape leaves components over")
    return TT(axes, a.terms)


# ------------------------------------------------------------------ canonical form and equality
def _canon_term(term, free_names):
    c, atoms, bound = term
    used = {v for _, vs, _ in atoms for v in vs}
    dead = [(v, s) for v, s in bound if v not in used]
    if dead:
        raise Unsupported("summation over an index that no factor carries (a size factor): not modelled")
    # bound variables may only be relabelled within their size symbol; within a symbol they are first separated by colour refinement
    # (a variable's colour = its symbol and, iteratively, the multiset of (atom, position, colours of the atom's other indices) it occurs in);
    # only variables that stay indistinguishable are permuted by brute force
    bset = {v for v, _ in bound}
    color = {v: ("s", s_) for v, s_ in bound}

    def col(v):
        return color[v] if v in bset else ("free", free_names.get(v, ("?", v)))
    for _ in range(len(bset) + 1):
        new = {}
        for v in bset:
            occ = []
            for n, vs, cj in atoms:
                for pos, w in enumerate(vs):
                    if w == v:
                        sym_pos = pos
                        if n in SYMMETRIC and pos in SYMMETRIC[n]:
                            sym_pos = min(SYMMETRIC[n])       # positions of a symmetric pair are interchangeable
                        occ.append((n, sym_pos, cj and n not in REAL, tuple(sorted(repr(col(u)) for k, u in enumerate(vs) if k != pos))))
            new[v] = (color[v], tuple(sorted(repr(o) for o in occ)))
        # compress colours to small integers to keep them comparable and short
        ranks = {c: i for i, c in enumerate(sorted(set(new.values()), key=repr))}
        newc = {v: ("c", ranks[new[v]]) for v in bset}
        if len(set(newc.values())) == len(set(color.values())):
            color = newc
            break
        color = newc
    classes = {}
    for v in sorted(bset, key=lambda u: (repr(color[u]), u)):
        classes.setdefault(color[v], []).append(v)
    sym_of = dict(bound)
    syms = sorted(classes, key=repr)
    count = 1
    for s_ in syms:
        for k in range(2, len(classes[s_]) + 1):
            count *= k
    if count > 400000:
        raise Unsupported("too many bound variables for the canonical labelling")
    best = None
    for perms in itertools.product(*[itertools.permutations(range(len(classes[s_]))) for s_ in syms]):
        m = {}
        for s_, perm in zip(syms, perms):
            for i, v in enumerate(classes[s_]):
                m[v] = ("b", sym_of[v], s_[1], perm[i])
        lab = []
        for n, vs, cj in atoms:
            t = [m.get(v, free_names.get(v, ("?", v))) for v in vs]
            if n in SYMMETRIC:
                i, j = SYMMETRIC[n]
                if t[j] < t[i]:
                    t[i], t[j] = t[j], t[i]
            lab.append((n, tuple(t), cj and n not in REAL))
        key = tuple(sorted(lab))
        if best is None or key < best:
            best = key
    return best, tuple(sorted(s for _, s in bound)), c


def canonical(t: TT):
    free = {}
    for i, ax in enumerate(t.axes):
        for j, (v, s) in enumerate(ax):
            free[v] = ("f", i, j)
    acc = {}
    for term in t.terms:
        k, syms, c = _canon_term(term, free)
        acc[(k, syms)] = acc.get((k, syms), 0) + c
    return ([_axis_sig(a) for a in t.axes], {k: v for k, v in acc.items() if v != 0})


def equal(a, b):
    if isinstance(a, Stack) or isinstance(b, Stack):
        return isinstance(a, Stack) and isinstance(b, Stack) and len(a) == len(b) and all(equal(x, y) for x, y in zip(a, b))
    return canonical(a) == canonical(b)


def describe(t):
    if isinstance(t, Stack):
        return [describe(x) for x in t]
    ax, terms = canonical(t)
    return dict(axes=ax, terms=[f"{c} * " + " ".join(f"{n}{'*' if cj else ''}{list(vs)}" for n, vs, cj in k) + (f"  (sum over {list(s)})" if s else "") for (k, s), c in terms.items()])


def ein(spec, *ops):
    """spec builder independent of the jaxpr rules: 'iq,gij,jp->gqp' over TT operands whose axes are simple (one component each) or composite given by repeated letters in brackets is not needed here"""
    ins, out = spec.split("->")
    ins = ins.split(",")
    var, sym = {}, {}
    terms = [(Fraction(1), (), frozenset())]
    for s_, o in zip(ins, ops):
        o = o.freshened()
        comps = [c for ax in o.axes for c in ax]
        if len(comps) != len(s_):
            raise Unsupported("ein: letters do not match components")
        m = {}
        for ch, (v, sy) in zip(s_, comps):
            if ch not in var:
                var[ch], sym[ch] = fresh(), sy
            elif sym[ch] != sy:
                raise Unsupported("ein: size mismatch")
            m[v] = var[ch]
        o = o.rename(m)
        terms = [(c1 * c2, a1 + a2, b1 | b2) for c1, a1, b1 in terms for c2, a2, b2 in o.terms]
    bound = frozenset((var[ch], sym[ch]) for ch in var if ch not in out)
    return TT([((var[ch], sym[ch]),) for ch in out], [(c, at, frozenset(b | bound)) for c, at, b in terms])


class Frac:
    """quotient of two scalar formal tensors (only created by a final division; compared by cross-multiplication)"""

    def __init__(self, num, den):
        self.num, self.den = num, den


def frac_equal(a, b):
    if not isinstance(a, Frac):
        a = Frac(a, const(Fraction(1)))
    if not isinstance(b, Frac):
        b = Frac(b, const(Fraction(1)))
    return equal(mul(a.num, b.den), mul(b.num, a.den))


def _num(k):
    kv = complex(np.asarray(k))
    return Fraction(kv.real) if kv.imag == 0 else kv


# ------------------------------------------------------------------ jaxpr interpreter
class Interp:
    def __init__(self, sizes, intercept=None, prim_hook=None):
        self.sizes = dict(sizes)              # symbol -> traced extent
        self.intercept = intercept or {}
        self.prim_hook = prim_hook or {}
        self.scan_first_only = False          # True: interpret only the first iteration of a scan (loop-body obligations)
        self.seen = {}

    def run(self, jaxpr, consts, args):
        env = {}

        def read(v):
            if hasattr(v, "val"):
                return np.asarray(v.val)
            return env[v]
        for v, c in zip(jaxpr.constvars, consts):
            env[v] = np.asarray(c)
        for v, a in zip(jaxpr.invars, args):
            env[v] = a
        for e in jaxpr.eqns:
            ins = [read(v) for v in e.invars]
            outs = self.eqn(e, ins)
            if not isinstance(outs, (list, tuple)) or isinstance(outs, Stack):
                outs = [outs]
            for v, o in zip(e.outvars, outs):
                env[v] = o
        return [read(v) for v in jaxpr.outvars]

    def eqn(self, e, ins):
        p, P = e.primitive.name, e.params
        self.seen[p] = self.seen.get(p, 0) + 1
        sym = any(isinstance(x, (TT, Stack, Frac)) for x in ins)
        if p in self.prim_hook:
            r = self.prim_hook[p](self, e, ins)
            if r is not None:
                return r
        if p == "scan":
            consts, carry, xs = [list(t) for t in P["ft_in"].update(ins).unpack()]       # JAX 0.11: flat inputs = consts + carry + xs
            if any(isinstance(x, (TT, Stack, Frac)) for x in xs):
                raise Unsupported("scan over symbolic per-iteration inputs")
            cj = P["jaxpr"]
            L = int(P["length"])
            if self.scan_first_only:
                # obligations about a loop BODY stop the first iteration with a hook
                self.run(cj.jaxpr, cj.consts, consts + carry)
                raise Unsupported("scan body ended without being stopped by the obligation's hook")
            if L > 64:
                raise Unsupported("scan longer than 64 iterations")
            ys_all = []
            order = range(L - 1, -1, -1) if P.get("reverse") else range(L)
            for i in order:
                xi = [np.asarray(x)[i] for x in xs]
                out = self.run(cj.jaxpr, cj.consts, consts + carry + xi)
                carry, ys = [list(t) for t in P["ft_out"].update(out).unpack()]
                ys_all.append(ys)
            if P.get("reverse"):
                ys_all = ys_all[::-1]
            stacked = []
            for k in range(len(ys_all[0]) if ys_all else 0):
                col = [y[k] for y in ys_all]
                stacked.append(Stack(col) if any(isinstance(c, (TT, Stack)) for c in col) else np.stack([np.asarray(c) for c in col]))
            return list(carry) + stacked
        if p in ("jit", "pjit", "closed_call", "core_call", "custom_jvp_call", "custom_vjp_call", "remat", "checkpoint"):
            nm = P.get("name", "")
            if nm in self.intercept:
                r = self.intercept[nm](self, e, ins)
                if r is not None:
                    return r
            cj = P.get("jaxpr") or P.get("call_jaxpr") or P.get("fun_jaxpr")
            return self.run(cj.jaxpr, cj.consts, ins) if hasattr(cj, "jaxpr") else self.run(cj, [], ins)
        if not sym:
            out = e.primitive.bind(*[np.asarray(x) for x in ins], **P)
            return [np.asarray(o) for o in out] if e.primitive.multiple_results else np.asarray(out)
        if p == "transpose":
            return transpose(ins[0], list(P["permutation"]))
        if p == "dot_general":
            return dot_general(ins[0], ins[1], P["dimension_numbers"])
        if p == "reshape":
            return reshape(ins[0], list(P["new_sizes"]), self.sizes)
        if p in ("add", "add_any", "sub") and isinstance(ins[0], Frac) and isinstance(ins[1], Frac):
            if not equal(ins[0].den, ins[1].den):
                raise Unsupported("sum of quotients with different denominators")
            return Frac(add(ins[0].num, ins[1].num, -1 if p == "sub" else 1), ins[0].den)
        if p in ("add", "add_any", "sub"):
            x, y = ins
            sg = -1 if p == "sub" else 1
            if not isinstance(y, (TT, Stack)):
                if np.ndim(y) != 0 or not isinstance(x, TT) or x.axes:
                    raise Unsupported("adding a concrete array to a symbolic tensor")
                return add(x, const(_num(y)), sg)
            if not isinstance(x, (TT, Stack)):
                if np.ndim(x) != 0 or not isinstance(y, TT) or y.axes:
                    raise Unsupported("adding a concrete array to a symbolic tensor")
                return add(const(_num(x)), y, sg)
            return add(x, y, sg)
        if p == "neg":
            return scale(ins[0], -1)
        if p == "reduce_sum":
            return reduce_sum(ins[0], list(P["axes"]))
        if p == "integer_pow" and P["y"] == 2:
            return mul(ins[0], ins[0])
        if p in ("mul", "div"):
            a, b = ins
            if isinstance(a, (TT, Stack)) and isinstance(b, (TT, Stack)):
                if p == "div":
                    if isinstance(a, TT) and isinstance(b, TT) and not b.axes:
                        return Frac(a, b)          # x / scalar: kept as a quotient
                    raise Unsupported("division of two symbolic tensors")
                return mul(a, b)
            t, k = (a, b) if isinstance(a, (TT, Stack)) else (b, a)
            if np.ndim(k) != 0:
                raise Unsupported("scaling by a non-scalar")
            kv = complex(np.asarray(k))
            kv = Fraction(kv.real) if kv.imag == 0 else kv
            if p == "div":
                if t is not a:
                    raise Unsupported("division by a symbolic tensor")
                kv = 1 / kv
            return scale(t, kv)
        if p == "conj":
            return conj(ins[0])
        if p in ("real", "imag"):
            return realpart(ins[0], imag=(p == "imag"))
        if p == "broadcast_in_dim":
            x = ins[0]
            shape, bd = list(P["shape"]), list(P["broadcast_dimensions"])
            if isinstance(x, Stack):
                raise Unsupported("broadcast of a stacked tensor")
            ext2sym = {v: k for k, v in self.sizes.items()}
            new = [d for d in range(len(shape)) if d not in bd]
            if len(x.axes) != len(bd):
                raise Unsupported("broadcast_in_dim rank bookkeeping")
            axes, it_ = [], iter(x.axes)
            lead1 = False
            for d in range(len(shape)):
                if d in bd:
                    axes.append(next(it_))
                elif shape[d] == 1 and d == 0:
                    lead1 = True
                elif shape[d] in ext2sym:
                    axes.append(((fresh(), ext2sym[shape[d]]),))
                else:
                    raise Unsupported(f"broadcast to extent {shape[d]} that is not a size symbol")
            r = TT(axes, x.terms)
            return Stack([r]) if lead1 else r
        if p == "stack":
            if P.get("axis", 0) == 0:
                return Stack(list(ins))
            raise Unsupported("stack along a non-leading axis")
        if p == "concatenate":
            if P["dimension"] == 0 and all(isinstance(x, Stack) for x in ins):
                out = Stack()
                for x in ins:
                    out.extend(x)
                return out
            raise Unsupported("concatenate along a symbolic axis")
        if p in ("convert_element_type", "copy", "copy_p", "stop_gradient", "pvary"):
            return ins[0]
        if p == "slice":
            x = ins[0]
            st, li = list(P["start_indices"]), list(P["limit_indices"])
            if isinstance(x, Stack):
                if P["strides"] not in (None,) and any(s != 1 for s in P["strides"]):
                    raise Unsupported("strided slice")
                sub = x[st[0]:li[0]]
                return Stack(sub)
            if isinstance(x, TT) and all(v == 0 for v in st) and list(li) == list(e.invars[0].aval.shape):
                return x           # full-range slice
            raise Unsupported("slice of a symbolic axis")
        if p == "squeeze":
            x = ins[0]
            if isinstance(x, Stack) and tuple(P["dimensions"]) == (0,) and len(x) == 1:
                return x[0]
            raise Unsupported("squeeze of a symbolic axis")
        if p == "scatter":
            op, idx, upd = ins
            dn = P["dimension_numbers"]
            if isinstance(op, Stack) and not isinstance(idx, (TT, Stack)) and tuple(dn.inserted_window_dims) == (0,) and tuple(dn.scatter_dims_to_operand_dims) == (0,):
                k = int(np.asarray(idx).reshape(-1)[0])
                out = Stack(op)
                out[k] = upd
                return out
            raise Unsupported("scatter pattern not modelled")
        raise Unsupported(f"primitive '{p}' is not modelled in the tensor normal form")

"""Engine B (jxvc): exact interpretation of a jaxpr (traced from the REAL ad_afqmc function objects) over Q(i)(x).

Array values are numpy arrays: concrete dtype for concrete data, dtype=object holding `Fr` for symbolic data.
Rules (DESIGN.md §2.3): arithmetic = field arithmetic; data movement = integer tags pushed through the real JAX
primitive; all-concrete equations = the real primitive; `jit[name=f]` callees may be intercepted by (name, arity);
`lu` at the generic point (no pivoting); `scan` unrolled; `cond` needs a concrete index.
"""
from __future__ import annotations

import string

import numpy as np
import jax
import jax.numpy as jnp
from jax.extend import core as jcore

from ..common import Unsupported
from .field import Fr, NonFin, is_obj, lift_array, det_sym, inv_sym

ARITH = {"add", "add_any", "sub", "mul", "div", "dot_general", "triangular_solve", "lu", "neg", "reduce_sum",
         "integer_pow", "max", "min", "reduce_prod", "cumsum", "cumprod", "exp", "sqrt", "pow", "square", "log", "rsqrt",
         "sign", "real", "imag", "conj", "complex", "abs", "expm1", "log1p", "erf", "cos", "sin", "tanh", "atan2"}


class Unk:
    """three-valued logic: the answer of isnan / isinf on a non-finite value whose exact IEEE form is not tracked"""

    def __init__(self, which, uid):
        self.which, self.uid = which, uid

    def __repr__(self):
        return f"<is{self.which}?#{self.uid}>"


def _nonfin_test(which, x):
    """isnan / isinf / is_finite elementwise on an object array that may contain NonFin values"""
    flat = x.reshape(-1)
    out = np.zeros(len(flat), dtype=object)
    for k, v in enumerate(flat):
        if not isinstance(v, NonFin):
            out[k] = (which == "finite")
            continue
        if v.kind == "bad":
            raise Unsupported("finiteness test of a value that may or may not be finite (x / non-finite)")
        if which == "finite":
            out[k] = False
        elif which == "inf" and v.kind == "inf":
            out[k] = True
        else:
            out[k] = Unk(which, v.uid)
    if not any(isinstance(v, Unk) for v in out):
        out = out.astype(bool)
    return out.reshape(x.shape)


def _or3(a, b):
    if a is True or b is True or (isinstance(a, (bool, np.bool_)) and bool(a)) or (isinstance(b, (bool, np.bool_)) and bool(b)):
        return True
    ua, ub = isinstance(a, Unk), isinstance(b, Unk)
    if ua and ub:
        if a.uid == b.uid and a.which != b.which:
            return True        # isnan(v) | isinf(v) of a value known to be non-finite
        if a.uid == b.uid:
            return a
        raise Unsupported("disjunction of two undetermined isnan/isinf answers")
    return a if ua else (b if ub else False)


def _and3(a, b):
    fa = isinstance(a, (bool, np.bool_)) and not bool(a)
    fb = isinstance(b, (bool, np.bool_)) and not bool(b)
    if fa or fb:
        return False
    ua, ub = isinstance(a, Unk), isinstance(b, Unk)
    if ua and ub:
        raise Unsupported("conjunction of two undetermined isnan/isinf answers")
    return a if ua else (b if ub else True)


def _logic(p, ins, P):
    arrs = [np.asarray(x, dtype=object) for x in ins]
    if p == "not":
        if any(isinstance(v, Unk) for v in arrs[0].reshape(-1)):
            raise Unsupported("negation of an undetermined isnan/isinf answer")
        return ~arrs[0].astype(bool)
    if p in ("or", "and"):
        a, b = np.broadcast_arrays(*arrs)
        f = _or3 if p == "or" else _and3
        out = np.empty(a.shape, dtype=object)
        for idx in np.ndindex(*a.shape):
            out[idx] = f(a[idx], b[idx])
    else:   # reduce_or / reduce_and
        import functools
        f = _or3 if p == "reduce_or" else _and3
        a = arrs[0]
        axes = tuple(P["axes"])
        keep = [i for i in range(a.ndim) if i not in axes]
        am = np.transpose(a, keep + list(axes)).reshape(tuple(a.shape[i] for i in keep) + (-1,))
        out = np.empty(am.shape[:-1], dtype=object)
        for idx in np.ndindex(*out.shape):
            out[idx] = functools.reduce(f, list(am[idx]), p == "reduce_and")
    if not any(isinstance(v, Unk) for v in out.reshape(-1)):
        out = out.astype(bool)
    return out


def batched(f, A, outnd):
    if A.ndim == 2:
        r = f(A)
        if outnd == 0:
            o = np.empty((), dtype=object)
            o[()] = r
            return o
        return r
    lead = A.shape[:-2]
    out = np.empty(lead + ((A.shape[-1], A.shape[-1]) if outnd == 2 else ()), dtype=object)
    for idx in np.ndindex(*lead):
        out[idx] = f(A[idx])
    return out


class Interp:
    def __init__(self, sp, intercept=None, literal_hook=None, series=None, scan_hook=None, prim_hook=None):
        self.sp = sp
        self.count = {}
        self.intercept = dict(intercept or {})
        self.literal_hook = literal_hook      # concrete literal/const array -> symbolic array or None
        self.series = series                  # optional power-series helper (C04/C05)
        self.calls = []                       # names of jit callees seen (for the evidence)
        self.prim_hook = dict(prim_hook or {})   # primitive name -> callable(interp, eqn, ins) -> outputs or None
        self.scan_hook = scan_hook            # optional: callable(interp, eqn, ins) -> outputs or None (loop contracts)

    # ------------------------------------------------------------------ driver
    def run(self, jaxpr, consts, args):
        env = {}

        def read(v):
            if isinstance(v, jcore.Literal):
                return self.conv(v.val)
            return env[v]

        for v, c in zip(jaxpr.constvars, consts):
            env[v] = self.conv(c)
        for v, a in zip(jaxpr.invars, args):
            env[v] = a
        for e in jaxpr.eqns:
            ins = [read(v) for v in e.invars]
            outs = self.eqn(e, ins)
            if not isinstance(outs, (list, tuple)):
                outs = [outs]
            for v, o in zip(e.outvars, outs):
                if hasattr(v, "aval") and hasattr(v.aval, "shape") and tuple(np.shape(o)) != tuple(v.aval.shape):
                    raise Unsupported(f"engine shape check: primitive '{e.primitive.name}' ({e.params.get('name', '')}) produced shape "
                                      f"{np.shape(o)} where JAX expects {tuple(v.aval.shape)}")
                env[v] = o
        return [read(v) for v in jaxpr.outvars]

    def conv(self, c):
        a = np.asarray(c)
        if self.literal_hook is not None and a.dtype.kind in "fc":
            r = self.literal_hook(a)
            if r is not None:
                return r
        return a

    def sym(self, x):
        return lift_array(self.sp, x, force=True)

    # ------------------------------------------------------------------ equations
    def eqn(self, e, ins):
        p = e.primitive.name
        self.count[p] = self.count.get(p, 0) + 1
        P = e.params
        anysym = any(is_obj(x) or isinstance(x, Fr) for x in ins)
        if p in self.prim_hook:
            r = self.prim_hook[p](self, e, ins)
            if r is not None:
                return r
        if p not in ("jit", "pjit", "scan", "cond", "custom_jvp_call", "custom_vjp_call", "custom_linear_solve", "while",
                     "closed_call", "core_call", "remat", "checkpoint", "custom_vjp_call_jaxpr") and ins and not anysym:
            def _in(x, v):
                if isinstance(x, jax.Array) and jax.dtypes.issubdtype(x.dtype, jax.dtypes.prng_key):
                    return x                      # typed PRNG keys stay JAX arrays (they cannot be converted to numpy)
                return jnp.asarray(x, dtype=v.aval.dtype)

            def _out(o):
                if isinstance(o, jax.Array) and jax.dtypes.issubdtype(o.dtype, jax.dtypes.prng_key):
                    return o
                return np.asarray(o)
            out = e.primitive.bind(*[_in(x, v) for x, v in zip(ins, e.invars)], **P)
            return [_out(o) for o in out] if e.primitive.multiple_results else _out(out)
        if p in ARITH and anysym:
            ins = [x if is_obj(x) else self.sym(np.asarray(x)) for x in ins]
        if p in ("jit", "pjit", "closed_call", "core_call"):
            nm = P.get("name", "")
            cj = P.get("jaxpr") or P.get("call_jaxpr")
            self.calls.append(nm)
            h = self.intercept.get(nm)
            if h is not None:
                r = h(self, e, ins)
                if r is not None:
                    return r
            if nm in ("isinf", "isnan", "isposinf", "isneginf") and anysym:
                if nm in ("isinf", "isnan") and len(ins) == 1 and is_obj(ins[0]):
                    return [_nonfin_test(nm[2:], ins[0])]     # generic point: finite unless a division by zero produced it
                return [np.zeros(tuple(v.aval.shape), dtype=bool) for v in e.outvars]   # generic point: no NaN/inf
            if nm in ("inv", "det") and len(ins) == 1 and len(e.outvars) == 1:
                ish, osh = tuple(np.shape(ins[0])), tuple(e.outvars[0].aval.shape)
                # the contract is only applied when the matrix axes are the last two (nested vmaps may put batch axes elsewhere)
                if len(ish) >= 2 and ish[-1] == ish[-2] and osh == (ish if nm == "inv" else ish[:-2]):
                    return [batched(inv_sym if nm == "inv" else det_sym, self.sym(ins[0]), 2 if nm == "inv" else 0)]
                if nm == "det" and len(ish) >= 2:
                    # nested vmaps: find the unique pair of equal-sized axes whose removal gives the output shape
                    pairs = [(a, b) for a in range(len(ish)) for b in range(a + 1, len(ish)) if ish[a] == ish[b]
                             and tuple(d for k, d in enumerate(ish) if k not in (a, b)) == osh]
                    if len(pairs) == 1:
                        a, b = pairs[0]
                        A = np.moveaxis(self.sym(ins[0]), (a, b), (-2, -1))
                        return [batched(det_sym, A, 0)]
            if hasattr(cj, "jaxpr"):
                return self.run(cj.jaxpr, cj.consts, ins)
            return self.run(cj, [], ins)
        if p in ("remat", "checkpoint"):
            cj = P["jaxpr"]
            return self.run(cj, [], ins) if not hasattr(cj, "jaxpr") else self.run(cj.jaxpr, cj.consts, ins)
        if p == "transpose":
            return np.transpose(ins[0], P["permutation"])
        if p == "dot_general":
            return self.dot_general(ins[0], ins[1], P["dimension_numbers"])
        if p in ("add", "add_any"):
            return ins[0] + ins[1]
        if p == "sub":
            return ins[0] - ins[1]
        if p == "mul":
            return ins[0] * ins[1]
        if p == "div":
            return ins[0] / ins[1]
        if p == "neg":
            return -ins[0]
        if p == "square":
            return ins[0] * ins[0]
        if p == "reduce_sum":
            return np.sum(ins[0], axis=tuple(P["axes"]))
        if p == "reduce_prod":
            return np.prod(ins[0], axis=tuple(P["axes"]))
        if p == "broadcast_in_dim":
            x = ins[0]
            shape, bd = P["shape"], P["broadcast_dimensions"]
            x = np.asarray(x, dtype=object) if not isinstance(x, np.ndarray) else x
            newshape = [1] * len(shape)
            for i, d in enumerate(bd):
                newshape[d] = x.shape[i]
            return np.broadcast_to(x.reshape(newshape), shape)
        if p == "reshape":
            return np.reshape(ins[0], P["new_sizes"])
        if p == "squeeze":
            return np.squeeze(ins[0], axis=tuple(P["dimensions"]))
        if p == "expand_dims":
            return np.expand_dims(ins[0], tuple(P["dimensions"]))
        if p == "slice":
            st = P["strides"] or [1] * len(P["start_indices"])
            sl = tuple(slice(a, b, c) for a, b, c in zip(P["start_indices"], P["limit_indices"], st))
            return ins[0][sl]
        if p == "convert_element_type":
            x = ins[0]
            if is_obj(x):
                nd = np.dtype(P["new_dtype"])
                if nd.kind not in "fc":
                    raise Unsupported("symbolic value converted to a non-floating dtype")
                if np.dtype(e.invars[0].aval.dtype).kind == "c" and nd.kind == "f":
                    return self.cplx("real", x)      # complex -> real conversion keeps the real part
                return x
            return x
        if p == "integer_pow":
            y, x = P["y"], ins[0]
            if y < 0:
                one = self.sp.one
                r = x
                for _ in range(-y - 1):
                    r = r * x
                return one / r
            if y == 0:
                return x * 0 + 1
            r = x
            for _ in range(y - 1):
                r = r * x
            return r
        if p in ("copy", "copy_p", "stop_gradient", "reduce_precision", "optimization_barrier", "pvary"):
            return ins[0] if len(ins) == 1 else list(ins)
        if p == "concatenate":
            return np.concatenate([x if is_obj(x) else self.sym(x) for x in ins], axis=P["dimension"])
        if p == "stack":
            return np.stack([x if isinstance(x, np.ndarray) else np.asarray(x, dtype=object) for x in ins], axis=P["axis"])
        if p == "iota":
            n = P["shape"][P["dimension"]]
            base = np.arange(n).reshape([-1 if i == P["dimension"] else 1 for i in range(len(P["shape"]))])
            return (base * np.ones(P["shape"], dtype=int)).astype(np.dtype(P["dtype"]))
        if p == "scan":
            if self.scan_hook is not None:
                r = self.scan_hook(self, e, ins)
                if r is not None:
                    return r
            return self.scan(e, ins)
        if p == "while":
            return self.while_(e, ins)
        if p in ("custom_jvp_call", "custom_vjp_call", "custom_vjp_call_jaxpr"):
            cj = P.get("call_jaxpr") or P.get("fun_jaxpr")
            return self.run(cj.jaxpr, cj.consts, ins)
        if p == "lu":
            return self.lu(ins[0])
        if p == "triangular_solve":
            return self.trisolve(ins[0], ins[1], P)
        if p == "custom_linear_solve":
            cj = P["jaxprs"].solve
            return self.run(cj.jaxpr, cj.consts, self._cls_args(P, ins, "solve"))
        if p == "cond":
            idx = ins[0]
            if is_obj(idx):
                raise Unsupported("cond on a symbolic predicate")
            br = P["branches"][int(np.asarray(idx))]
            return self.run(br.jaxpr, br.consts, ins[1:])
        if p == "platform_index":
            return np.asarray(e.primitive.bind(**P))
        if p in ("real", "imag", "conj"):
            return self.cplx(p, ins[0])
        if p == "complex":
            re, im = ins
            I = self.sp.const(1j)
            return re + im * I
        if p in ("scatter_mul", "scatter-mul", "scatter-add", "scatter_add"):
            return self.scatter_arith(e, ins)
        if p == "cumprod" or p == "cumsum":
            return self.cum(p, ins[0], P)
        if p in ("ne", "eq") and anysym:
            a_, b_ = [x if is_obj(x) else self.sym(np.asarray(x)) for x in ins]
            a_, b_ = np.broadcast_arrays(a_, b_)
            if p == "ne" and any(isinstance(v, NonFin) for v in a_.reshape(-1)) and all(x is y for x, y in zip(a_.reshape(-1), b_.reshape(-1))):
                return _nonfin_test("nan", a_)        # x != x is the inlined isnan
            r = np.empty(a_.shape, dtype=bool)
            for idx in np.ndindex(*a_.shape):
                r[idx] = (a_[idx] - b_[idx]).iszero()
            return r if p == "eq" else ~r
        if p == "is_finite":
            if is_obj(ins[0]):
                return _nonfin_test("finite", ins[0])
            return np.ones(np.shape(ins[0]), dtype=bool)   # generic point: no NaN/inf
        if p in ("or", "and", "not", "reduce_or", "reduce_and") and anysym:
            return _logic(p, ins, P)
        if p == "select_n":
            pred = ins[0]
            if is_obj(pred):
                if all(isinstance(v, (bool, np.bool_)) for v in pred.reshape(-1)):
                    pred = pred.astype(bool)
                elif any(isinstance(v, Unk) for v in pred.reshape(-1)):
                    raise Unsupported("select_n on an undetermined isnan/isinf answer")
                else:
                    raise Unsupported("select_n on a symbolic predicate")
            cases = [np.broadcast_to(x if is_obj(x) else self.sym(x), np.shape(pred)) if np.ndim(pred) else x for x in ins[1:]]
            if np.ndim(pred) == 0:
                return cases[int(pred)]
            out = np.empty(np.shape(pred), dtype=object)
            pi = np.asarray(pred).astype(int)
            for idx in np.ndindex(*out.shape):
                out[idx] = cases[pi[idx]][idx]
            return out
        if p in ("exp", "sqrt", "log", "pow", "rsqrt", "cos", "sin", "abs", "sign", "erf", "tanh", "expm1", "log1p", "atan2",
                 "lt", "gt", "le", "ge", "max", "min", "argmax", "argmin", "sort", "floor", "ceil", "round"):
            if self.series is not None:
                r = self.series.primitive(self, p, e, ins)
                if r is not None:
                    return r
            raise Unsupported(f"primitive '{p}' on symbolic operands (not a field operation)")
        if p in ("gather", "scatter", "dynamic_slice", "dynamic_update_slice", "pad", "rev", "split", "clamp", "tile"):
            return self.movement(e, ins)
        raise Unsupported(f"primitive '{p}' is not modelled")

    # ------------------------------------------------------------------ helpers
    def dot_general(self, a, b, dn):
        (lc, rc), (lb, rb) = dn
        if not lb and not rb:
            return np.tensordot(a, b, axes=(list(lc), list(rc)))
        L = iter(string.ascii_letters)
        la, lbb = [None] * a.ndim, [None] * b.ndim
        for x, y in zip(lb, rb):
            c = next(L); la[x] = c; lbb[y] = c
        for x, y in zip(lc, rc):
            c = next(L); la[x] = c; lbb[y] = c
        for i in range(a.ndim):
            if la[i] is None:
                la[i] = next(L)
        for i in range(b.ndim):
            if lbb[i] is None:
                lbb[i] = next(L)
        out = [la[x] for x in lb] + [la[i] for i in range(a.ndim) if i not in lb and i not in lc] + \
              [lbb[i] for i in range(b.ndim) if i not in rb and i not in rc]
        return np.einsum("".join(la) + "," + "".join(lbb) + "->" + "".join(out), a, b)

    def scan(self, e, ins):
        P = e.params
        L, cj = P["length"], P["jaxpr"]
        consts, carry, xs = [list(t) for t in P["ft_in"].update(ins).unpack()]
        rng = range(L - 1, -1, -1) if P["reverse"] else range(L)
        outs_y = []
        for i in rng:
            xi = [x[i] for x in xs]
            out = self.run(cj.jaxpr, cj.consts, list(consts) + list(carry) + xi)
            carry, y = [list(t) for t in P["ft_out"].update(out).unpack()]
            outs_y.append(y)
        if P["reverse"]:
            outs_y = outs_y[::-1]
        ys = []
        nys = len(outs_y[0]) if outs_y else 0
        for k in range(nys):
            items = [o[k] if isinstance(o[k], np.ndarray) else np.asarray(o[k], dtype=object) for o in outs_y]
            if any(is_obj(t) for t in items):
                items = [t if is_obj(t) else self.sym(t) for t in items]
            ys.append(np.stack(items, axis=0))
        return list(carry) + ys

    def while_(self, e, ins):
        P = e.params
        cn, bn = P["cond_nconsts"], P["body_nconsts"]
        cc, bc, carry = ins[:cn], ins[cn:cn + bn], list(ins[cn + bn:])
        for _ in range(10000):
            c = self.run(P["cond_jaxpr"].jaxpr, P["cond_jaxpr"].consts, list(cc) + carry)[0]
            if is_obj(c):
                raise Unsupported("while on symbolic predicate")
            if not bool(c):
                return carry
            carry = self.run(P["body_jaxpr"].jaxpr, P["body_jaxpr"].consts, list(bc) + carry)
        raise Unsupported("while did not terminate")

    def lu(self, A):
        if A.ndim > 2:
            outs = [self.lu(A[i]) for i in range(A.shape[0])]
            return [np.stack([o[k] for o in outs]) for k in range(3)]
        n = A.shape[0]
        A = self.sym(A).copy()
        pivots = np.arange(n, dtype=np.int32)
        perm = np.arange(n, dtype=np.int32)
        for k in range(n):
            # structural pivoting: the first entry of the column that is not identically zero (any valid P A = L U serves: the
            # callers' results are rational functions that do not depend on the pivot choice); a column that is identically
            # zero below the diagonal is skipped as LAPACK getrf does (singular input, e.g. det's cofactor JVP)
            r = next((i for i in range(k, n) if not A[i, k].iszero()), None)
            if r is None:
                continue
            if r != k:
                A[[k, r], :] = A[[r, k], :]
                perm[[k, r]] = perm[[r, k]]
            pivots[k] = r
            piv = A[k, k]
            for i in range(k + 1, n):
                A[i, k] = A[i, k] / piv
                for j in range(k + 1, n):
                    A[i, j] = A[i, j] - A[i, k] * A[k, j]
        return [A, pivots, perm]

    def trisolve(self, a, b, P):
        if not P["left_side"]:
            # x a = b  <=>  a^T x^T = b^T
            P2 = dict(P, left_side=True, transpose_a=P["transpose_a"])
            x = self.trisolve(np.swapaxes(a, -1, -2), np.swapaxes(b, -1, -2), dict(P2, lower=not P["lower"]))
            return np.swapaxes(x, -1, -2)
        if a.ndim > 2:
            return np.stack([self.trisolve(a[i], b[i], P) for i in range(a.shape[0])])
        lower, unit = P["lower"], P["unit_diagonal"]
        ta = P["transpose_a"]
        if str(ta) not in ("Transpose.NONE", "0", "False"):
            a = a.T
            lower = not lower
            if "ADJOINT" in str(ta):
                a = self.cplx("conj", a)
        n = a.shape[0]
        x = np.empty(b.shape, dtype=object)
        order = range(n) if lower else range(n - 1, -1, -1)
        for c in range(b.shape[1]):
            for i in order:
                acc = b[i, c]
                js = range(i) if lower else range(i + 1, n)
                for j in js:
                    acc = acc - a[i, j] * x[j, c]
                x[i, c] = acc if unit else acc / a[i, i]
        return x

    def cplx(self, p, x):
        x = x if is_obj(x) else self.sym(x)
        flat = x.reshape(-1)
        half, mhi = self.sp.const(Fraction_half()), self.sp.const((0, -Fraction_half()))
        out = np.empty(len(flat), dtype=object)
        for k, v in enumerate(flat):
            if isinstance(v, NonFin):
                out[k] = v.conj() if p == "conj" else NonFin("bad")
                continue
            c = v.conj()
            out[k] = c if p == "conj" else ((v + c) * half if p == "real" else (v - c) * mhi)
        return out.reshape(np.shape(x))

    def cum(self, p, x, P):
        ax = P["axis"]
        out = x.copy()
        xm = np.moveaxis(out, ax, 0)
        rev = P["reverse"]
        rng = range(1, xm.shape[0]) if not rev else range(xm.shape[0] - 2, -1, -1)
        for i in rng:
            prev = i - 1 if not rev else i + 1
            for idx in np.ndindex(*xm.shape[1:]):
                xm[(i,) + idx] = xm[(i,) + idx] * xm[(prev,) + idx] if p == "cumprod" else xm[(i,) + idx] + xm[(prev,) + idx]
        return np.moveaxis(xm, 0, ax)

    def scatter_arith(self, e, ins):
        op, idx, upd = ins
        p = e.primitive.name
        if is_obj(idx):
            raise Unsupported("symbolic scatter indices")
        op, upd = self.sym(op), self.sym(upd)
        out = op.copy().reshape(-1)
        uf = upd.reshape(-1)
        dt = e.invars[0].aval.dtype
        ismul = "mul" in p
        base, probe = (1.0, 2.0) if ismul else (0.0, 1.0)
        for j_ in range(uf.size):
            u = np.full(uf.size, base)
            u[j_] = probe
            res = np.asarray(e.primitive.bind(jnp.full(op.shape, base, dtype=dt), jnp.asarray(idx, dtype=e.invars[1].aval.dtype),
                                              jnp.asarray(u.reshape(upd.shape), dtype=dt), **e.params))
            for k in np.nonzero(res.reshape(-1) != base)[0]:
                out[k] = out[k] * uf[j_] if ismul else out[k] + uf[j_]
        return out.reshape(op.shape)

    def movement(self, e, ins):
        """data-movement primitives: push integer tags through the REAL JAX primitive."""
        objs, tagged = [], []
        if any(is_obj(x) for x in ins):
            ins = [self.sym(x) if (hasattr(v, "aval") and np.dtype(v.aval.dtype).kind in "fc" and not is_obj(x)) else x
                   for x, v in zip(ins, e.invars)]
        for x, v in zip(ins, e.invars):
            if is_obj(x):
                base = len(objs) + 1
                objs.extend(x.reshape(-1).tolist())
                tagged.append(jnp.asarray(np.arange(base, base + x.size, dtype=np.int64).reshape(x.shape)))
            else:
                tagged.append(jnp.asarray(x, dtype=v.aval.dtype))
        out = e.primitive.bind(*tagged, **e.params)
        outs = out if e.primitive.multiple_results else [out]
        if not objs:
            return [np.asarray(o) for o in outs] if e.primitive.multiple_results else np.asarray(out)
        res = []
        zero = self.sp.zero
        for o in outs:
            o = np.asarray(o)
            r = np.empty(o.shape, dtype=object)
            rf = r.reshape(-1)
            for k, t in enumerate(o.reshape(-1).tolist()):
                rf[k] = objs[t - 1] if t > 0 else zero
            res.append(rf.reshape(o.shape))
        return res if e.primitive.multiple_results else res[0]

    def _cls_args(self, P, ins, which):
        cs = P["const_lengths"]
        n_mv, n_vm, n_s, n_ts = cs.matvec, cs.vecmat, cs.solve, cs.transpose_solve
        off = {"matvec": 0, "vecmat": n_mv, "solve": n_mv + n_vm, "transpose_solve": n_mv + n_vm + n_s}[which]
        ln = {"matvec": n_mv, "vecmat": n_vm, "solve": n_s, "transpose_solve": n_ts}[which]
        b = ins[n_mv + n_vm + n_s + n_ts:]
        return list(ins[off:off + ln]) + list(b)


def Fraction_half():
    from fractions import Fraction
    return Fraction(1, 2)


# ---------------------------------------------------------------------- tracing front end
def trace(fn, *example_args, **kw):
    """jax.make_jaxpr of the real function at example (shape-giving) arguments; returns ClosedJaxpr and out tree."""
    closed, out_shape = jax.make_jaxpr(fn, return_shape=True, **kw)(*example_args)
    return closed, out_shape


def evaluate(sp, fn, sym_args, example_args, intercept=None, literal_hook=None, series=None, scan_hook=None, prim_hook=None):
    """Trace fn at example_args (pytrees of concrete arrays giving shapes/dtypes) and interpret the jaxpr with the
    leaves replaced by sym_args (same pytree structure; leaves: object arrays or concrete arrays).
    Returns (pytree of results, interpreter)."""
    closed, out_shape = jax.make_jaxpr(fn, return_shape=True)(*example_args)
    flat_sym, tree = jax.tree_util.tree_flatten(sym_args, is_leaf=lambda x: isinstance(x, np.ndarray))
    flat_ex, tree_ex = jax.tree_util.tree_flatten(example_args)
    if len(flat_sym) != len(flat_ex) or len(flat_sym) != len(closed.jaxpr.invars):
        raise Unsupported(f"argument pytrees differ: {len(flat_sym)} symbolic leaves, {len(flat_ex)} example leaves, "
                          f"{len(closed.jaxpr.invars)} jaxpr inputs")
    for s, x in zip(flat_sym, flat_ex):
        if tuple(np.shape(s)) != tuple(np.shape(x)):
            raise Unsupported(f"shape mismatch between symbolic {np.shape(s)} and example {np.shape(x)} argument")
    it = Interp(sp, intercept=intercept, literal_hook=literal_hook, series=series, scan_hook=scan_hook, prim_hook=prim_hook)
    outs = it.run(closed.jaxpr, closed.consts, flat_sym)
    out_tree = jax.tree_util.tree_structure(out_shape)
    return jax.tree_util.tree_unflatten(out_tree, outs), it

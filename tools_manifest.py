#!/usr/bin/env python3
"""Regenerates MANIFEST.json from props/*.py metadata (keeps it valid at all times)."""
import importlib, json, os, sys
_V = os.path.join(os.path.dirname(os.path.abspath(__file__)), ".venv", "bin", "python")
if os.path.exists(_V) and os.path.realpath(sys.executable) != os.path.realpath(_V) and not os.environ.get("_TM_REEXEC"):
    os.environ["_TM_REEXEC"] = "1"
    os.execv(_V, [_V] + sys.argv)        # the props modules import z3 / jax: always run under the check's own interpreter
sys.path.insert(0, os.path.dirname(os.path.abspath(__file__)))
ALL = [f"C{i:02d}" for i in range(1, 21)]
NA = {}
checks, na = [], []
for pid in ALL:
    if os.path.exists(os.path.join(os.path.dirname(os.path.abspath(__file__)), "props", pid + ".py")):
        pm = importlib.import_module(f"props.{pid}")        # an import error of an existing check must not silently turn it into 'not applicable'
    else:
        pm = None
    if pm is None or getattr(pm, "NOT_APPLICABLE", None):
        reason = getattr(pm, "NOT_APPLICABLE", None) or NA_REASON.get(pid) if False else (getattr(pm, "NOT_APPLICABLE", None) if pm else None)
        na.append(dict(property_id=pid, reason=reason or json.load(open("not_applicable.json")).get(pid, "check not built yet (see DESIGN.md section 6)")))
        continue
    checks.append(dict(
        property_id=pid, quick_cmd=f"./check {pid} --tier quick", thorough_cmd=f"./check {pid} --tier thorough",
        evidence_file=f"evidence/{pid}.json", replay_cmd_template="cat {path}",
        engine=pm.ENGINE if hasattr(pm, "ENGINE") else "pyvc",
        level_claimed=dict(category=pm.LEVEL, text=pm.LEVEL_TEXT, design_ref=pm.DESIGN_REF),
        level_note=pm.LEVEL_NOTE, technique=pm.TECHNIQUE))
man = dict(
    version=1, setup_cmd="./bootstrap.sh",
    hooks=dict(guard="ANKIT76_AD_AFQMC_VERIF", enable="export ANKIT76_AD_AFQMC_VERIF=1 (set by ./check). No hook exists in /repo: source_commits is empty and nothing in the repository reads the guard",
               baseline_off_cmd="cd /repo && env -u ANKIT76_AD_AFQMC_VERIF /venv/bin/python -m pytest -ra -q -p no:cacheprovider --timeout=900 --continue-on-collection-errors",
               source_commits=json.load(open("hooks.json"))["source_commits"], add_only=True),
    engines=[dict(name="pyvc", path="vc/pyvc", serves_properties=[c["property_id"] for c in checks if "pyvc" in c["engine"]],
                  kind_free_text="Engine A: python ast of the real source -> symbolic execution (decision replay) -> z3/cvc5 verification conditions, sidecar contracts in contracts/"),
             dict(name="jxvc", path="vc/jxvc", serves_properties=[c["property_id"] for c in checks if "jxvc" in c["engine"]],
                  kind_free_text="Engine B: jax.make_jaxpr of the real functions -> exact arithmetic over Q(i)(x) -> ring identities against Fock-space spec functions"),
             dict(name="symx", path="vc/symx.py", serves_properties=[c["property_id"] for c in checks if "symx" in c["engine"]],
                  kind_free_text="Engine C: the real NumPy function's code object executed path-wise by CPython over symbolic reals (object arrays of z3 terms, decision replay) -> z3 nonlinear-real verification conditions per path")],
    checks=checks, not_applicable=na,
    notes="Contract-based deductive verification; see DESIGN.md. Exit codes: 0 held, 1 violation, 2 undecided, 3 checker crash.")
json.dump(man, open("MANIFEST.json", "w"), indent=1)
print("MANIFEST.json:", len(checks), "checks,", len(na), "not applicable")

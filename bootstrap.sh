#!/bin/sh
# Builds /verif/.venv offline: python 3.12 (from /venv) + wheels from the wheelhouse,
# with a .pth that makes /venv's site-packages (jax, numpy, scipy, pyscf, mpi4py) importable.
set -e
cd "$(dirname "$0")"
V=.venv
if [ -x $V/bin/python ] && $V/bin/python -c "import sympy, z3, jsonschema, jax" 2>/dev/null; then
  echo "bootstrap: .venv ok"; exit 0
fi
rm -rf $V
/venv/bin/python -m venv $V
PIP_NO_INDEX=1 $V/bin/pip install -q --no-index --find-links /opt/veriftools/wheels sympy z3-solver cvc5 jsonschema
SP=$($V/bin/python -c "import sysconfig; print(sysconfig.get_paths()['purelib'])")
echo "import site; site.addsitedir('/venv/lib/python3.12/site-packages')" > "$SP/zz_repo.pth"
$V/bin/python -c "import sympy, z3, jsonschema, jax, numpy; print('bootstrap: built', sympy.__version__, z3.get_version_string(), jax.__version__)"

TRUSTED = ["jax.make_jaxpr as a faithful extraction of what XLA runs (the traced objects are the real bound methods imported from REPO)",
           "exact sparse polynomial arithmetic of sympy.polys.rings over QQ<I> (mitigated: every traced function is cross-checked against its JAX float64 run at a rational point on every run)",
           "assumed algebraic contracts of library callees: jnp.linalg.det = Leibniz polynomial, inv = adjugate/det; lu at the generic point (no pivoting), triangular_solve, custom_linear_solve = its solve jaxpr",
           "data-movement primitives are executed by the REAL JAX primitive on integer tags",
           "generic-point rule: isinf/isnan false on symbolic field elements; identities of rational functions hold wherever both sides are defined",
           "Wirtinger pairs for complex trial parameters (z, conj z independent); walker symbols are holomorphic (conjugating one is Unsupported)",
           "mathematics used to compose lemmas: linearity of <psi|H|phi> in Wick terms; generalised Wick theorem beyond the enumerated shapes; Thouless rotation of an orthogonal orbital basis"]
DROPPED = ["floating-point rounding (float64/complex128 exact; astype(complex64/float32) casts in cisd/ucisd are identities)",
           "NaN/inf special values", "XLA fusion/scheduling/sharding, jit/checkpoint/stop_gradient boundaries (identity)",
           "the data-dependent pivot choice inside lu", "shape generality: each obligation is decided at enumerated shapes (SHAPE-BOUNDED), for ALL values"]
ASSUME = ["h1 symmetric per spin, every Cholesky matrix symmetric, ci2 symmetric (restricted CISD) / antisymmetric same-spin (UCISD, GCISD): imposed by construction a + a^T etc. from free symbols",
          "UCISD/ucisd mo_coeff[1] and GCISD mo_coeff: exact rational orthogonal matrices (products of Pythagorean Givens rotations) and identity; plus the symbolic reduction lemma ov.mob",
          "RHF, restricted CISD kinds: spin-independent h1 (the statement lists them as such); restricted entry points see the average",
          "symbol domains of the trial parameters: rhf / uhf / ghf orbitals are COMPLEX (Wirtinger pairs, bra = conjugated coefficients); NOCI determinants and coefficients are REAL (the class documents them as such), "
          "multi-Slater coefficients and CI amplitudes (ci1, ci2) are REAL symbols - the code multiplies them unconjugated (they are coefficients of the bra) and casts some to float32; "
          "ghf_cpmc / uhf_cpmc trials are real (constrained path)"]

"""C08 – cached overlaps are coherent with the walkers whenever a step reads them."""
PROP, LEVEL, ENGINE = "C08", "proof", "pyvc"
DESIGN_REF = "DESIGN.md section 3 C08 and Appendix A"
TECHNIQUE = ("deductive: typestate (ghost version) analysis of the real sampler/propagator/driver ASTs with per-function contracts; "
             "scan bodies proved as inductive steps, entry points analysed from an arbitrary (incoherent) state. "
             "Plus, for the free-projection path, the traced propagate_free over Q(i)(x) with qr under its contract (kind bounded, shape-bounded): C08.free.*")
EXPLANATION = ("Ghost state on prop_data: the structural walker value and the (walkers, wave_data) pair the cached overlaps were computed from. "
               "Obligations: every step function (propagate, propagate_one_body, CPMC site-scan bodies) is entered with a coherent cache, every "
               "arithmetic read of the cache inside a step sees the value of the last coherent point, every step returns a coherent state "
               "(inductive step => any number of steps/blocks), every sampler entry point establishes coherence before its first read WITHOUT "
               "assuming it (=> any driver history: QR, local/global SR, pickling, AD vs plain), and the drivers reach step functions only through "
               "those entry points. All sampler entry points x {restricted, unrestricted} propagators, all CPMC propagators (fast ones through the "
               "C10 ratio contract). No bound on the number of steps, blocks or driver iterations.")
LEVEL_TEXT = EXPLANATION
LEVEL_NOTE = ("Abstract interpretation rules are lemmas (DESIGN.md App. A): walker-modifying calls produce fresh values; trial.calc_overlap(w, d) yields a value "
              "tagged (w, d); jnp.where selections are tracked per mask; `ratios * overlaps` keeps coherence under the C10 contract (assumed here, checked in C10); "
              ".real on CPMC walkers is the identity (walkers real-valued). 'cached = recomputed' is version equality: determinism of calc_overlap assumed. "
              "The second sentence of the property (block composition = explicit step replay) is the corollary, not separately checked. "
              "C08.free.* (free-projection path, kind bounded, engine B): cached overlap = overlap(stored walkers) x accumulated QR norms of BOTH spin blocks, at an open-shell shape.")
TRUSTED_BASE = ["python ast", "typestate transfer rules of DESIGN.md Appendix A", "class table / method resolution of vc/front.py", "C10 contracts for the incremental CPMC overlap update"]
ASSUMPTIONS = ["calc_overlap is a deterministic function of (walkers, wave_data)", "CPMC walkers are real-valued", "lax.scan(f, init, xs) iterates f; checkpoint(f) = f"]
DROPPED = ["all arithmetic (only data flow of walkers / overlaps / wave_data is tracked)", "jit decorators"]


def tasks(tier):
    T = "contracts.typestate"
    from contracts import typestate as TS
    t = []
    for e in TS.ENTRY_POINTS:
        for p in TS.PHASELESS_PROPS:
            t.append((T, "entry_point", dict(entry=e, prop_cls=p)))
    for p in ("propagator_cpmc", "propagator_cpmc_slow", "propagator_cpmc_nn", "propagator_cpmc_nn_slow"):
        t.append((T, "entry_point", dict(entry="propagate_phaseless", prop_cls=p)))
    for p in TS.PHASELESS_PROPS + TS.CPMC_PROPS:
        for m in ("propagate", "propagate_one_body"):
            t.append((T, "step_function", dict(prop_cls=p, meth=m)))
    t += [(T, "driver", {}), (T, "canary", {})]
    t.append(("contracts.series", "free_coherence", dict(norb=3, nu=2, nd=1)))       # free-projection path: overlaps = overlap(Q) x accumulated norms (engine B, bounded)
    return t


def post(obs, tier, rep):
    """native replay of refuted obligations: a driver-like history with a monitored propagate()"""
    from contracts import native
    done = {}
    for o in obs:
        if o["status"] != "refuted" or o["kind"] == "canary" or ".free." in o["name"]:
            continue        # C08.free.* carry their own native replay (free_projection_deviation)
        parts = o["name"].split(".")
        entry = next((p for p in parts if p.startswith("propagate_phaseless")), "propagate_phaseless")
        restricted = "propagator_unrestricted" not in parts and not any("cpmc" in p for p in parts)
        key = (entry, restricted)
        if key not in done:
            try:
                rec = native.coherence_history(entry, restricted=restricted)
                done[key] = (max(rec) if rec else 0.0, len(rec))
            except Exception as e:   # noqa
                done[key] = (None, repr(e)[:200])
        dev, n = done[key]
        o["replayed"] = bool(dev is not None and dev > 1e-9)
        o["witness"] = dict(o.get("witness") or {}, native=dict(history=f"{entry}; QR; global SR (serial stub); {entry}", restricted_walkers=restricted,
                                                                max_relative_incoherence_at_propagate_entry=dev, propagate_calls=n))
    return obs

"""C10 – CPMC step samples the discrete Hubbard-Stratonovich propagator without bias."""
from props._wf_common import TRUSTED, DROPPED

PROP, LEVEL, ENGINE = "C10", "other", "jxvc"
DESIGN_REF = "DESIGN.md section 3 C10"
TECHNIQUE = ("deductive, value-universal/shape-bounded: Woodbury-form contracts of the incremental overlap-ratio / Green's-function updates for every ordered pair "
             "of spin-orbitals with the Green's function a matrix of free symbols; bridge lemma to from-scratch quantities; HS-constant relations by computer algebra; "
             "per-iteration loop contracts of the site-scan bodies")
EXPLANATION = ("nearest-neighbour variant: cpmc.site.*[...,nn-fast|nn-slow] and cpmc.bond.*: the on-site and the neighbour-bond loop bodies of propagator_cpmc_nn and propagator_cpmc_nn_slow satisfy the SAME per-step contract (walkers scaled by the chosen constants, overlaps / Green's functions of the scaled walkers, weights times [O(D_0 phi)+O(D_1 phi)]/(2 O(phi)), acceptance probability O(D_0 phi)/(O(D_0 phi)+O(D_1 phi))) for the four sub-steps of a bond, hence fast == slow; in the fast body the Green's-function update is a callee under its own contract (cpmc.update / woodbury) applied after checking its arguments (bond.update_args). cpmc.ratio/update: for EVERY ordered pair of spin-orbitals (same spin i!=j, opposite spin any i,j) and symbolic update constants, the real "
               "calc_overlap_ratio / update_greens_function of uhf_cpmc and ghf_cpmc equal det(I+G Delta) and ((I+Delta)(I+G Delta)^-1 G)^T as rational identities for an "
               "ARBITRARY matrix G (all values; shapes norb<=3). cpmc.woodbury: at G = calc_full_green(phi) these are the overlap ratio and Green's function of the row-scaled "
               "walker (identity in trial, walker, constants). cpmc.hs: the constants built by init_prop_data satisfy a+b=2, ab=exp(-dt U) (sympy on the real statements), hence "
               "1/2(a^nu b^nd + b^nu a^nd) = exp(-dt U nu nd). cpmc.site.*: the real site-scan bodies extracted from the traced propagate satisfy their loop contract for both "
               "field values (no constraint active). Shape-bounded => level 'other'.")
LEVEL_TEXT = EXPLANATION
LEVEL_NOTE = ("N/D: the 2^n-configuration sum is the composition (telescoping product of the per-site contracts with the one-body halves) stated in DESIGN.md, not re-derived by the machine; "
              "the nearest-neighbour variant is decided per loop body (on-site and bond bodies of the fast and the slow propagator satisfy the same contract, neighbour constants as exact "
              "rationals, one bond of a 2- or 3-site lattice), not as a comparison over seeds; the tail of propagator_cpmc_nn_slow / _slow (overlap-ratio reweighting inlined) is not analysed. "
              "Constraint tests (<1e-8, >100) are assumed inactive in the body contracts; that each test guards the ratio it tested is cpmc.site.constraint / bond.constraint.")
TRUSTED_BASE = TRUSTED + ["sympy simplification of exp/acosh expressions (HS constants)"]
ASSUMPTIONS = ["no constraint active (ratios >= 1e-8, weights <= 100) - path condition of the site contracts", "real-valued walkers and trials for CPMC"]


def tasks(tier):
    C = "contracts.cpmc"
    t = []
    for kind in ("uhf_cpmc", "ghf_cpmc"):
        t.append((C, "update", dict(kind=kind, norb=2)))
        t.append((C, "update", dict(kind=kind, norb=3)))
        t.append((C, "woodbury", dict(kind=kind, norb=2, nu=1, nd=1)))
    t.append((C, "woodbury", dict(kind="uhf_cpmc", norb=3, nu=2, nd=1)))
    if tier == "thorough":
        t.append((C, "woodbury", dict(kind="uhf_cpmc", norb=3, nu=1, nd=1)))
        t.append((C, "update", dict(kind="uhf_cpmc", norb=4)))
        t.append((C, "site_body", dict(kind="uhf_cpmc", fast=True, norb=3)))
    t += [(C, "hs_constants", {}), (C, "canary", {}), (C, "kinetic", dict(cls_name="propagator_cpmc")), (C, "kinetic", dict(cls_name="propagator_cpmc_slow"))]
    for fast in (True, False):
        for kind in ("uhf_cpmc", "ghf_cpmc"):
            t.append((C, "site_body", dict(kind=kind, fast=fast)))
    # nearest-neighbour variant: its on-site loop body, its neighbour-bond loop body (four sub-steps per bond) for fast and slow, both trial kinds
    for kind in ("uhf_cpmc", "ghf_cpmc"):
        for fast in (True, False):
            t.append((C, "site_body", dict(kind=kind, fast=fast, nn=True)))
            for bits in ([1, 1, 1, 1], [0, 0, 0, 0], [1, 0, 0, 1]) if kind == "uhf_cpmc" else ([0, 1, 0, 1], [1, 1, 0, 0]):
                t.append((C, "bond_body", dict(kind=kind, fast=fast, bits=bits)))
        if kind == "uhf_cpmc" or tier == "thorough":        # the 3-site ghf body takes minutes: thorough tier only
            t.append((C, "bond_body", dict(kind=kind, fast=True, bits=[1, 0, 1, 0], norb=3, bond=[2, 1])))
    t.append((C, "tail", dict(cls_name="propagator_cpmc_nn", kind="uhf_cpmc")))
    # what follows the site loop: weights *= exp(dt * E_shift) with E_shift = pop_control_ene_shift, cap, population-control update
    t.append((C, "tail", dict(cls_name="propagator_cpmc", kind="uhf_cpmc")))
    t.append((C, "tail", dict(cls_name="propagator_cpmc", kind="ghf_cpmc")))
    return t


def post(obs, tier, rep):
    from contracts import cpmc
    for o in obs:
        if o["status"] == "refuted" and o["kind"] != "canary" and ".bond." in o["name"]:
            try:
                cpmc.replay_bond(o)
            except Exception as e:   # noqa
                o["witness"] = dict(native_error=repr(e)[:300])
        if o["status"] == "refuted" and o["kind"] != "canary" and ".site." in o["name"]:
            try:
                cpmc.replay_site(o)
            except Exception as e:   # noqa
                o["witness"] = dict(native_error=repr(e)[:300])
    return obs

"""C20 – lattices are consistent graphs that survive construction and pytree round trips."""
from vc import front
from contracts import lattices as L

PROP, LEVEL = "C20", "proof"
EXPLANATION = ("Engine A: the real __post_init__/get_site_num/get_nearest_neighbors/create_adjacency_matrix/"
               "tree_flatten/tree_unflatten/__hash__ bodies are symbolically executed with symbolic side lengths; "
               "each clause of the property is a z3 (LIA+div/mod, quantifiers for store families) obligation "
               "valid for ALL side lengths >= the stated minimum and ALL sites.")
TRUSTED_BASE = ["python ast", "z3 4.x/5.x (NIA div/mod, MBQI)", "cvc5 for z3 unknowns",
                "dataclass constructor model (positional binding in field order, defaults, __post_init__)",
                "jnp.array(list of tuples) iterates/indexes like the list", "jit/partial(jit) = identity on semantics",
                "numpy h[i, array([k])] = 1 stores the single element (i,k)",
                "loop summarisation rules (ii) comprehension, (iii) monotone constant store, (v) opaque deterministic region",
                "counting lemma: c pairwise distinct neighbour sites that are exactly the 1-entries of a row => degree c"]
ASSUMPTIONS = ["Python ints are mathematical integers; // and % are floor-div / non-negative remainder (divisor > 0 is a generated side obligation)",
               "the property's quantifier ranges over side lengths and the open-boundary flag; other constructor fields keep their defaults",
               "shell_distances / bond_shell_distances (set/sort code) are abstracted as deterministic functions of the side lengths"]
DROPPED = ["decorators jit/partial(jit)/register_pytree_node_class (identity)", "methods not named by the property (phonon/bond helpers)"]


def tasks(tier):
    t = []
    for c in L.KINDS:
        for f in ("ctor", "bij", "nbr", "adj", "tree", "canary"):
            t.append(("contracts.lattices", f, {"cls": c}))
    return t


def functions():
    qs = []
    for c in L.KINDS:
        qs += L.functions_of(c)
    return front.shas(qs)


def post(obs, tier, rep):
    for o in obs:
        if o["status"] == "refuted" and o["kind"] != "canary":
            L.replay(o)
    return obs

ENGINE = "pyvc"
DESIGN_REF = "DESIGN.md section 3 C20"
TECHNIQUE = "deductive: symbolic execution of the real lattice methods (python ast) to z3 LIA/NIA verification conditions with sidecar contracts, all side lengths"
LEVEL_TEXT = ("Every clause of the property (constructor safety, site list/numbering bijection, neighbour symmetry/irreflexivity, adjacency "
              "symmetric/zero diagonal/degree, pytree and hash round trip) is a z3-discharged verification condition generated from the current "
              "source for ALL side lengths >= the stated minimum and ALL sites; no bound. Tests only sample a few sizes.")
LEVEL_NOTE = ("Trusted: python ast + the stated subset semantics (ints mathematical, //,% with positive divisor), z3/cvc5, dataclass constructor "
              "model, loop summarisation rules, jnp.array/jit models; the Euclidean-division uniqueness instances added as hints are theorems. "
              "Quantifier: side lengths and open_x; other constructor fields at their defaults.")

"""C03 – force bias equals <psi_T|L_g|phi>/<psi_T|phi> for every Cholesky operator."""
from props._wf_common import TRUSTED, DROPPED, ASSUME

PROP, LEVEL, ENGINE = "C03", "other", "jxvc"
DESIGN_REF = "DESIGN.md section 3 C03"
TECHNIQUE = ("deductive, value-universal/shape-bounded: force-bias jaxprs (hand-coded and reverse-mode AD, interpreted through lu / "
             "triangular_solve / custom_linear_solve at the generic point) decided as rational identities against <psi|L_g|phi>/<psi|phi> on the Fock space"
             " Plus all-sizes obligations (kind proof): tensor normal forms with SYMBOLIC sizes of the same traced functions (engine B-T, DESIGN 2.3b).")
EXPLANATION = ("all-sizes (proof): fb.allsizes.{uhf,rhf[r=0],rhf[r=1]} - real intermediates + real force bias == sum_s tr(L_g^T conj(C_s) G_s) for ALL sizes (tensor normal form with symbolic sizes, DESIGN 2.3b). Identities of rational functions in ALL symbolic inputs at enumerated shapes: single-determinant/NOCI kinds through the Green's-"
               "function contract and the one-body Wick lemma; hand-coded cisd/ucisd and the reverse-mode (vjp) force bias of CISD/UCISD/GCISD/"
               "CISD_THC directly against the Fock-space mixed expectation of L_g, which is the logarithmic derivative of the overlap along exp(x L_g) "
               "(forward-mode definition); restricted == unrestricted entry points. Shape-bounded => level 'other'.")
LEVEL_TEXT = EXPLANATION
LEVEL_NOTE = "Trusted base and assumptions are listed in the evidence file."
TRUSTED_BASE, ASSUMPTIONS = TRUSTED, ASSUME


def tasks(tier):
    W = "contracts.wf"
    t = []
    ew = [("rhf", 3, 1, 1, True, 2, False), ("rhf", 3, 1, 1, False, 2, False), ("uhf", 3, 2, 1, False, 2, True), ("uhf", 2, 1, 0, False, 1, True),
          ("noci", 3, 2, 1, False, 2, True)]
    if tier == "thorough":
        ew += [("rhf", 4, 2, 2, True, 2, False), ("uhf", 4, 2, 2, False, 2, True), ("uhf", 5, 3, 2, False, 2, True), ("noci", 4, 2, 2, False, 2, True)]
    for k, n, a, b, r, nc, sdp in ew:
        t.append((W, "en_wick", dict(kind=k, norb=n, nu=a, nd=b, restricted=r, nchol=nc, spin_dep=sdp, what="fb")))
    for k, n, a, b in [("rhf", 3, 1, 1), ("uhf", 3, 2, 1), ("uhf", 2, 1, 0), ("noci", 3, 2, 1)]:
        t.append((W, "green", dict(kind=k, norb=n, nu=a, nd=b)))
    for n, a, b in [(2, 1, 1), (2, 1, 0), (3, 2, 1), (3, 1, 1)] + ([(4, 2, 2), (3, 2, 0), (4, 3, 1)] if tier == "thorough" else []):
        t.append((W, "wick_lemma", dict(norb=n, nu=a, nd=b, order=1, prop="C03")))
    direct = [("ghf", 2, 1, 1, False, {}), ("ghf", 3, 2, 1, False, {}), ("cisd", 3, 1, 1, True, {"spin_dep": False}), ("CISD", 3, 1, 1, True, {"spin_dep": False}),
              ("CISD_THC", 3, 1, 1, True, {"spin_dep": False}), ("ucisd", 3, 2, 1, False, {}), ("UCISD", 3, 2, 1, False, {}), ("GCISD", 2, 1, 1, False, {})]
    direct += [("cisd", 4, 2, 2, True, {"spin_dep": False}), ("cisd", 3, 2, 2, True, {"spin_dep": False})]
    if tier == "thorough":
        direct += [("CISD", 4, 2, 2, True, {"spin_dep": False}), ("ucisd", 3, 1, 1, False, {}),
                   ("UCISD", 3, 1, 1, False, {})]
    for k, n, a, b, r, extra in direct:
        t.append((W, "obs_fock", dict(kind=k, norb=n, nu=a, nd=b, what="fb", restricted=r, nchol=2 if k in ("ghf", "cisd") else 1, **extra)))
    # determinant-list trial (auto class, reverse mode through det / inv incl. the singular padded excitation blocks), every reference determinant
    for ref in ([0, 4, 7] if tier != "thorough" else range(9)):
        t.append(("contracts.ms", "ms_fb", dict(norb=3, nu=2, nd=1, ref=ref)))
    if tier == "thorough":
        t.append(("contracts.ms", "ms_fb", dict(norb=4, nu=2, nd=1, ref=5)))
    t.append((W, "obs_ru", dict(kind="rhf", norb=3, nocc=1, what="fb")))
    # all sizes (norb, n_up, n_dn, nchol symbolic): tensor normal form of the real intermediates + estimator against the Wick form
    t.append(("contracts.allsizes", "uhf_wick", dict(what="fb")))
    t.append(("contracts.allsizes", "rhf_wick", dict(what="fb", restricted=True)))
    t.append(("contracts.allsizes", "rhf_wick", dict(what="fb", restricted=False)))
    t.append(("contracts.allsizes", "noci_wick", dict(what="fb")))
    t.append((W, "canary", dict(which="fb")))
    return t


def post(obs, tier, rep):
    for o in obs:
        if o["name"].startswith("C02.green."):
            o["name"] = "C03.green." + o["name"][10:]
    return obs

"""C13 – orthonormalisation and initial walkers never change the represented state."""
from props._wf_common import TRUSTED, ASSUME, DROPPED

PROP, LEVEL, ENGINE = "C13", "other", "jxvc"
DESIGN_REF = "DESIGN.md section 3 C13"
TECHNIQUE = ("deductive, value-universal/shape-bounded: qr replaced by its algebraic contract (fresh Q, upper-triangular R) in the traced qr_vmap(_uhf); right-covariance "
             "identities overlap(phi R) = overlap(phi) det R and invariance of energy/force bias for every trial kind; the open-shell initial-walker branch executed on exact "
             "matrices with a symbolic triangular factor; refinement typing 'orthonormal columns' over the return paths of get_init_walkers")
EXPLANATION = ("qr.norm: the norm factor returned per walker and spin is det R of THAT spin block and the walkers are the Q factors. cov.*: for every trial kind overlap(phi R) = "
               "overlap(phi) det R_up det R_dn and energy / force bias are unchanged (ring identities, all walkers/trial parameters, R exact rational invertible) - so with A = QR, "
               "overlap(A) = overlap(Q) x norm factor. init.openshell.span: leading n_dn columns of the restricted open-shell initial walker span the down natural orbitals projected "
               "on the up space (so the trial overlap does not vanish for ROHF-type trials). orth.paths: every return path yields n_walkers copies of orthonormal-column matrices or "
               "raises ValueError. Shape-bounded => 'other'.")
LEVEL_TEXT = EXPLANATION
LEVEL_NOTE = ("N/D: a numerical lower bound on the trial overlap of initial walkers for arbitrary trials; reproduction of the variational energy (needs spectral reasoning about eigh). "
              "Assumed contract of jnp.linalg.qr: A = QR with R upper triangular, Q with orthonormal columns; eigh returns orthonormal eigenvectors.")
TRUSTED_BASE = TRUSTED + ["qr / eigh algebraic contracts (assumed)", "det of a triangular matrix = product of its diagonal (checked symbolically at the shapes used)"]
ASSUMPTIONS = ASSUME[:1] + ["R in the covariance identities: exact rational invertible matrices", "open-shell branch: U, Q exact rational orthogonal matrices, R symbolic upper triangular"]


def tasks(tier):
    M = "contracts.misc"
    t = [(M, "qr_norm", dict(uhf=False)), (M, "qr_norm", dict(uhf=True)), (M, "init_walkers_openshell", {}), (M, "init_walkers_paths", {}), (M, "init_walkers_natorbs", {}), (M, "init_walkers_natorbs", dict(norb=3, nu=2, nd=1))]
    if tier == "thorough":
        t.append((M, "init_walkers_openshell", dict(norb=5, nu=3, nd=2)))
        t.append((M, "init_walkers_openshell", dict(norb=4, nu=3, nd=1)))
    cov = [("uhf", 3, 2, 1, {}), ("rhf", 3, 1, 1, {"restricted": True, "spin_dep": False}), ("ghf", 3, 2, 1, {}), ("noci", 3, 2, 1, {}),
           ("cisd", 3, 1, 1, {"restricted": True, "spin_dep": False}), ("CISD", 3, 1, 1, {"restricted": True, "spin_dep": False}),
           ("UCISD", 3, 2, 1, {}), ("ucisd", 3, 2, 1, {}), ("GCISD", 2, 1, 1, {}), ("CISD_THC", 3, 1, 1, {"restricted": True, "spin_dep": False})]
    for k, n, a, b, kw in cov:
        t.append((M, "covariance", dict(kind=k, norb=n, nu=a, nd=b, what="overlap", **kw)))
    for k, n, a, b, kw in [("uhf", 3, 2, 1, {}), ("rhf", 3, 1, 1, {"restricted": True, "spin_dep": False}), ("noci", 2, 1, 1, {})]:
        t.append((M, "covariance", dict(kind=k, norb=n, nu=a, nd=b, what="energy", **kw)))
        t.append((M, "covariance", dict(kind=k, norb=n, nu=a, nd=b, what="fb", **kw)))
    if tier == "thorough":
        for k, n, a, b, kw in [("ghf", 2, 1, 1, {}), ("cisd", 3, 1, 1, {"restricted": True, "spin_dep": False}), ("ucisd", 3, 2, 1, {})]:
            t.append((M, "covariance", dict(kind=k, norb=n, nu=a, nd=b, what="energy", **kw)))
    t.append((M, "canary", {}))
    return t

"""C02 – local energy equals the mixed estimator <psi_T|H|phi>/<psi_T|phi>."""
from props._wf_common import TRUSTED, DROPPED, ASSUME

PROP, LEVEL, ENGINE = "C02", "other", "jxvc"
DESIGN_REF = "DESIGN.md section 3 C02"
TECHNIQUE = ("deductive, value-universal/shape-bounded: contract chain intermediates -> Green's function -> Wick lemma -> energy "
             "with callees replaced by their contracts; CI kinds vs the Fock-space estimator; AD kinds by a lemma on wave_function_auto "
             "for an arbitrary bra, order by order in the finite-difference step"
             " Plus all-sizes obligations (kind proof): tensor normal forms with SYMBOLIC sizes of the same traced functions (engine B-T, DESIGN 2.3b).")
EXPLANATION = ("all-sizes (proof): en.allsizes.{uhf,rhf[r=0],rhf[r=1]} - the real measurement intermediates composed with the real energy equal the Wick form in the full Green's function for ALL norb, electron numbers and numbers of Cholesky vectors (tensor normal form with symbolic sizes, DESIGN 2.3b). Identities of rational functions in ALL symbolic inputs (walker, trial, h0, h1 per spin, Cholesky matrices, Green's "
               "function symbols) at enumerated shapes. Single-determinant/NOCI kinds: energy function with the Green's-function helper "
               "replaced by fresh symbols equals the Wick form; the helper is verified against (w (C^+ w)^-1)^T; the Wick lemma links the "
               "Wick form to <psi|H|phi>/<psi|phi> with H written out on the Fock space. Hand-coded CI kinds: compared directly with the Fock "
               "estimator. AD kinds: wave_function_auto._calc_energy with the overlap callee (plain and jvp-transformed) replaced by "
               "<bra|Fock(w)> for an ARBITRARY bra has eps^0 coefficient equal to the exact estimator and vanishing eps^1 coefficient; "
               "each AD kind inherits that method (class-table fact) and satisfies C01. Shape-bounded => level 'other'.")
LEVEL_TEXT = EXPLANATION
LEVEL_NOTE = "Trusted base and assumptions are listed in the evidence file. float32/complex64 casts inside cisd/ucisd energies are treated as identities (exact arithmetic)."
TRUSTED_BASE, ASSUMPTIONS = TRUSTED, ASSUME


def tasks(tier):
    W = "contracts.wf"
    t = []
    for k, n, a, b in [("rhf", 3, 1, 1), ("uhf", 3, 2, 1), ("uhf", 2, 1, 0), ("noci", 3, 2, 1)] + \
                      ([("rhf", 4, 2, 2), ("uhf", 4, 2, 2), ("uhf", 3, 1, 1), ("noci", 3, 1, 1)] if tier == "thorough" else []):
        t.append((W, "green", dict(kind=k, norb=n, nu=a, nd=b)))
    ew = [("rhf", 3, 1, 1, True, 1, False), ("rhf", 3, 1, 1, False, 1, False), ("uhf", 3, 2, 1, False, 2, True), ("uhf", 2, 1, 0, False, 1, True),
          ("noci", 3, 2, 1, False, 1, True), ("noci", 2, 1, 0, False, 1, True)]
    if tier == "thorough":
        ew += [("rhf", 4, 2, 2, True, 2, False), ("rhf", 4, 2, 2, False, 2, False), ("uhf", 4, 2, 2, False, 2, True), ("uhf", 4, 3, 1, False, 1, True),
               ("uhf", 5, 3, 2, False, 1, True), ("noci", 4, 2, 2, False, 1, True)]
    for k, n, a, b, r, nc, sdp in ew:
        t.append((W, "en_wick", dict(kind=k, norb=n, nu=a, nd=b, restricted=r, nchol=nc, spin_dep=sdp)))
    for n, a, b in [(2, 1, 1), (2, 1, 0), (3, 2, 1), (3, 1, 1)]:
        t.append((W, "wick_lemma", dict(norb=n, nu=a, nd=b, order=1)))
        t.append((W, "wick_lemma", dict(norb=n, nu=a, nd=b, order=2)))
    if tier == "thorough":
        for n, a, b in [(3, 2, 0), (4, 2, 1)]:
            t.append((W, "wick_lemma", dict(norb=n, nu=a, nd=b, order=1)))
            for part in range(4):
                t.append((W, "wick_lemma", dict(norb=n, nu=a, nd=b, order=2, part=part)))
    # GHF: directly against the Fock estimator
    t.append((W, "obs_fock", dict(kind="ghf", norb=2, nu=1, nd=1, what="energy")))
    if tier == "thorough":
        t.append((W, "obs_fock", dict(kind="ghf", norb=3, nu=2, nd=1, what="energy")))
    # AD kinds: lemma on wave_function_auto for an arbitrary bra
    for n, a, b, nc, r in [(2, 1, 1, 1, False), (3, 2, 1, 1, False), (3, 1, 1, 1, True), (3, 1, 1, 2, False)] + \
                          ([(3, 2, 1, 2, False), (4, 1, 1, 1, True), (4, 2, 1, 1, False)] if tier == "thorough" else []):
        t.append((W, "auto_energy_lemma", dict(norb=n, nu=a, nd=b, nchol=nc, restricted=r)))
    for k in ("multislater", "CISD", "UCISD", "GCISD", "CISD_THC"):
        t.append((W, "auto_inherits", dict(kind=k)))
    # hand-coded CI kinds
    hc = [("cisd", 3, 1, 1, True, False, {}), ("cisd_faster", 3, 1, 1, True, False, {}), ("ucisd", 3, 2, 1, False, True, {}),
          ("ucisd", 3, 1, 1, False, True, {"moB": "identity"}),
          # nocc >= 2 and nvirt >= 2: index transpositions inside the occupied / virtual blocks are invisible below these shapes
          ("cisd", 3, 2, 2, True, False, {}), ("cisd_faster", 3, 2, 2, True, False, {}), ("cisd", 4, 2, 2, True, False, {}), ("cisd_faster", 4, 2, 2, True, False, {})]
    if tier == "thorough":
        hc += [("ucisd", 3, 2, 0, False, True, {}), ("ucisd", 3, 1, 1, False, True, {})]
    for k, n, a, b, r, sdp, extra in hc:
        t.append((W, "obs_fock", dict(kind=k, norb=n, nu=a, nd=b, what="energy", restricted=r, spin_dep=sdp, **extra)))
    t.append((W, "obs_ru", dict(kind="rhf", norb=3, nocc=1, what="energy")))
    # all sizes (norb, n_up, n_dn, nchol symbolic): tensor normal form of the real intermediates + estimator against the Wick form
    t.append(("contracts.allsizes", "uhf_wick", dict(what="energy")))
    t.append(("contracts.allsizes", "rhf_wick", dict(what="energy", restricted=True)))
    t.append(("contracts.allsizes", "rhf_wick", dict(what="energy", restricted=False)))
    t.append(("contracts.allsizes", "noci_wick", dict(what="energy")))
    t.append((W, "canary", dict(which="energy")))
    return t

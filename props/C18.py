"""C18 – trial optimisation is a stable, differentiable SCF with orthonormal output (partial)."""
from props._wf_common import TRUSTED, ASSUME, DROPPED

PROP, LEVEL, ENGINE = "C18", "proof", "pyvc+jxvc"
DESIGN_REF = "DESIGN.md section 3 C18"
TECHNIQUE = ("deductive: the real statements of _eigh_jvp executed on one matrix entry in z3's Float64 theory (finiteness, all inputs) and over the reals (perturbation formula); "
             "the jitted contraction and the Fock matrices of optimize() as ring identities on the traced jaxpr; refinement typing of the returned orbitals"
             " Plus all-sizes obligations (kind proof): tensor normal forms with SYMBOLIC sizes of the same traced functions (engine B-T, DESIGN 2.3b).")
EXPLANATION = ("all-sizes (proof): opt.fock.allsizes.{uhf.up,uhf.dn,rhf} - the operand of the eigen-solver in the first SCF iteration of the real optimize() is h1 + J - K of the trial density for ALL norb, electron numbers and nchol (tensor normal form, DESIGN 2.3b). eigh.finite: for ALL finite eigenvalue pairs (equal, nearly equal, far apart, subnormal, huge) every entry of the derivative kernel Fmat is a finite double (Float64, no "
               "bound). eigh.formula: off degeneracy F_ij = 1/(w_j - w_i), F_ii = 0 (reals), and the jitted contraction is dw = diag(V^T A' V), dV = V (F o V^T A' V) - the standard "
               "first-order perturbation formulas. opt.fock (bounded): the matrix given to the eigen-solver in an SCF iteration is the RHF / UHF Fock operator of the current density "
               "(per-spin exchange), so a converged Hartree-Fock solution is a fixed point. opt.orth: the returned orbitals are column slices of sign-fixed eigenvector matrices.")
LEVEL_TEXT = EXPLANATION
LEVEL_NOTE = ("N/D: convergence of the iteration and agreement with an independent SCF solver from a perturbed guess (needs analysis of the fixed-point iteration); the fixed-point statement "
              "itself is the corollary of opt.fock with the eigh contract. Proof-level count = eigh.finite, eigh.formula.offdiag/diag, opt.orth; ring identities are reported as bounded.")
TRUSTED_BASE = TRUSTED[:5] + ["z3 Float64 theory", "eigh contract: orthonormal eigenvectors of a symmetric matrix (assumed)"]
ASSUMPTIONS = ["real symmetric Fock matrices (real trial orbitals, symmetric h1, symmetric Cholesky matrices)"]


def tasks(tier):
    S = "contracts.scf"
    t = [(S, "eigh_finite", {}), (S, "eigh_formula", {}), (S, "fock", dict(kind="rhf")), (S, "fock", dict(kind="uhf")), (S, "opt_orth", {}), (S, "canary", {})]
    for k in ("rhf", "uhf"):          # the density carried to the next SCF iteration (all eigenvector matrices, both answers of the column-sign test)
        t += [(S, "density", dict(kind=k, flip=False)), (S, "density", dict(kind=k, flip=True)), (S, "density", dict(kind=k, norb=4, nocc=2, flip=True))]
    t += [(S, "writeback", dict(kind="rhf")), (S, "writeback", dict(kind="uhf", flip=True))]      # what optimize() hands back as the new trial orbitals
    t += [("contracts.allsizes", "fock_allsizes", dict(kind="uhf")), ("contracts.allsizes", "fock_allsizes", dict(kind="rhf"))]      # ALL sizes (tensor normal form)
    if tier == "thorough":
        t += [(S, "fock", dict(kind="uhf", norb=4, nchol=3)), (S, "fock", dict(kind="rhf", norb=4, nchol=3))]
    return t

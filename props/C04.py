"""C04 – the phaseless step is an exact importance-sampling reweighting of exp(-dt H)."""
from props._wf_common import TRUSTED, DROPPED

PROP, LEVEL, ENGINE = "C04", "other", "jxvc"
DESIGN_REF = "DESIGN.md section 3 C04"
TECHNIQUE = ("deductive, value-universal/shape-bounded: power-series mode of the jaxpr interpreter (dt symbolic through a marker, exp/expm by their series in sqrt(dt), "
             "exact Gaussian moments) on the real propagate(), _build_propagation_intermediates and _apply_trotprop, against exp(-dt(H-E)) written out on the Fock space"
             " Plus all-sizes obligations (kind proof): tensor normal forms with SYMBOLIC sizes of the same traced functions (engine B-T, DESIGN 2.3b).")
EXPLANATION = ("all-sizes (proof): prop.const.allsizes[...] - mf_shifts, h0_prop and the exponent of exp_h1 of the real _build_propagation_intermediates are the mean-field-subtracted forms for ALL norb and nchol (DESIGN 2.3b). With EVERYTHING symbolic (walker, h0, h1 per spin, Cholesky matrices, the rdm1 of the mean-field shift, field values, a FREE force-bias vector, E_shift) and the "
               "trial callees replaced by their contracts, the real propagate() gives: importance function = exp(-sqrt(dt) shift_term + fb_term + dt(E_shift+h0_prop)) O'/O; theta = "
               "phase of exp(-sqrt(dt) shift_term) O'/O; and the exact Gaussian average of (importance function x propagated walker / new overlap) equals exp(-dt (H - E_shift))|phi>/O "
               "in every Fock component at orders s^0..s^3 of s = sqrt(dt) - the first unmatched order is s^4 = dt^2, which is the algebraic content of 'up to the O(dt^2) error'. "
               "Restricted and unrestricted propagators, 1-2 Cholesky vectors, norb 2 (quick). The weight formula (|I| max(0,cos theta), NaN / window clamps) is proved in Float64 under C09.")
LEVEL_TEXT = EXPLANATION
LEVEL_NOTE = ("N/D: the measured residual ratios on a dt ladder (numerical statement); no guarded hook is needed because the interpreter captures the importance function and theta "
              "inside the traced jaxpr (operand of abs / angle). Trial independence: calc_force_bias / calc_overlap are abstracted (their contracts are C01/C03).")
TRUSTED_BASE = TRUSTED + ["power series: exp(x) = sum x^k/k! for x = O(s); expm likewise; Gaussian moments E[x^k] = (k-1)!!; truncation at s^K inside products is exact for the retained orders",
                          "marker literals: every float literal equal to +-dt or +-sqrt(dt) is mapped to +-s^2, +-s (all dtype copies)"]
ASSUMPTIONS = ["symmetric h1 per spin, symmetric Cholesky matrices, symmetric rdm1 (any values)", "restricted propagator: spin-independent h1 and rdm1"]


def tasks(tier):
    S = "contracts.series"
    t = [(S, "phaseless_step", dict(restricted=False, nchol=1)), (S, "phaseless_step", dict(restricted=False, nchol=2)),
         (S, "phaseless_step", dict(restricted=True, nchol=2)), (S, "c04_canary", {})]
    # all sizes: mean-field shifts, h0_prop and the one-body exponent of the real _build_propagation_intermediates (tensor normal form, symbolic norb / nchol)
    t += [("contracts.allsizes", "prop_intermediates", dict(restricted=True)), ("contracts.allsizes", "prop_intermediates", dict(restricted=False))]
    if tier == "thorough":
        t += [(S, "phaseless_step", dict(restricted=False, norb=3, nu=2, nd=1, nchol=1)), (S, "phaseless_step", dict(restricted=True, norb=3, nu=1, nd=1, nchol=2))]
    return t

"""C05 – the free-projection step averages to exp(-dt (H - ene0)) with exact norm bookkeeping."""
from props._wf_common import TRUSTED, DROPPED

PROP, LEVEL, ENGINE = "C05", "other", "jxvc"
DESIGN_REF = "DESIGN.md section 3 C05"
TECHNIQUE = ("deductive, value-universal/shape-bounded: power-series mode on the real propagate_free (field average of the un-normalised walkers vs exp(-dt(H-ene0)) on the Fock space); "
             "qr replaced by its algebraic contract for the norm / overlap bookkeeping; polynomial identity for the truncated exponential; EUF estimator formula of the block"
             " Plus all-sizes obligations (kind proof): tensor normal forms with SYMBOLIC sizes of the same traced functions (engine B-T, DESIGN 2.3b).")
EXPLANATION = ("fp.step.series: the walkers handed to the re-orthonormalisation inside propagate_free (constants x Trotter propagator), averaged exactly over the fields, equal "
               "exp(-dt (H - ene0))|phi> at orders s^0..s^3, everything symbolic incl. an arbitrary rdm1, open shell (2,1). fp.norm / fp.overlap: with qr = (fresh Q, triangular R) the "
               "step stores Q, multiplies norms by det R_up det R_dn and stores overlap(Q) x norms, which by the covariance contract of C13 is the overlap of the un-normalised product; "
               "k consecutive steps follow by induction (norms only multiplies). fp.taylor: the truncated exponential is B sum_{n<n_exp_terms} vhs^n/n! B phi. fp.energy: block energy = "
               "sum(E_L overlap)/sum(overlap). Shape-bounded => 'other'.")
LEVEL_TEXT = EXPLANATION
LEVEL_NOTE = "N/D: normed_overlaps (second QR of an orthonormal matrix) beyond being the overlap of an orthonormal walker of the same span; the size of the Taylor remainder is the stated lemma."
TRUSTED_BASE = TRUSTED + ["power-series rules as in C04", "qr algebraic contract (assumed)", "EUF: library calls are deterministic functions"]
ASSUMPTIONS = ["symmetric h1 per spin, Cholesky matrices, rdm1", "both spins present"]


def tasks(tier):
    S = "contracts.series"
    t = [(S, "free_step", dict(norb=2, nu=1, nd=1, nchol=1)), (S, "free_step", dict(norb=2, nu=2, nd=1, nchol=1)), (S, "free_bookkeeping", {}), (S, "free_bookkeeping", dict(norb=3, nu=2, nd=2)),
         (S, "taylor", dict(n_exp_terms=6)), (S, "taylor", dict(n_exp_terms=2)), (S, "taylor", dict(n_exp_terms=10)), ("contracts.sampler_eq", "free_block", {}), (S, "c05_canary", {})]
    t += [("contracts.allsizes", "taylor_allsizes", dict(n_exp_terms=6)), ("contracts.allsizes", "taylor_allsizes", dict(n_exp_terms=10))]      # ALL norb / nocc (tensor normal form, scan unrolled)
    if tier == "thorough":
        t += [(S, "free_step", dict(norb=2, nu=1, nd=1, nchol=2)), (S, "free_step", dict(norb=3, nu=2, nd=1, nchol=1))]
    return t


def post(obs, tier, rep):
    """native replay of the bookkeeping obligations: qr_vmap_uhf norm factors vs numpy QR on an open-shell pair of blocks"""
    for o in obs:
        if o["status"] == "refuted" and o["kind"] != "canary" and o["name"].split("[")[0] in ("C05.fp.norm", "C05.fp.overlap", "C05.fp.walkers") and not o.get("replayed"):
            try:
                import numpy as np
                from contracts import native
                native.setup()
                import jax.numpy as jnp
                from ad_afqmc import linalg_utils
                rng = np.random.default_rng(2)
                up, dn = rng.normal(size=(2, 4, 2)) + 1j * rng.normal(size=(2, 4, 2)), rng.normal(size=(2, 4, 1)) + 1j * rng.normal(size=(2, 4, 1))
                wk, norms = linalg_utils.qr_vmap_uhf([jnp.array(up), jnp.array(dn)])
                ref = np.array([[np.prod(np.diag(np.linalg.qr(b[k])[1])) for k in range(2)] for b in (up, dn)])
                dev = float(np.max(np.abs(np.abs(np.asarray(norms)) - np.abs(ref))))
                o["replayed"] = bool(dev > 1e-10)
                o["witness"] = dict(o.get("witness") or {}, native_qr=dict(check="|norm factors| of qr_vmap_uhf vs |prod diag R| from numpy per spin block (open shell 2+1)", max_deviation=dev))
            except Exception as e:   # noqa
                o["witness"] = dict(native_error=repr(e)[:200])
        if o["status"] == "refuted" and o["kind"] != "canary" and o["name"].split("[")[0] in ("C05.fp.energy.energy", "C05.fp.energy.weight") and not o.get("replayed"):
            try:
                from contracts import native
                dev, rec = native.free_block_deviation()
                o["replayed"] = bool(dev > 1e-9)
                o["witness"] = dict(o.get("witness") or {}, native_block=dict(check="one real _block_scan_free block vs sum(E_L*ov)/sum(ov), ov = overlap of the un-normalised walkers", **rec))
            except Exception as e:   # noqa
                o["witness"] = dict(o.get("witness") or {}, native_error=repr(e)[:200])
    return obs

"""C17 – Cholesky factorisations reproduce their input and stay differentiable."""
PROP, LEVEL, ENGINE = "C17", "other", "symx+jxvc"
DESIGN_REF = "DESIGN.md section 3 C17"
TECHNIQUE = ("deductive, value-universal/shape-bounded. NumPy routine: the real function's code object is executed path-wise over symbolic reals (engine C, vc/symx.py: numpy "
             "object arrays of z3 terms, every comparison a replayed decision, square roots folded s^2 = x so that Gram entries stay rational) and each path's postcondition is a "
             "z3 nonlinear-real verification condition; JAX routine: jaxpr interpreted over the field of rational functions of a pivoted Cholesky factor (change of variables "
             "A = P B B^T P^T), case split over all pivot orders")
EXPLANATION = ("np.gram: for EVERY symmetric PSD n x n matrix (n = 1, 2: all; n = 3: every diagonal and every rank-one matrix) and every threshold err > 0, on every path of "
               "pyscf_interface.modified_cholesky (pivot choices, early exit, size cap, zero pivots) the returned vectors satisfy |A - sum_g L_g L_g^T|_ij <= err + n*1e-10 for all i, j "
               "(n*1e-10: the code's own regulariser (delta_max + 1e-10)**0.5, once per vector); every square-root argument is non-negative; no NaN is returned. "
               "jax.exact: for every rank r <= n <= 3 and every pivot order, linalg_utils.modified_cholesky asked for r vectors returns L with sum_g L_g L_g^T == A identically; "
               "jax.pivot: each pivot is the argmax of the absolute residual diagonal (so it is non-zero while the rank is not exhausted); jax.deriv: at full rank the forward-mode "
               "tangent of the factor is finite and the derivative of the reconstruction in any symmetric direction T is T. Shape-bounded => 'other'.")
LEVEL_TEXT = EXPLANATION
LEVEL_NOTE = ("N/D: general (non-diagonal, rank >= 2) 3 x 3 inputs of the NumPy routine (z3 and cvc5 return unknown on the nonlinear conditions; reported as NOT-DECIDED in the thorough tier, "
              "never as proved); chunked_cholesky (needs pyscf integrals: external); agreement of the derivative with FINITE differences at a finite step (numerical); "
              "behaviour of the JAX routine when more vectors than the rank are requested (outside the statement: 0/0).")
TRUSTED_BASE = ["CPython executing the real code object with the module global `np` rebound to a shim: numpy itself except zeros (exact object array) and argmax (explicit first-maximum scan)",
                "numpy object-dtype arithmetic dispatching to the operand's Python operators (+, -, *, /, abs, dot, copy, slicing, +=)",
                "z3 nonlinear real arithmetic (nlsat); unsat answers re-checked by cvc5 only where cvc5 decides",
                "engine B trusted base (jax.make_jaxpr, exact sympy polynomial arithmetic, float cross-check at a rational point on every run)",
                "every symmetric PSD matrix of rank r is P B B^T P^T with B lower trapezoidal with positive diagonal for its own pivot order P (pivoted Cholesky existence)"]
ASSUMPTIONS = ["float64 arithmetic treated as real arithmetic (no rounding, no overflow)", "input symmetric positive semi-definite (all principal minors >= 0), max_error > 0",
               "JAX routine: the hooked argmax returns the enumerated pivot; the vector it is applied to is checked to be the residual diagonal (jax.pivot)",
               "x ** 0.5 is the non-negative root; abs(x) = x is only used on sums of squares"]
DROPPED = ["floating-point rounding; NaN/inf modelled only as 'division by zero on this path' (poison that may be stored but not compared or returned)",
           "general 3 x 3 and all larger matrices (shape bound)", "the shell-chunked molecular routine"]


def tasks(tier):
    C = "contracts.chol"
    t = [(C, "np_gram", dict(n=1)), (C, "np_gram", dict(n=2)), (C, "np_gram", dict(n=3, param="diag")), (C, "np_gram", dict(n=3, param="rank1")),
         (C, "np_canary", {})]
    import itertools
    perms = [(2, (0, 1)), (2, (1, 0))] + [(3, p) for p in itertools.permutations(range(3))]
    for n, p in perms:
        t.append((C, "jax_exact", dict(n=n, perm=list(p))))
        t.append((C, "jax_exact", dict(n=n, perm=list(p), deriv=True)))
    # inputs ON the tie surfaces (repeated pivots at step k): the value is unaffected, the derivative must follow the chosen pivot
    for n, p, k in [(2, (0, 1), 0), (3, (0, 1, 2), 0), (3, (0, 2, 1), 0), (3, (1, 2, 0), 0), (3, (0, 1, 2), 1), (3, (1, 0, 2), 1), (3, (2, 0, 1), 1)]:
        t.append((C, "jax_exact", dict(n=n, perm=list(p), tie=k)))
        t.append((C, "jax_exact", dict(n=n, perm=list(p), tie=k, deriv=True)))
    t.append((C, "jax_exact", dict(n=1)))
    for n, r, p in [(2, 1, (1, 0)), (3, 1, (1, 0, 2)), (3, 2, (0, 2, 1)), (3, 2, (2, 1, 0))]:
        t.append((C, "jax_exact", dict(n=n, rank=r, perm=list(p))))
    t.append((C, "jax_canary", {}))
    if tier == "thorough":
        t += [(C, "np_gram", dict(n=2, param="factor")), (C, "np_gram", dict(n=4, param="rank1"))]
        t += [(C, "np_gram_nd", dict(n=3, part=i, parts=16)) for i in range(16)]
        for p in [(3, 1, 0, 2), (0, 1, 2, 3), (2, 3, 1, 0)]:
            t.append((C, "jax_exact", dict(n=4, perm=list(p))))
        t.append((C, "jax_exact", dict(n=4, perm=[1, 3, 0, 2], deriv=True)))
    return t

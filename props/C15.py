"""C15 – observables are covariant under orthogonal orbital rotations."""
from props._wf_common import TRUSTED, ASSUME, DROPPED

PROP, LEVEL, ENGINE = "C15", "other", "jxvc"
DESIGN_REF = "DESIGN.md section 3 C15"
TECHNIQUE = ("deductive, value-universal/shape-bounded: the traced rotate_orbs interpreted over Q(i)(x) equals the congruence C^T X C for general C; invariance of energy / force "
             "bias / overlap under a simultaneous exact orthogonal rotation as ring identities"
             " Plus all-sizes obligations (kind proof): tensor normal forms with SYMBOLIC sizes of the same traced functions (engine B-T, DESIGN 2.3b).")
EXPLANATION = ("all-sizes (proof): rot.congruence.allsizes.{chol,h1} - rotate_orbs is the congruence C^T X C for ALL norb and nchol (tensor normal form with symbolic sizes, DESIGN 2.3b). rot.congruence: for symbolic h1 (both spins independent), symbolic Cholesky vectors and a GENERAL symbolic matrix C, rotate_orbs returns C^T h1[s] C for each spin and "
               "C^T L_g C for each g (norb 2..4). rot.inv: with an exact rational orthogonal C, rotating the Hamiltonian with rotate_orbs and the trial orbitals and walkers with C^T "
               "leaves local energy and force bias unchanged and the overlap unchanged (factor 1), for rhf/uhf/noci, and for ucisd / cisd under the rotations that keep the trial representable (C = R_occ (+) R_virt, alpha amplitude indices transformed, beta orbitals rotated); for the other kinds it is the corollary of C02/C03 (the spec is "
               "basis independent) with rot.congruence. Shape-bounded => 'other'.")
LEVEL_TEXT = EXPLANATION
LEVEL_NOTE = "The congruence is decided at norb <= 4 (thorough), all values; orthogonal matrices in rot.inv are exact products of Pythagorean Givens rotations."
TRUSTED_BASE = TRUSTED
ASSUMPTIONS = ASSUME[:1]


def tasks(tier):
    M = "contracts.misc"
    t = [(M, "rot_congruence_allsizes", {}), (M, "rot_congruence", dict(norb=2)), (M, "rot_congruence", dict(norb=3))]
    if tier == "thorough":
        t.append((M, "rot_congruence", dict(norb=4, nchol=3)))
    for k, n, a, b in [("uhf", 3, 2, 1), ("rhf", 3, 1, 1), ("noci", 2, 1, 1)]:
        for w in ("overlap", "energy", "fb"):
            t.append((M, "rot_invariance", dict(kind=k, norb=n, nu=a, nd=b, what=w)))
    for w in ("overlap", "energy", "fb"):       # ucisd: block rotations R_occ (+) R_virt with the alpha amplitude indices transformed
        t.append((M, "rot_invariance_ucisd", dict(norb=3, nu=2, nd=1, what=w)))
        t.append((M, "rot_invariance_ucisd", dict(norb=3, nu=1, nd=1, what=w, kind="cisd")))
        if w != "energy" or tier == "thorough":
            t.append((M, "rot_invariance_ucisd", dict(norb=4, nu=2, nd=2, what=w, kind="cisd")))
    t.append((M, "canary", {}))
    return t

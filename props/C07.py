"""C07 – stochastic reconfiguration is an unbiased, weight-conserving comb."""
PROP, LEVEL, ENGINE = "C07", "proof", "pyvc"
DESIGN_REF = "DESIGN.md section 3 C07"
TECHNIQUE = ("deductive: symbolic execution of the real sr.py bodies (python ast) over arrays of symbolic length into z3 "
             "verification conditions (reals + uninterpreted functions + quantified library-model axioms), comb lemmas over reals/floors")
EXPLANATION = ("The five implementations (jitted restricted/unrestricted, NumPy loop, MPI gather/scatter for both containers) are executed "
               "symbolically for ALL population sizes N, ALL weight vectors (any signs, zeros, magnitudes) and ALL offsets 0 <= zeta < 1: "
               "survivor i is a copy of walker idx_i = min{k: c_k >= W(i+zeta)/N} (same index for both spin blocks), every survivor weighs W/N, "
               "total |weight| conserved, the comb stays in range. The floor/ceil count, zero-weight exclusion and the mean over the offset are "
               "z3 lemmas over reals/floors. With the assumed mpi4py Gather/Scatter contract rank r of R gets rows [rn,(r+1)n) of the serial comb "
               "on the rank-ordered concatenation, independent of its own zeta. No bound on N, R, n.")
LEVEL_TEXT = EXPLANATION
LEVEL_NOTE = ("Assumed contracts (library models): cumsum recurrence, searchsorted(left) on a sorted array (sortedness is a generated obligation), "
              "vmap = pointwise map, gather, independent-store loop rule, mpi4py Gather/Scatter (rank-ordered concatenation / equal contiguous chunks); "
              "collectives synchronise (no interleaving semantics: the family is silent on concurrency); reals instead of float64; "
              "counting lemma '#integers in (x,y] = floor(y)-floor(x)' and 'sum of N equal terms' are stated mathematics.")
TRUSTED_BASE = ["python ast + stated subset semantics", "z3 (quantified axioms with patterns), cvc5 for unknowns", "library models of vc/pyvc/arrmodels.py (assumed contracts)",
                "mpi4py Gather/Scatter contract (assumed)", "counting integers in a half-open interval (mathematics)"]
ASSUMPTIONS = ["weights/offset are reals (no rounding)", "total absolute weight W > 0", "0 <= zeta < 1 (0 < zeta for the zero-weight clause)",
               "walkers are opaque tags: only WHICH walker is copied is tracked", "MPI collectives are synchronisation points (assumed)"]
DROPPED = ["jit decorator", "np.array/jnp.array conversions and .copy() (identity)", "dtype handling"]


def tasks(tier):
    S = "contracts.sr"
    t = [(S, "impl", dict(which=w)) for w in ("jit", "jit_uhf", "np", "mpi_stub", "mpi_uhf_stub")]
    t += [(S, "ranks", dict(uhf=False)), (S, "ranks", dict(uhf=True)), (S, "char", dict(which="jit")), (S, "char", dict(which="jit_uhf")),
          (S, "lemmas", {}), (S, "wrappers", {}), (S, "canary", {})]
    return t


def post(obs, tier, rep):
    from contracts import sr
    done = {}
    for o in obs:
        if o["kind"] != "canary" and o["status"] in ("refuted", "undecided") and ".lemma." not in o["name"] and ".key." not in o["name"]:
            sr.replay(o)
    return obs

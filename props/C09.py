"""C09 – weights stay real, finite and non-negative; dead walkers stay dead."""
PROP, LEVEL, ENGINE = "C09", "other", "pyvc"
DESIGN_REF = "DESIGN.md section 3 C09"
TECHNIQUE = ("deductive: symbolic execution of the real propagate() bodies (python ast) over one walker lane in the IEEE-754 Float64 theory of z3, with every "
             "non-weight quantity havoc'ed over ALL doubles incl. NaN/inf (over-approximation); inductive invariant 0 <= w <= 100 finite; native replay of refutations")
EXPLANATION = ("Phaseless propagators (restricted, unrestricted): PROVED in Float64 for all inputs - Inv(w) => Inv(w'), the per-step factor is 0 or in [1e-3, 100], "
               "w = 0 => w' = 0, log argument positive and shift finite while the population is alive (sum and log lemmas stated). CPMC propagators: the same obligations are "
               "generated; where the over-approximation refutes one, a native history decides: a confirmed one is a genuine defect (known finding: NaN weight/shift after a "
               "fully constrained walker in the FAST propagators), an unconfirmed one is reported NOT-DECIDED (neither proved nor a violation). Because known findings are "
               "suppressed the claim level is 'other', not 'proof'.")
LEVEL_TEXT = EXPLANATION
LEVEL_NOTE = ("N/D: propagator_cpmc_slow, propagator_cpmc_nn, propagator_cpmc_nn_slow (not analysed). Stated lemmas: a sum of N doubles in [0,100] is finite, >= each term; log of a positive finite double is finite with |log| <= 800. Havoc constraints: |z| not negative, "
              "cos in [-1,1] or NaN, exp not negative. lax.scan over sites: inductive step on the lane weight. Weights after reconfiguration: C07 (W/N). killed fraction: real arithmetic lemma.")
TRUSTED_BASE = ["python ast + subset semantics", "z3 Float64 theory (bit-blasting), cvc5 for unknowns", "cone-of-influence slicing of hypotheses (sound for proofs; counter-models are re-checked)",
                "sum lemma and log lemma (mathematics of doubles, stated)"]
ASSUMPTIONS = ["'.fin.*' obligations only: every real/imaginary part taken of a non-weight quantity and every double (op) unknown quantity is a finite double (the property's 'finite, non-zero overlaps' plus no overflow of the importance function)", "dt in (1e-12, 1e3), 1 <= n_walkers <= 1e9, |e_estimate| <= 1e300", "'alive' means sum of weights >= 1e-290", "lane-wise code: one representative lane (C14 lane typing)"]
DROPPED = ["all non-weight arithmetic (havoc'ed)", "jit decorators"]


def tasks(tier):
    W = "contracts.weights"
    t = [(W, "step", dict(cls=c, meth="propagate")) for c in ("propagator_restricted", "propagator_unrestricted", "propagator_cpmc", "propagator_cpmc_continuous")]
    # slow / nearest-neighbour CPMC variants are NOT analysed (N/D): under the havoc over-approximation their obligations are not provable and
    # only yield not-decided entries; their one-body halves and tails repeat the patterns of propagator_cpmc
    t += [(W, "step", dict(cls="propagator_cpmc_continuous", meth="propagate", finite_ratio=True))]      # provable under 'finite importance function'
    t += [(W, "step", dict(cls="propagator_cpmc", meth="propagate_one_body")), (W, "init_weights", {}), (W, "block_bookkeeping", {}), (W, "block_energy", {}), (W, "canary", {})]
    return t


CLAUSE = {"step": "step", "shift.finite": "shift_any", "dead": "dead", "shift.logarg": "shift_any"}


def post(obs, tier, rep):
    from contracts import native
    cache = {}
    for o in obs:
        if o["status"] != "refuted" or o["kind"] == "canary":
            continue
        parts = o["name"].split(".")
        cls = next((p for p in parts if p.startswith("propagator_")), None)
        if cls is None or "cpmc" not in cls:
            if cls:
                _replay_phaseless(o, cls)
            continue
        if cls == "propagator_cpmc_continuous":
            try:
                if "node" not in cache:
                    cache["node"] = native.cpmc_node_crossing(cls)
                nb, nrec = cache["node"]
                fam0 = "dead" if o["name"].endswith("dead") else "step"
                if fam0 in nb or (".fin." in o["name"] and nb):
                    o["replayed"] = True
                    o["witness_class"] = "node-crossing-walker"
                    o["witness"] = dict(model=o.get("witness"), native=dict(history="2 sites, trial [1;1]; walker 1 = up [1;-0.9], dn [1;1], fields (-2,+2): crosses the trial node, "
                                                                            "importance function finite and negative", failing=nb.get(fam0) or next(iter(nb.values())), steps=nrec.get("steps")))
                    continue
            except Exception as e:   # noqa
                o["witness"] = dict(model=o.get("witness"), native_error=repr(e)[:200])
        if cls not in cache:
            try:
                cache[cls] = native.cpmc_violations(cls)
            except Exception as e:   # noqa
                cache[cls] = ({}, dict(error=repr(e)[:200]))
        bad, rec = cache[cls]
        tail = ".".join(parts[parts.index(cls) + 2:])
        fam = "step" if tail.endswith("step") else ("dead" if tail.endswith("dead") else ("shift_any" if "shift" in tail else tail))
        if fam in ("step", "dead") and cls == "propagator_cpmc" and _second_history_fails(cache):
            # a DIFFERENT failing history than the listed finding: a site where one field value is allowed must keep the walker alive
            o["replayed"] = True
            o["witness_class"] = "nan-with-one-field-allowed"
            o["witness"] = dict(model=o.get("witness"), native=cache["second"])
            continue
        if fam in bad:
            o["replayed"] = True
            o["witness_class"] = "nan-after-fully-constrained-walker"
            o["witness"] = dict(model=o.get("witness"), native=dict(history="2 sites, trial [1;1], walkers [1;1] and [-10;11] in both spins, h1=0, U=4, dt=0.05, zero fields",
                                                                    failing=bad[fam], first_steps=rec.get("steps", [])[:2]))
        else:
            o["kind"] = "nd"
            o["detail"] = ("refuted only under the havoc over-approximation (non-weight quantities range over all doubles incl. NaN/inf); no native history "
                           "reproduces it: neither proved nor reported as a violation. solver model: " + str(o.get("witness"))[:160])
    return obs


def _second_history_fails(cache):
    if "second" not in cache:
        try:
            from contracts import cpmc
            oo = dict(name="C10.cpmc.site.constraint[uhf_cpmc,fast,site=0,x=1]", witness=None)
            cpmc._replay_constraint(oo)
            cache["second"] = dict(oo["witness"]["native"], fails=bool(oo["replayed"]))
        except Exception as e:   # noqa
            cache["second"] = dict(fails=False, error=repr(e)[:200])
    return cache["second"].get("fails", False)


def _replay_phaseless(o, cls):
    """native replay of a phaseless-chain refutation with a stub trial that returns the overlap phase of the solver model"""
    try:
        from contracts import native
        import numpy as np
        native.setup()
        import jax.numpy as jnp
        from ad_afqmc import propagation

        class Stub:
            norb, nelec = 2, (1, 1)

            def calc_force_bias(self, walkers, ham_data, wave_data):
                return jnp.zeros((5, 1)) + 0j

            def calc_overlap(self, walkers, wave_data):
                return jnp.array([-0.5 + 0.1j, 0.2 + 0.0j, 1e-6 + 0j, 150.0 + 0j, jnp.inf + 0j])

            def __hash__(self):
                return 1

            def __eq__(self, other):
                return isinstance(other, Stub)
        prop = getattr(propagation, cls)(dt=0.05, n_walkers=5)
        prop._apply_trotprop = lambda ham_data, walkers, fields: walkers
        ham = dict(mf_shifts=jnp.zeros(1) + 0j, h0_prop=0.0, chol=jnp.zeros((1, 4)), exp_h1=jnp.eye(2))
        w_in = np.array([1.0, 1.0, 1.0, 0.1, 0.0])
        pd = dict(walkers=jnp.zeros((5, 2, 1)) + 0j, weights=jnp.array(w_in), overlaps=jnp.ones(5) + 0j, pop_control_ene_shift=jnp.array(0.0), e_estimate=jnp.array(0.0))
        out = propagation.propagator.propagate.__wrapped__(prop, Stub(), ham, pd, jnp.zeros((5, 1)), {})
        w = np.asarray(out["weights"])
        fac = np.where(w_in > 0, w / np.where(w_in > 0, w_in, 1.0), 0.0)     # single-step factor of the live walkers
        ok = (np.all(np.isfinite(w)) and np.all(w >= 0) and np.all((w == 0) | ((w >= 1e-3) & (w <= 100)))
              and np.all((fac == 0) | ((fac >= 1e-3 * (1 - 1e-12)) & (fac <= 100 * (1 + 1e-12)))) and np.all(w[w_in == 0] == 0))
        o["replayed"] = bool(not ok)
        o["witness"] = dict(model=o.get("witness"), native=dict(stub_overlap_ratios=["-0.5+0.1j (phase beyond pi/2)", "0.2", "1e-6", "150 (incoming weight 0.1)", "inf (incoming weight 0)"],
                                                                incoming_weights=w_in.tolist(), weights_after_one_step=w.tolist()))
    except Exception as e:   # noqa
        o["witness"] = dict(model=o.get("witness"), native_error=repr(e)[:300])

"""C01 – trial overlap equals the true many-body overlap <psi_T|phi>."""
from props._wf_common import TRUSTED, DROPPED, ASSUME

PROP, LEVEL, ENGINE = "C01", "other", "jxvc"
DESIGN_REF = "DESIGN.md section 3 C01"
TECHNIQUE = ("deductive, value-universal/shape-bounded: jaxpr of the real overlap functions interpreted over Q(i)(x), "
             "decided as polynomial/rational identities against a Fock-space spec; batching index maps by z3 (all sizes)"
             " Plus all-sizes obligations (kind proof): tensor normal forms with SYMBOLIC sizes of the same traced functions (engine B-T, DESIGN 2.3b).")
EXPLANATION = ("Each obligation is an identity of rational functions in ALL symbolic inputs (every complex walker, every trial "
               "parameter set) at an enumerated list of shapes (norb, nelec, ndets): the real overlap code, traced by JAX from the real "
               "objects, equals the inner product of the trial state written out in second quantisation with the walker determinant. "
               "Value-universal but shape-bounded, hence level 'other', not 'proof'. Canaries (perturbed specs) must be refuted; every traced "
               "function is cross-checked against its float64 JAX run.")
LEVEL_TEXT = EXPLANATION
LEVEL_NOTE = "Trusted base and assumptions are listed in the evidence file (trusted_base, assumptions, extraction_drops). Shapes: see coverage.all_obligations."
TRUSTED_BASE, ASSUMPTIONS = TRUSTED, ASSUME


def tasks(tier):
    W, M = "contracts.wf", "contracts.ms"
    t = []
    sd = [("rhf", 2, 1, 1, True), ("rhf", 3, 1, 1, True), ("rhf", 3, 1, 1, False), ("uhf", 2, 1, 1, False), ("uhf", 2, 1, 0, False),
          ("uhf", 3, 2, 1, False), ("uhf", 3, 2, 2, False), ("ghf", 3, 2, 2, False), ("noci", 3, 2, 2, False), ("ghf", 2, 1, 1, False), ("ghf", 3, 2, 1, False), ("noci", 2, 1, 0, False), ("noci", 3, 2, 1, False),
          ("cisd", 3, 1, 1, True), ("cisd", 4, 2, 2, True), ("cisd_faster", 3, 1, 1, True), ("CISD", 3, 1, 1, True), ("CISD", 4, 2, 2, True),
          ("CISD_THC", 3, 1, 1, True), ("CISD_THC", 4, 2, 2, True), ("UCISD", 3, 2, 1, False), ("UCISD", 3, 1, 1, False),
          ("ucisd", 3, 2, 1, False), ("ucisd", 3, 1, 1, False), ("ucisd", 3, 2, 0, False), ("GCISD", 2, 1, 1, False), ("GCISD", 3, 2, 1, False)]
    if tier == "thorough":
        sd += [("rhf", 4, 2, 2, True), ("rhf", 4, 2, 2, False), ("uhf", 3, 1, 1, False), ("uhf", 3, 2, 0, False), ("uhf", 4, 2, 2, False),
               ("uhf", 4, 3, 1, False), ("uhf", 4, 2, 1, False), ("ghf", 3, 1, 1, False), ("ghf", 3, 2, 0, False), ("ghf", 4, 2, 2, False),
               ("noci", 3, 1, 1, False), ("noci", 4, 2, 2, False), ("cisd", 4, 1, 1, True), ("CISD", 4, 1, 1, True), ("CISD_THC", 4, 1, 1, True),
               ("UCISD", 4, 2, 2, False), ("UCISD", 4, 2, 1, False), ("ucisd", 4, 2, 2, False), ("ucisd", 4, 2, 1, False), ("ucisd", 4, 3, 1, False),
               ("GCISD", 3, 1, 1, False)]
    for k, n, a, b, r in sd:
        t.append((W, "ov_fock", dict(kind=k, norb=n, nu=a, nd=b, restricted=r)))
    for k in ("UCISD", "ucisd"):
        t.append((W, "ov_fock", dict(kind=k, norb=3, nu=2, nd=1, moB="identity")))
        t.append((W, "ov_mob", dict(kind=k, norb=3, nu=2, nd=1)))
    if tier == "thorough":
        t.append((W, "ov_fock", dict(kind="noci", norb=3, nu=2, nd=1, ndets=3)))
    t.append((W, "ov_ru", dict(kind="rhf", norb=3, nocc=1)))
    if tier == "thorough":
        t.append((W, "ov_ru", dict(kind="rhf", norb=4, nocc=2)))
    # multi-Slater: every reference determinant of the space (shared with C11)
    for ref in range(9):
        t.append((M, "ms_state", dict(norb=3, nu=2, nd=1, ref=ref)))
    for ref in (0, 4, 8):
        t.append((M, "ms_state", dict(norb=3, nu=1, nd=1, ref=ref, restricted=True)))
    # spaces with same-spin double excitations (norb 4), non-aufbau references; parity convention exhaustively
    for ref in (0, 23, 11, 17):
        t.append((M, "ms_state", dict(norb=4, nu=2, nd=1, ref=ref)))
    for ref in (35, 20):
        t.append((M, "ms_state", dict(norb=4, nu=2, nd=2, ref=ref, restricted=True)))
    t.append((M, "ms_parity", dict(norb_max=5)))
    # one-particle density matrices (exact orthonormal orbitals; NOCI symbolic)
    for k, n, a, b, cplx in [("rhf", 3, 1, 1, False), ("rhf", 3, 1, 1, True), ("uhf", 3, 2, 1, False), ("uhf", 3, 2, 1, True), ("uhf", 2, 1, 0, False),
                             ("ghf", 2, 1, 1, False), ("ghf", 2, 1, 1, True), ("ghf", 3, 2, 1, False), ("noci", 2, 1, 1, False)]:
        t.append((W, "rdm_true", dict(kind=k, norb=n, nu=a, nd=b, complex_orbitals=cplx)))
    t += [("contracts.allsizes", "rdm_allsizes", dict(kind="rhf")), ("contracts.allsizes", "rdm_allsizes", dict(kind="uhf"))]      # C C^dagger for ALL sizes
    for w in ("overlap", "conj"):
        t.append((W, "canary", dict(which=w)))
    return t


def post(obs, tier, rep):
    for o in obs:
        if o["name"].startswith("C11."):
            o["name"] = "C01.ov." + o["name"][4:]
    return obs

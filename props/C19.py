"""C19 – reported means and error bars follow their statistical definitions (partial)."""
from props._wf_common import TRUSTED

PROP, LEVEL, ENGINE = "C19", "other", "jxvc"
DESIGN_REF = "DESIGN.md section 3 C19"
TECHNIQUE = ("deductive, value-universal/length-bounded: the real stat_utils functions executed on arrays of symbolic samples and weights over the exact field Q(x) "
             "(formal square roots, comparison oracle enumerating every outcome), results decided as rational identities against the formulas of the statement")
EXPLANATION = ("For sample lengths 4..11 (block sizes 1, 2, 5 active) and ALL sample / weight values: the mean is sum(w e)/sum(w); at every block size the squared error is the unbiased "
               "weighted-variance formula over CONTIGUOUS blocks / (number of blocks - 1) (at block size 1 this is the formula of the statement); mean and errors are invariant under a "
               "common rescaling of the weights, the mean shifts with and the errors ignore an added constant, constant data give error exactly 0, the equilibration cut is slicing; "
               "for every outcome sequence of the plateau comparisons the returned error is the larger of the two errors at the first non-growing block size. jackknife_ratios equals "
               "the brute-force leave-one-out formulas; reject_outliers is checked exhaustively on a small integer grid incl. ties (bounded). Length-bounded => 'other'.")
LEVEL_TEXT = EXPLANATION
LEVEL_NOTE = "N/D: statistical validity for i.i.d. / AR(1) ensembles and the plateau behaviour for autocorrelated data (statements about distributions, not about one call)."
TRUSTED_BASE = ["numpy semantics on object arrays equals that on float arrays for slicing / sum / multiply (the code path is the same python)", "exact polynomial arithmetic of sympy", "formal square roots: sqrt is injective on the non-negative reals"]
ASSUMPTIONS = ["weights positive (denominators non-zero)", "exact arithmetic (no rounding)"]
DROPPED = ["printing / savetxt", "floating-point rounding"]


def tasks(tier):
    S = "contracts.stats"
    t = [(S, "blocking", dict(n=4)), (S, "blocking", dict(n=6)), (S, "blocking", dict(n=7, neql=1)), (S, "blocking", dict(n=11, wmode="rational")),
         (S, "blocking", dict(n=13, neql=2, wmode="rational")), (S, "invariances", dict(n=6)), (S, "jackknife", dict(n=4)), (S, "outliers", dict(nmax=5)), (S, "canary", {})]
    if tier == "thorough":
        t += [(S, "blocking", dict(n=8)), (S, "blocking", dict(n=22, wmode="rational")), (S, "jackknife", dict(n=5)), (S, "outliers", dict(nmax=6))]
    return t

"""C12 – all sampler entry points compute the same, correct block estimator."""
PROP, LEVEL, ENGINE = "C12", "proof", "pyvc"
DESIGN_REF = "DESIGN.md section 3 C12 and Appendix B"
TECHNIQUE = ("deductive: signature/dispatch conformance of every call in sampling.py and driver.py (ground facts from the real dispatcher), and symbolic execution "
             "of the real entry-point bodies over uninterpreted functions (EUF terms) compared with canonical terms per (orbital_rotation, do_sr) flags")
EXPLANATION = ("sig.*: every call from the sampler/driver conforms to the callee's signature in every override, static (hashed) positions receive static objects, and every "
               "singledispatch method resolves list, concrete-array and traced-array walkers (tracer classes obtained from jit/vmap/jvp/scan) to a registered implementation. "
               "eq.*: each entry point, executed symbolically with every numerical callee uninterpreted, has the canonical prelude (h1 += coupling*op, optional optimize, both "
               "intermediates), the canonical initialisation (overlap refresh from the current walkers, n_killed=0, shift=e_estimate), iterates the canonical block function "
               "the canonical number of times and returns sum(E_b W_b)/sum(W_b); _sr_block_scan = n_ene_blocks blocks + local SR + refresh; est.block: _block_scan returns "
               "sum(w cap(Re E_L))/sum(w) on the walkers after QR with cap at sqrt(2/dt). Valid for all inputs, block/step counts and seeds (structural).")
LEVEL_TEXT = EXPLANATION
LEVEL_NOTE = ("Uninterpreted: trial/ham/prop methods, jnp.*, random.* (pure, deterministic: equal arguments give equal results - which also yields bit-reproducibility for a given seed "
              "and, with C14, batch independence); lax.scan recorded as (body, init, length); checkpoint = identity. 'same energy for the same block structure' between SR and no-SR cores "
              "follows from equal canonical terms with n_sr_blocks = 1 and the scan-of-length-1 axiom (stated). Converged trial => optimize is the identity: C18 N/D clause.")
TRUSTED_BASE = ["python ast + subset semantics", "functools.singledispatch of the real class asked with the real classes", "EUF: library calls are deterministic functions of their arguments",
                "scan(f, c, length=1) = f(c) and sum over a (1,n) array = sum over its row (stated axioms for the SR/no-SR comparison)"]
ASSUMPTIONS = ["numerical callees are pure", "the option matrix of the driver selects the entry point named by its flags (driver.dispatch obligation)"]
DROPPED = ["jit/partial decorators", "all numerical content of callees (covered by C01-C05, C07, C09)"]


def tasks(tier):
    t = [("contracts.sampler_sig", "sig_calls", {}), ("contracts.sampler_sig", "sig_dispatch", {})]
    from contracts import sampler_eq as S
    for e in S.FLAGS:
        t.append(("contracts.sampler_eq", "entry_eq", dict(entry=e)))
    t += [("contracts.sampler_eq", "sr_block", {}), ("contracts.sampler_eq", "est_block", {}), ("contracts.sampler_eq", "driver_dispatch", {}),
          ("contracts.sampler_eq", "canary", {})]
    return t


def post(obs, tier, rep):
    from contracts import native
    for o in obs:
        if o["status"] == "refuted" and o["kind"] != "canary" and ".eq." in o["name"] and "init.overlaps" in o["name"]:
            entry = o["name"].split(".")[2]
            try:
                rec = native.coherence_history(entry, restricted=True)
                dev = max(rec) if rec else 0.0
                o["replayed"] = bool(dev > 1e-9)
                o["witness"] = dict(native=dict(history=f"{entry}; QR; global SR (serial stub); {entry}", max_relative_incoherence_at_propagate_entry=dev))
            except Exception as e:  # noqa
                o["witness"] = dict(native_error=repr(e)[:200])
        if o["status"] == "refuted" and o["kind"] != "canary" and ".eq." in o["name"] and ".prelude." in o["name"]:
            entry = o["name"].split(".")[2]
            if entry in ("propagate_phaseless_ad", "propagate_phaseless_ad_nosr"):
                try:
                    dev, rec = native.prelude_rotation_deviation(entry)
                    o["replayed"] = bool(dev > 1e-9)
                    o["witness"] = dict(model=o.get("witness"), native=dict(check="energy of the entry point vs its non-rotating twin with the prelude done by hand in the stated order "
                                                                            "(h1 += coupling*op; optimize; intermediates from the optimised orbitals)", **rec))
                except Exception as e:  # noqa
                    o["witness"] = dict(model=o.get("witness"), native_error=repr(e)[:200])
        if o["status"] == "refuted" and o["kind"] != "canary" and ".est.block." in o["name"]:
            try:
                dev = native.block_estimator_deviation()
                o["replayed"] = bool(dev > 1e-8)
                o["witness"] = dict(native=dict(check="single-block energy vs weight-averaged capped local energy of the returned walkers, e_estimate displaced by 0, +-0.7, +-1.2, +-2.5 radii",
                                                max_deviation=dev))
            except Exception as e:  # noqa
                o["witness"] = dict(native_error=repr(e)[:200])
        if o["status"] == "refuted" and o["kind"] != "canary" and o["name"].endswith("length"):
            # native replay: number of propagate() steps actually executed by the plain SR entry point (twice in the history): 2 * n_sr * n_ene * n_prop_steps
            try:
                rec = native.coherence_history("propagate_phaseless", restricted=True, n_ene_blocks=3, n_sr_blocks=2)
                o["replayed"] = bool(len(rec) != 2 * 2 * 3 * 2)
                o["witness"] = dict(native=dict(history="propagate_phaseless twice with n_prop_steps=2, n_ene_blocks=3, n_sr_blocks=2", propagate_steps_executed=len(rec), expected=24))
            except Exception as e:  # noqa
                o["witness"] = dict(native_error=repr(e)[:200])
        if o["status"] == "refuted" and ".sig.dispatch." in o["name"]:
            o["replayed"] = True      # ground fact evaluated on the real dispatcher IS the native replay
        if o["status"] == "refuted" and ".sig.call." in o["name"]:
            o["replayed"] = None
    return obs

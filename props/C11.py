"""C11 – determinant-list trials mean what they say."""
from props._wf_common import TRUSTED, DROPPED, ASSUME

PROP, LEVEL, ENGINE = "C11", "other", "jxvc"
DESIGN_REF = "DESIGN.md section 3 C11"
TECHNIQUE = ("deductive, value-universal/shape-bounded: the real get_excitations/parity executed on determinant lists with symbolic coefficients, "
             "their output fed to the traced multislater overlap, decided as a polynomial identity against sum_i c_i <D_i|phi>; parity exhaustive")
EXPLANATION = ("For the full determinant list of every small space, EVERY choice of the first (reference) determinant, several orders of the rest and "
               "both excitation cut-offs, the overlap computed by the real list pipeline equals sum_i c_i <D_i|phi> as a polynomial identity in all "
               "coefficients and all walker entries (shape-bounded). parity() is checked exhaustively against string algebra for norb <= 5 (bounded). "
               "Zero variance of an exact trial is the corollary with C02 (auto lemma) and C12; get_fci_state / read_dets (pyscf object, binary file) are not decided.")
LEVEL_TEXT = EXPLANATION
LEVEL_NOTE = "N/D clauses: pyscf FCI object -> state dictionary, binary determinant file reader, driver-level block energies (corollary of C02+C12). " + " ; ".join(TRUSTED[:3])
TRUSTED_BASE, ASSUMPTIONS = TRUSTED + ["numpy semantics of get_excitations on object arrays equals that on float arrays (the code only multiplies coefficients by +-1.0 and reshapes)"], ASSUME[:1]


def tasks(tier):
    M = "contracts.ms"
    t = [(M, "ms_parity", dict(norb_max=5))]
    for ref in range(9):
        for order, mx in (("id", "full"), ("rev", "min")):
            t.append((M, "ms_state", dict(norb=3, nu=2, nd=1, ref=ref, order=order, maxexc=mx)))
    for ref in range(9):
        t.append((M, "ms_state", dict(norb=3, nu=1, nd=1, ref=ref, order="rot", maxexc="full")))
        t.append((M, "ms_state", dict(norb=3, nu=1, nd=1, ref=ref, restricted=True)))
    for ref in (0, 1):
        t.append((M, "ms_state", dict(norb=2, nu=1, nd=1, ref=ref)))
    # truncated lists (not the full space): a subset with a non-aufbau first determinant
    t.append((M, "ms_state", dict(norb=3, nu=2, nd=1, ref=1, subset=[8, 0, 4, 5], maxexc="min")))
    t.append((M, "ms_state", dict(norb=3, nu=2, nd=1, ref=0, subset=[2, 6, 7], maxexc="min")))
    for ref in (0, 23, 11, 17, 5):
        t.append((M, "ms_state", dict(norb=4, nu=2, nd=1, ref=ref, order="rev" if ref % 2 else "id")))
    for ref in (35, 20):
        t.append((M, "ms_state", dict(norb=4, nu=2, nd=2, ref=ref, restricted=True)))
    t.append((M, "ms_state", dict(norb=4, nu=2, nd=2, ref=35)))
    if tier == "thorough":
        for ref in range(0, 24, 1):
            t.append((M, "ms_state", dict(norb=4, nu=2, nd=1, ref=ref)))
        for ref in range(0, 36, 5):
            t.append((M, "ms_state", dict(norb=4, nu=2, nd=2, ref=ref)))
    return t

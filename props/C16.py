"""C16 (partial) – the pyscf interface writes what the AFQMC set-up reads, in the library's conventions."""
PROP, LEVEL, ENGINE = "C16", "other", "pyvc+jxvc"
DESIGN_REF = "DESIGN.md section 3 C16"
TECHNIQUE = ("deductive on the repository's own code between pyscf and the sampler, pyscf's results entering as free symbols: interface contracts read off the ASTs of writer and reader "
             "(ground facts that hold for every input), a linear-integer verification condition for the electron counts, the REAL write_dqmc against the reader's extracted statements, "
             "and the REAL amplitude / custom-integral blocks of prep_afqmc (extracted mechanically by AST position on every run) executed over the exact field against second-quantised "
             "spec states")
EXPLANATION = ("io.*: file name, dataset keys (every key read is written unconditionally), header order, the argument binding of the write_dqmc call, npz keys of mo_coeff / amplitudes, and the "
               "wave_data keys the cisd / ucisd classes consume all agree between pyscf_interface.prep_afqmc / write_dqmc and mpi_jax._prep_afqmc. io.nelec (proof): for all n_up >= n_dn >= 0 the "
               "reader recovers (n_up, n_dn) from the written (n_up + n_dn, n_up - n_dn). io.layout: h0, h1[p,q] (both spins), chol[g,p,q] come back entry by entry. io.trial.<option>: the reader's own wave_data statements give the rhf / uhf trial the leading n_s columns of spin block s, rdm1 their projectors, cisd / ucisd the equally named amplitude arrays, and a trial object of the option's class with the file's norb and electron counts. amp.ccsd / amp.uccsd: for ALL "
               "amplitude values the arrays written to amplitudes.npz define - in the CISD / UCISD conventions that C01 proves the overlap code to implement - exactly exp(T1+T2)|Phi0> truncated at "
               "doubles, hence the trial's mixed energy at the reference determinant is the coupled-cluster energy (H connects |Phi0> to at most doubles). trial.coeffs.<kind>: the statements that build trial_coeffs give, with qr under its contract, Q_s diag(sign diag R_s) built spin by spin from mo_coeff[s] (rhf: Q), and this array is what mo_coeff.npz receives - so the written trial keeps every leading-column span of basis^T S mo_coeff[s]. custom.*: the custom-integrals branch "
               "unpacks pyscf's 4-fold pair index into symmetric matrices and transforms h1 and every Cholesky matrix to the chosen basis (with C17: the written vectors reproduce the supplied "
               "two-electron integrals to chol_cut). Shape-bounded => 'other'.")
LEVEL_TEXT = EXPLANATION
LEVEL_NOTE = ("N/D (pyscf is external, no contracts on it): equality of the trial's variational energy with pyscf's SCF energy, of the exact ground state with pyscf's FCI energy, of the mixed energy with "
              "pyscf's CC energy AS NUMBERS; generate_integrals / density fitting / chunked_cholesky; the frozen-core effective Hamiltonian (CASSCF.get_h1eff); the options / observable files. Assumed: pyscf's documented amplitude "
              "conventions (stated in amp's contract), mol.spin = n_up - n_dn >= 0, CASSCF.nelecas = mol.nelec minus the frozen pairs.")
TRUSTED_BASE = ["python ast of the real source files, re-read on every run; extraction by AST position: the `if isinstance(cc, UCCSD)` statement, the statements after `chol0 = modified_cholesky(...)` "
                "in the `integrals is not None` branch, the `with h5py.File('FCIDUMP_chol')` block and the ham_data / nelec_sp assignments of the reader",
                "CPython executing those statements with `np` bound to numpy (einsum / zeros / savez replaced by exact object-array versions) and `h5py` to an in-memory dictionary",
                "exact polynomial arithmetic (sympy) and the Fock-space spec; the CISD / UCISD state conventions are the ones C01 verifies against the real overlap code",
                "z3 linear integer arithmetic"]
ASSUMPTIONS = ["pyscf conventions: RCCSD T2 = 1/2 sum t2[i,j,a,b] E_ai E_bj with t2[i,j,a,b] = t2[j,i,b,a]; UCCSD same-spin t2 antisymmetric with weight 1/4, t2ab[i,j,a,b] with i,a alpha and j,b beta; "
               "ao2mo.restore(4, ...) pair index m(m+1)/2+n for m >= n", "mol.spin = n_up - n_dn >= 0 (a negative spin would swap the channels: canary)",
               "UCISD state checked with the beta orbitals equal to the alpha ones (mo_coeff[1] = identity); the general case is C01's ov.mob lemma"]
DROPPED = ["everything pyscf computes", "file system semantics (the HDF5 file is an in-memory dictionary)", "shape generality of the executed blocks (enumerated small shapes, all values)"]


def tasks(tier):
    I = "contracts.iface"
    t = [(I, "trial_coeffs", dict(kind="uhf")), (I, "trial_coeffs", dict(kind="rohf")), (I, "trial_coeffs", dict(kind="rhf")), (I, "io_facts", {}), (I, "io_nelec", {}), (I, "io_trial", dict(norb=3, nelec_sp=[2, 1])), (I, "io_trial", dict(norb=4, nelec_sp=[3, 2])), (I, "io_layout", dict(nmo=3, nchol=2)), (I, "io_layout", dict(nmo=2, nchol=3)),
         (I, "amp", dict(kind="ccsd", norb=3, nocc=[1, 1])), (I, "amp", dict(kind="ccsd", norb=4, nocc=[2, 2])), (I, "amp", dict(kind="uccsd", norb=4, nocc=[2, 1])),
         (I, "amp", dict(kind="uccsd", norb=4, nocc=[2, 2])), (I, "amp", dict(kind="uccsd", norb=3, nocc=[1, 1])), (I, "amp_canary", {}),
         (I, "custom_unpack", dict(norb=3, nchol=2)), (I, "custom_unpack", dict(norb=2, nchol=1))]
    if tier == "thorough":
        t += [(I, "amp", dict(kind="ccsd", norb=5, nocc=[2, 2])), (I, "amp", dict(kind="uccsd", norb=5, nocc=[3, 2])), (I, "custom_unpack", dict(norb=4, nchol=3)),
              (I, "io_layout", dict(nmo=5, nchol=4))]
    return t
